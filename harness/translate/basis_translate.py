"""AST -> Lean translator for the methods of `splipy/basis.py::BSplineBasis` (work package t1).

`translate(src)` parses the module source, finds the class `BSplineBasis` and compiles the bodies of
its methods, statement by statement, into Lean definitions in the `PyM` (= `Except PyErr`) monad over
the models of the Python / numpy primitives in `lean/Splipy/Lemmas/PyBasisLib.lean`.  Nothing is taken
from the hand-written model (`lean/Splipy/Model/Basis*.lean`); `lean/Splipy/Lemmas/PyBasisEq.lean`
proves the generated definitions extensionally equal to that model, and is re-checked against the
freshly generated file on every run (`harness/props/_pybasis.py`).

Shape of the output (chosen so that the result is a plain functional term, easy to reason about):
* expressions are put in evaluation order: every sub-expression that can raise (`xs[i]`, method
  calls, Python `/` and `%`, ...) is bound to a temporary `tmpN` first (`let tmpN <- ...`);
  short-circuit `and` / `or` whose later operands can raise become a monadic `if`;
* assignment = `let` (re-assignment shadows);
* `if` statements that assign variables return the tuple of those variables;
  `for` loops are `forRange` / `forEach` folds over the tuple of the variables the body assigns;
* `raise X(..)` = `throw`, `return` must be in tail position (an `if` containing a `return` is
  compiled with the rest of the block as continuation of its fall-through branch);
* `self.attr = e` rebinds `self`; methods that mutate `self` return the new `self`
  (together with their return value, if any); `snap(t)` returns the new `t`.

Python is untyped: `SIGS` fixes the interface assumptions (parameter / result types, default values —
checked against the source — and, for parameters compared with `None` or tested with `type(..)`, the
*specialisation* that is translated).  The translator accepts only the constructs that occur in
these methods and FAILS CLOSED: anything else raises `Untranslatable`, reported per method.
"""
import ast
import hashlib
import re
from fractions import Fraction


class Untranslatable(Exception):
    pass


class _NameErrorAt(Exception):
    """Evaluation reaches a name that is bound nowhere: Python raises NameError there."""


LEAN_KEYWORDS = {'end', 'from', 'at', 'fun', 'do', 'then', 'else', 'open', 'in', 'instance', 'class', 'namespace',
                 'section', 'let', 'have', 'show', 'if', 'match', 'with', 'where', 'def', 'theorem', 'variable',
                 'universe', 'import', 'mutual', 'structure', 'inductive', 'deriving', 'abbrev', 'by', 'return',
                 'for', 'unless', 'try', 'catch', 'finally', 'macro', 'syntax', 'local', 'prefix', 'infix', 'notation',
                 'Type', 'Prop', 'Sort', 'self_', 'matches', 'using', 'from', 'extends', 'private', 'protected'}
# names of the support library / Lean core a Python local must not shadow silently
RESERVED = {'len', 'slice', 'sorted', 'flatten', 'append', 'max', 'min', 'pure', 'tol', 'K', 'pmod', 'getItem', 'setItem'}


def lname(n):
    if n in LEAN_KEYWORDS:
        return '«%s»' % n
    if n in RESERVED:
        return n + '_'
    return n


# static types: int, pyf (Python float), npf (numpy float), bool, arr (numpy 1-d float array),
# list (Python list of floats), listlist, mat (numpy 2-d), self, ext (int or +-inf), slice, row2d, none
LEAN_TYPE = {'int': 'Int', 'pyf': 'K', 'npf': 'K', 'arr': 'Array K', 'list': 'Array K', 'listlist': 'Array (Array K)',
             'mat': 'Mat K', 'self': 'Self K', 'ext': 'Ext', 'slice': 'Int × Int', 'boolv': 'Bool', 'boolr': 'Bool'}
FLOATS = ('pyf', 'npf')
SEQS = ('arr', 'list')


# ---------------------------------------------------------------------------------------------------
# interface table.  params: (python name, type, default or NODEFAULT); `spec`: static facts used to prune
# `x is None` / `type(x) is int` tests; `mut`: what the method mutates ('self', a parameter name, or None);
# `ret`: type of the returned value (None = returns None).

NODEFAULT = object()

SIGS = {
    '__init__': {'lean': 'init', 'params': [('order', 'int', 2), ('knots', 'list', None), ('periodic', 'int', -1)],
                 'ret': None, 'mut': 'self', 'ctor': True},
    'init_default': {'py': '__init__', 'lean': 'init_default',
                     'params': [('order', 'int', 2), ('knots', 'none', None), ('periodic', 'int', -1)],
                     'ret': None, 'mut': 'self', 'ctor': True},
    'num_functions': {'params': [], 'ret': 'int', 'mut': None},
    'start': {'params': [], 'ret': 'npf', 'mut': None},
    'end': {'params': [], 'ret': 'npf', 'mut': None},
    'greville': {'params': [('index', 'none', None)], 'ret': 'list', 'mut': None},
    'greville_at': {'py': 'greville', 'lean': 'greville_at', 'params': [('index', 'int', None)], 'ret': 'pyf', 'mut': None},
    'snap': {'params': [('t', 'list', NODEFAULT)], 'ret': None, 'mut': 't'},
    'continuity': {'params': [('knot', 'npf', NODEFAULT)], 'ret': 'ext', 'mut': None},
    'knot_spans': {'params': [('include_ghost_knots', 'boolv', False)], 'ret': 'list', 'mut': None},
    '__iadd__': {'lean': 'iadd', 'params': [('a', 'npf', NODEFAULT)], 'ret': 'self', 'mut': 'self'},
    '__isub__': {'lean': 'isub', 'params': [('a', 'npf', NODEFAULT)], 'ret': 'self', 'mut': 'self'},
    '__imul__': {'lean': 'imul', 'params': [('a', 'npf', NODEFAULT)], 'ret': 'self', 'mut': 'self'},
    '__itruediv__': {'lean': 'itruediv', 'params': [('a', 'npf', NODEFAULT)], 'ret': 'self', 'mut': 'self'},
    'normalize': {'params': [], 'ret': None, 'mut': 'self'},
    'reparam': {'params': [('start', 'npf', 0), ('end', 'npf', 1)], 'ret': None, 'mut': 'self'},
    'reverse': {'params': [], 'ret': None, 'mut': 'self'},
    'roll': {'params': [('new_start', 'int', NODEFAULT)], 'ret': None, 'mut': 'self'},
    'make_periodic': {'params': [('continuity', 'int', NODEFAULT)], 'ret': 'self', 'mut': None},
    'insert_knot': {'params': [('new_knot', 'npf', NODEFAULT)], 'ret': 'mat', 'mut': 'self'},
    'raise_order': {'params': [('amount', 'int', NODEFAULT)], 'ret': 'self', 'mut': None},
    'lower_order': {'params': [('amount', 'int', NODEFAULT)], 'ret': 'self', 'mut': None},
    'integrate': {'params': [('t0', 'npf', NODEFAULT), ('t1', 'npf', NODEFAULT)], 'ret': 'list', 'mut': None},
    'matches': {'params': [('bspline', 'self', NODEFAULT), ('reverse', 'boolv', False)], 'ret': 'boolr', 'mut': None},
}
# translation order (callees first)
ORDER = ['__init__', 'init_default', 'num_functions', 'start', 'end', 'greville', 'greville_at', 'snap', 'continuity',
         'knot_spans', '__iadd__', '__isub__', '__imul__', '__itruediv__', 'normalize', 'reparam', 'reverse', 'roll',
         'make_periodic', 'insert_knot', 'raise_order', 'lower_order', 'integrate', 'matches']
INPLACE = {ast.Add: '__iadd__', ast.Sub: '__isub__', ast.Mult: '__imul__', ast.Div: '__itruediv__'}
# module-level names of basis.py that are not locals (only usable in the call / attribute forms handled below)
GLOBALS = {'np', 'state', 'bisect_left', 'bisect_right', 'copy', 'BSplineBasis', 'csr_matrix', 'ensure_listlike',
           'basis_eval', 'len', 'abs', 'float', 'int', 'max', 'min', 'range', 'list', 'slice', 'type', 'ValueError',
           'TypeError', 'RuntimeError', 'NotImplemented', 'IndexError'}
ERR = {'ValueError': '.value', 'TypeError': '.type', 'RuntimeError': '.runtime', 'IndexError': '.index',
       'NotImplemented': '.type'}     # `raise NotImplemented(..)` calls a non-callable constant: TypeError


def py_name(key):
    return SIGS[key].get('py', key)


def lean_name(key):
    return lname(SIGS[key].get('lean', key))


def ret_lean_type(sig):
    parts = []
    if sig['mut'] == 'self' and sig['ret'] != 'self':
        parts.append('Self K')
    elif sig['mut'] not in (None, 'self'):
        parts.append(LEAN_TYPE[dict((p, t) for p, t, _ in sig['params'])[sig['mut']]])
    if sig['ret'] is not None:
        parts.append(LEAN_TYPE[sig['ret']])
    return ' × '.join(parts) if parts else 'Unit'


class Fn:
    def __init__(self, key, node, floor_users):
        self.key = key
        self.node = node
        self.sig = SIGS[key]
        self.env = {}            # python name -> static type
        self.recursive = False   # the method calls itself (on another object)
        self.lines = []
        self.ntmp = 0
        self.uses_floor = False
        self.floor_users = floor_users   # keys of already translated functions needing FloorRing
        self.calls = set()

    # ------------------------------------------------------------------------------------------- output
    def emit(self, ind, s):
        self.lines.append('  ' * ind + s)

    def tmp(self):
        self.ntmp += 1
        return 'tmp%d' % self.ntmp

    def bindm(self, ind, text):
        """Bind a monadic value to a fresh temporary."""
        t = self.tmp()
        self.emit(ind, 'let %s ← %s' % (t, text))
        return t

    # ------------------------------------------------------------------------------------- expressions
    @staticmethod
    def cast(text, ty):
        """Text of a scalar as an element of K."""
        if ty == 'int':
            m = re.fullmatch(r'\((-?\d+) : Int\)', text)
            if m:
                return '(%s : K)' % m.group(1)
            return '((%s : Int) : K)' % text
        if ty in FLOATS:
            return text
        raise Untranslatable('a %r where a number is expected: %s' % (ty, text))

    def static_test(self, e):
        """Statically decided tests (`x is None`, `type(x) is not int`); None if `e` is not of that form."""
        if isinstance(e, ast.Compare) and len(e.ops) == 1 and isinstance(e.ops[0], (ast.Is, ast.IsNot)):
            l, r = e.left, e.comparators[0]
            neg = isinstance(e.ops[0], ast.IsNot)
            if isinstance(r, ast.Constant) and r.value is None and isinstance(l, ast.Name):
                if l.id not in self.env:
                    raise Untranslatable('`is None` on the unbound name %s' % l.id)
                return (self.env[l.id] == 'none') != neg
            if (isinstance(l, ast.Call) and isinstance(l.func, ast.Name) and l.func.id == 'type' and len(l.args) == 1
                    and isinstance(l.args[0], ast.Name) and isinstance(r, ast.Name) and r.id in ('int', 'float')):
                ty = self.env.get(l.args[0].id)
                if ty is None:
                    raise Untranslatable('type() of the unbound name %s' % l.args[0].id)
                is_it = (ty == 'int') if r.id == 'int' else (ty == 'pyf')
                if r.id == 'float' and ty == 'npf':
                    raise Untranslatable('type(x) is float on a numpy float')
                return is_it != neg
            raise Untranslatable('`is` comparison of an unsupported form: %s' % ast.unparse(e))
        return None

    def ex(self, ind, e):
        """Translate expression `e`; temporaries are emitted at indentation `ind`.  Returns (text, type)."""
        if isinstance(e, ast.Name):
            if e.id in self.env:
                if self.env[e.id] == 'none':
                    raise Untranslatable('use of the None-valued parameter %s' % e.id)
                return self.var_text(e.id), self.env[e.id]
            if e.id in GLOBALS:
                raise Untranslatable('global %s used as a value' % e.id)
            raise _NameErrorAt(e.id)
        if isinstance(e, ast.Constant):
            v = e.value
            if isinstance(v, bool):
                return ('True' if v else 'False'), 'bool'
            if isinstance(v, int):
                return '(%d : Int)' % v, 'int'
            if isinstance(v, float):
                fr = Fraction(repr(v))
                txt = '(%d : K)' % fr.numerator if fr.denominator == 1 else '((%d : K) / %d)' % (fr.numerator, fr.denominator)
                return txt, 'pyf'
            raise Untranslatable('constant %r' % (v,))
        if isinstance(e, ast.UnaryOp):
            if isinstance(e.op, ast.USub):
                if isinstance(e.operand, ast.Constant) and type(e.operand.value) is int:
                    return '(%d : Int)' % (-e.operand.value), 'int'
                a, ta = self.ex(ind, e.operand)
                if ta == 'int' or ta in FLOATS:
                    return '(-%s)' % a, ta
                raise Untranslatable('negation of a %r' % ta)
            if isinstance(e.op, ast.Not):
                a, ta = self.ex(ind, e.operand)
                if ta != 'bool':
                    raise Untranslatable('`not` of a %r' % ta)
                return '(¬ %s)' % a, 'bool'
            raise Untranslatable('unary operator %s' % type(e.op).__name__)
        if isinstance(e, ast.BinOp):
            return self.binop(ind, e)
        if isinstance(e, ast.Compare):
            st = self.static_test(e)
            if st is not None:
                return ('True' if st else 'False'), 'bool'
            if len(e.ops) != 1:
                raise Untranslatable('chained comparison')
            a, ta = self.ex(ind, e.left)
            b, tb = self.ex(ind, e.comparators[0])
            op = e.ops[0]
            sym = {ast.Lt: '<', ast.LtE: '≤', ast.Gt: '>', ast.GtE: '≥', ast.Eq: '=', ast.NotEq: '≠'}.get(type(op))
            if sym is None:
                raise Untranslatable('comparison operator %s' % type(op).__name__)
            if ta == tb == 'int':
                return '(%s %s %s)' % (a, sym, b), 'bool'
            if (ta == 'int' or ta in FLOATS) and (tb == 'int' or tb in FLOATS):
                return '(%s %s %s)' % (self.cast(a, ta), sym, self.cast(b, tb)), 'bool'
            raise Untranslatable('comparison of %r with %r' % (ta, tb))
        if isinstance(e, ast.BoolOp):
            return self.boolop(ind, e)
        if isinstance(e, ast.Attribute):
            return self.attribute(ind, e)
        if isinstance(e, ast.Subscript):
            return self.subscript(ind, e)
        if isinstance(e, ast.Call):
            return self.call(ind, e)
        if isinstance(e, ast.List):
            parts = []
            for x in e.elts:
                a, ta = self.ex(ind, x)
                parts.append(self.cast(a, ta))
            return '(#[%s] : Array K)' % ', '.join(parts), 'list'
        if isinstance(e, ast.ListComp):
            return self.listcomp(ind, e)
        raise Untranslatable('expression %s' % ast.unparse(e)[:80])

    def binop(self, ind, e):
        a, ta = self.ex(ind, e.left)
        b, tb = self.ex(ind, e.right)
        op = type(e.op)
        sym = {ast.Add: '+', ast.Sub: '-', ast.Mult: '*'}.get(op)
        scal = lambda t: t == 'int' or t in FLOATS      # noqa: E731
        if ta == tb == 'int':
            if sym:
                return '(%s %s %s)' % (a, sym, b), 'int'
            if op is ast.Mod:
                return self.bindm(ind, 'pyModI %s %s' % (a, b)), 'int'
            if op is ast.Div:
                return self.bindm(ind, 'pyDivI %s %s' % (self.cast(a, ta), b)), 'pyf'
            if op is ast.FloorDiv:
                return self.bindm(ind, 'pyFloorDivI %s %s' % (a, b)), 'int'
            raise Untranslatable('int operator %s' % op.__name__)
        if scal(ta) and scal(tb):
            rty = 'npf' if 'npf' in (ta, tb) else 'pyf'
            if sym:
                return '(%s %s %s)' % (self.cast(a, ta), sym, self.cast(b, tb)), rty
            if op is ast.Div:
                if rty == 'npf':
                    return '(%s / %s)' % (self.cast(a, ta), self.cast(b, tb)), 'npf'
                if tb == 'int':
                    return self.bindm(ind, 'pyDivI %s %s' % (self.cast(a, ta), b)), 'pyf'
                return self.bindm(ind, 'pyDiv %s %s' % (self.cast(a, ta), self.cast(b, tb))), 'pyf'
            if op is ast.Mod and rty == 'npf':
                self.uses_floor = True
                return '(pmod %s %s)' % (self.cast(a, ta), self.cast(b, tb)), 'npf'
            raise Untranslatable('float operator %s on %r, %r' % (op.__name__, ta, tb))
        if ta == 'arr' and scal(tb):
            f = {ast.Add: 'arrAddS', ast.Sub: 'arrSubS', ast.Mult: 'arrMulS', ast.Div: 'arrDivS'}.get(op)
            if f:
                return '(%s %s %s)' % (f, a, self.cast(b, tb)), 'arr'
        if scal(ta) and tb == 'arr' and op is ast.Sub:
            return '(arrRSubS %s %s)' % (self.cast(a, ta), b), 'arr'
        if ta == tb == 'arr' and op is ast.Sub:
            return self.bindm(ind, 'arrSub %s %s' % (a, b)), 'arr'
        if ta == tb == 'mat' and op is ast.MatMult:
            return self.bindm(ind, 'npMatmul %s %s' % (a, b)), 'mat'
        if ta == tb == 'list' and op is ast.Add:
            return '(listAdd %s %s)' % (a, b), 'list'
        if ta == 'list' and tb == 'int' and op is ast.Mult:
            return '(listMul %s %s)' % (a, b), 'list'
        if ta == 'list' and tb == 'ext' and op is ast.Mult:
            return '(listMul %s %s)' % (a, self.bindm(ind, 'Ext.toCount %s' % b)), 'list'
        if ta == 'int' and tb == 'ext' and op is ast.Sub:
            return '(Ext.rsub %s %s)' % (a, b), 'ext'
        raise Untranslatable('operator %s on %r and %r' % (op.__name__, ta, tb))

    def capture(self, fn):
        """Run fn() with a fresh line buffer; returns (result, captured lines)."""
        saved = self.lines
        self.lines = []
        try:
            r = fn()
            got = self.lines
        finally:
            self.lines = saved
        return r, got

    def boolop(self, ind, e):
        is_and = isinstance(e.op, ast.And)
        # operands left to right; an operand whose evaluation can raise is guarded by the previous ones
        text, ty = self.ex(ind, e.values[0])
        if ty != 'bool':
            raise Untranslatable('boolean operator on a %r' % ty)
        for v in e.values[1:]:
            (t2, ty2), pre = self.capture(lambda v=v: self.ex(ind + 2, v))
            if ty2 != 'bool':
                raise Untranslatable('boolean operator on a %r' % ty2)
            if not pre:
                text = '(%s %s %s)' % (text, '∧' if is_and else '∨', t2)
            else:
                t = self.tmp()
                if is_and:
                    self.emit(ind, 'let %s ← (if %s then do' % (t, text))
                    self.lines += pre
                    self.emit(ind + 2, 'pure (decide %s)' % t2)
                    self.emit(ind + 1, 'else pure false)')
                else:
                    self.emit(ind, 'let %s ← (if %s then pure true else do' % (t, text))
                    self.lines += pre
                    self.emit(ind + 2, 'pure (decide %s))' % t2)
                text = '(%s = true)' % t
        return text, 'bool'

    def attribute(self, ind, e):
        v = e.value
        if isinstance(v, ast.Name) and v.id == 'self' and 'self' in self.env:
            if e.attr == 'knots':
                return 'self_.knots', 'arr'
            if e.attr in ('order', 'periodic'):
                return 'self_.%s' % e.attr, 'int'
            raise Untranslatable('attribute self.%s' % e.attr)
        if isinstance(v, ast.Name) and v.id == 'np' and 'np' not in self.env:
            if e.attr == 'inf':
                return 'Ext.inf', 'ext'
            raise Untranslatable('np.%s' % e.attr)
        if isinstance(v, ast.Name) and v.id == 'state' and 'state' not in self.env:
            if e.attr == 'knot_tolerance':
                return 'tol', 'pyf'
            raise Untranslatable('state.%s' % e.attr)
        a, ta = self.ex(ind, v)
        if ta == 'self' and e.attr == 'knots':
            return '%s.knots' % a, 'arr'
        if ta == 'self' and e.attr in ('order', 'periodic'):
            return '%s.%s' % (a, e.attr), 'int'
        if ta in SEQS and e.attr == 'size':
            return '(len %s)' % a, 'int'
        if ta == 'slice' and e.attr in ('start', 'stop'):
            return '%s.%d' % (a, 1 if e.attr == 'start' else 2), 'int'
        raise Untranslatable('attribute .%s of a %r' % (e.attr, ta))

    def opt_int(self, ind, e):
        if e is None:
            return 'none'
        a, ta = self.ex(ind, e)
        if ta != 'int':
            raise Untranslatable('slice bound of type %r' % ta)
        return '(some %s)' % a

    def slice_parts(self, ind, s):
        """(lo, hi) texts of a slice node, or 'rev' for [::-1]."""
        if s.step is not None:
            if (s.lower is None and s.upper is None and isinstance(s.step, ast.UnaryOp) and isinstance(s.step.op, ast.USub)
                    and isinstance(s.step.operand, ast.Constant) and s.step.operand.value == 1):
                return 'rev'
            raise Untranslatable('slice with a step')
        lo = self.opt_int(ind, s.lower)
        hi = self.opt_int(ind, s.upper)
        return lo, hi

    def subscript(self, ind, e):
        a, ta = self.ex(ind, e.value)
        if ta == 'mat' and isinstance(e.slice, ast.Slice):
            sp = self.slice_parts(ind, e.slice)
            if sp == 'rev':
                raise Untranslatable('reversed matrix')
            return '(slice %s %s %s)' % (a, sp[0], sp[1]), 'mat'      # rows lo:hi
        if ta not in SEQS:
            raise Untranslatable('subscript of a %r' % ta)
        if isinstance(e.slice, ast.Slice):
            sp = self.slice_parts(ind, e.slice)
            if sp == 'rev':
                return '(reversed %s)' % a, ta
            return '(slice %s %s %s)' % (a, sp[0], sp[1]), ta
        i, ti = self.ex(ind, e.slice)
        if ti == 'slice':
            return '(slice %s (some %s.1) (some %s.2))' % (a, i, i), ta
        if ti != 'int':
            raise Untranslatable('index of type %r' % ti)
        return self.bindm(ind, 'getItem %s %s' % (a, i)), 'npf'

    def method_call(self, ind, key, recv, args, kws):
        """Call of a translated method on receiver text `recv`; returns (monadic call text, sig)."""
        sig = SIGS[key]
        params = sig['params']
        if len(args) > len(params) or any(k not in [p for p, _, _ in params] for k in kws):
            raise Untranslatable('call of %s with unexpected arguments' % key)
        texts = []
        for j, (p, ty, dflt) in enumerate(params):
            if j < len(args):
                node = args[j]
            elif p in kws:
                node = kws[p]
            elif dflt is not NODEFAULT:
                node = ast.Constant(dflt)
            else:
                raise Untranslatable('call of %s without argument %s' % (key, p))
            if ty == 'none':
                if not (isinstance(node, ast.Constant) and node.value is None):
                    raise Untranslatable('specialisation %s called with a value for %s' % (key, p))
                continue
            if ty == 'boolv':
                if not (isinstance(node, ast.Constant) and isinstance(node.value, bool)):
                    raise Untranslatable('non-literal bool argument')
                texts.append('true' if node.value else 'false')
                continue
            a, ta = self.ex(ind, node)
            if ty == 'int':
                if ta != 'int':
                    raise Untranslatable('argument %s of %s: %r where an int is expected' % (p, key, ta))
                texts.append(a)
            elif ty in FLOATS:
                texts.append(self.cast(a, ta))
            elif ty in SEQS:
                if ta not in SEQS:
                    raise Untranslatable('argument %s of %s: %r where a sequence is expected' % (p, key, ta))
                texts.append(a)
            else:
                raise Untranslatable('argument type %r' % ty)
        self.calls.add(key)
        if key in self.floor_users:
            self.uses_floor = True
        head = lean_name(key)
        if sig.get('ctor'):
            return '%s tol %s' % (head, ' '.join(texts)), sig
        return ('%s %s tol %s' % (head, recv, ' '.join(texts))).rstrip(), sig

    def call(self, ind, e):
        f = e.func
        kws = {k.arg: k.value for k in e.keywords}
        if isinstance(f, ast.Name) and f.id not in self.env:
            n = f.id
            if n not in GLOBALS:
                raise _NameErrorAt(n)
            if n == 'len' and len(e.args) == 1 and not kws:
                a, ta = self.ex(ind, e.args[0])
                if ta not in SEQS + ('listlist',):
                    raise Untranslatable('len of a %r' % ta)
                return '(len %s)' % a, 'int'
            if n == 'abs' and len(e.args) == 1 and not kws:
                a, ta = self.ex(ind, e.args[0])
                if ta in FLOATS or ta == 'int':
                    return '|%s|' % a, ta
                raise Untranslatable('abs of a %r' % ta)
            if n == 'float' and len(e.args) == 1 and not kws:
                a, ta = self.ex(ind, e.args[0])
                return self.cast(a, ta), 'pyf'
            if n in ('max', 'min') and len(e.args) == 2 and not kws:
                a, ta = self.ex(ind, e.args[0])
                b, tb = self.ex(ind, e.args[1])
                if ta == tb == 'int':
                    return '(%s %s %s)' % (n, a, b), 'int'
                if ta == 'ext' and tb == 'int' and n == 'max':
                    return '(Ext.maxInt %s %s)' % (a, b), 'ext'
                if (ta in FLOATS or ta == 'int') and (tb in FLOATS or tb == 'int'):
                    return '(%s %s %s)' % (n, self.cast(a, ta), self.cast(b, tb)), ('npf' if 'npf' in (ta, tb) else 'pyf')
                raise Untranslatable('%s of %r and %r' % (n, ta, tb))
            if n == 'list' and len(e.args) == 1 and not kws:
                a, ta = self.ex(ind, e.args[0])
                if ta not in SEQS:
                    raise Untranslatable('list() of a %r' % ta)
                return a, 'list'
            if n in ('bisect_left', 'bisect_right') and len(e.args) == 2 and not kws:
                a, ta = self.ex(ind, e.args[0])
                b, tb = self.ex(ind, e.args[1])
                if ta not in SEQS:
                    raise Untranslatable('%s on a %r' % (n, ta))
                return '(%s %s %s)' % (n, a, self.cast(b, tb)), 'int'
            if n == 'slice' and len(e.args) == 3 and not kws and isinstance(e.args[2], ast.Constant) and e.args[2].value is None:
                a, ta = self.ex(ind, e.args[0])
                b, tb = self.ex(ind, e.args[1])
                if ta != 'int' or tb != 'int':
                    raise Untranslatable('slice() bounds')
                return '((%s, %s) : Int × Int)' % (a, b), 'slice'
            if n == 'BSplineBasis':
                call, _ = self.method_call(ind, '__init__', None, e.args, kws)
                return self.bindm(ind, call), 'self'
            raise Untranslatable('call of %s' % n)
        if isinstance(f, ast.Attribute):
            v = f.value
            if (isinstance(v, ast.Attribute) and isinstance(v.value, ast.Name) and v.value.id == 'np' and 'np' not in self.env
                    and v.attr == 'maximum' and f.attr == 'accumulate' and len(e.args) == 1 and not kws):
                a, ta = self.ex(ind, e.args[0])
                if ta != 'arr':
                    raise Untranslatable('np.maximum.accumulate of a %r' % ta)
                return '(npMaxAccumulate %s)' % a, 'arr'
            if isinstance(v, ast.Name) and v.id == 'np' and 'np' not in self.env:
                if f.attr == 'array' and len(e.args) == 1 and not kws:
                    a, ta = self.ex(ind, e.args[0])
                    if ta in SEQS:
                        return a, 'arr'
                    if ta == 'row2d':
                        return a, 'row2d'
                    raise Untranslatable('np.array of a %r' % ta)
                if f.attr == 'sum' and len(e.args) == 1 and not kws:
                    a, ta = self.ex(ind, e.args[0])
                    if ta != 'arr':
                        raise Untranslatable('np.sum of a %r' % ta)
                    return '(npSum %s)' % a, 'npf'
                if f.attr == 'allclose' and len(e.args) == 2 and set(kws) == {'atol'}:
                    a, ta = self.ex(ind, e.args[0])
                    b, tb = self.ex(ind, e.args[1])
                    t, tt = self.ex(ind, kws['atol'])
                    if ta != 'arr' or tb != 'arr':
                        raise Untranslatable('np.allclose of %r and %r' % (ta, tb))
                    return '(%s = true)' % self.bindm(ind, 'npAllclose %s %s %s' % (a, b, self.cast(t, tt))), 'bool'
                if f.attr == 'zeros' and len(e.args) == 1 and not kws and isinstance(e.args[0], ast.Tuple) and len(e.args[0].elts) == 2:
                    r, tr = self.ex(ind, e.args[0].elts[0])
                    c, tc = self.ex(ind, e.args[0].elts[1])
                    if tr != 'int' or tc != 'int':
                        raise Untranslatable('np.zeros shape')
                    return self.bindm(ind, 'npZeros2 %s %s' % (r, c)), 'mat'
                if (f.attr == 'tile' and len(e.args) == 2 and not kws and isinstance(e.args[0], ast.Call)
                        and isinstance(e.args[0].func, ast.Attribute) and isinstance(e.args[0].func.value, ast.Name)
                        and e.args[0].func.value.id == 'np' and e.args[0].func.attr == 'identity'
                        and len(e.args[0].args) == 1 and not e.args[0].keywords
                        and isinstance(e.args[1], ast.Tuple) and len(e.args[1].elts) == 2
                        and isinstance(e.args[1].elts[1], ast.Constant) and e.args[1].elts[1].value == 1):
                    # np.tile(np.identity(n), (R, 1)): R copies of the n x n identity stacked vertically
                    n_, tn = self.ex(ind, e.args[0].args[0])
                    r_, tr = self.ex(ind, e.args[1].elts[0])
                    if tn != 'int' or tr != 'int':
                        raise Untranslatable('np.tile(np.identity(..), ..) arguments')
                    return self.bindm(ind, 'npTileIdentity %s %s' % (n_, r_)), 'mat'
                if f.attr == 'insert' and len(e.args) == 3 and not kws:
                    a, ta = self.ex(ind, e.args[0])
                    i, ti = self.ex(ind, e.args[1])
                    x, tx = self.ex(ind, e.args[2])
                    if ta != 'arr' or ti != 'int':
                        raise Untranslatable('np.insert arguments')
                    return self.bindm(ind, 'npInsert %s %s %s' % (a, i, self.cast(x, tx))), 'arr'
                if f.attr == 'hstack' and len(e.args) == 1 and not kws and isinstance(e.args[0], ast.Tuple):
                    parts = []
                    for x in e.args[0].elts:
                        a, ta = self.ex(ind, x)
                        if ta not in SEQS:
                            raise Untranslatable('np.hstack of a %r' % ta)
                        parts.append(a)
                    txt = parts[0]
                    for p in parts[1:]:
                        txt = '(listAdd %s %s)' % (txt, p)
                    return txt, 'arr'
                raise Untranslatable('np.%s(..)' % f.attr)
            if isinstance(v, ast.Name) and v.id == 'self' and 'self' in self.env:
                if f.attr == 'clone' and not e.args and not kws:
                    return 'self_', 'self'
                keys = [k for k in ORDER if py_name(k) == f.attr]
                if not keys:
                    raise Untranslatable('call of the untranslated method self.%s' % f.attr)
                # choose the specialisation by the arguments (`None`-specialised when the argument is omitted / None)
                key = keys[0]
                if len(keys) > 1:
                    argn = e.args[0] if e.args else (list(kws.values())[0] if kws else ast.Constant(None))
                    none = isinstance(argn, ast.Constant) and argn.value is None
                    key = [k for k in keys if (SIGS[k]['params'][0][1] == 'none') == none][0]
                sig = SIGS[key]
                if sig['mut'] is not None:
                    raise Untranslatable('mutating method self.%s used as a value' % f.attr)
                call, _ = self.method_call(ind, key, 'self_', e.args, kws)
                return self.bindm(ind, call), sig['ret']
            if (isinstance(v, ast.Name) and v.id in self.env and v.id != 'self' and self.env[v.id] == 'self'
                    and [k for k in ORDER if py_name(k) == f.attr]):
                keys = [k for k in ORDER if py_name(k) == f.attr]
                key = keys[0]
                sig = SIGS[key]
                if len(keys) != 1 or sig['mut'] != 'self' or sig['ret'] in (None, 'self'):
                    raise Untranslatable('call of .%s on a local BSplineBasis' % f.attr)
                recv = lname(v.id)
                call, _ = self.method_call(ind, key, recv, e.args, kws)
                if key == self.key:
                    # recursion: the definition gets a fuel parameter (Python's recursion limit)
                    self.recursive = True
                    call = call.replace(lean_name(key) + ' ', lean_name(key) + '_fuel fuel ', 1)
                    self.calls.discard(key)
                n = self.tmp()
                self.emit(ind, 'let (%s, %s) ← %s' % (recv, n, call))
                return n, sig['ret']
            a, ta = self.ex(ind, v)
            if f.attr == 'astype' and ta == 'arr' and len(e.args) == 1 and isinstance(e.args[0], ast.Name) and e.args[0].id == 'float':
                return a, 'arr'
            if f.attr == 'flatten' and not e.args and not kws:
                if ta == 'row2d':
                    return a, 'arr'
                if ta == 'arr':
                    return a, 'arr'
            if f.attr == 'evaluate' and ta == 'self' and len(e.args) == 1 and not kws:
                t, tt = self.ex(ind, e.args[0])
                self.uses_floor = True
                return '(evaluateRow %s tol %s)' % (a, self.cast(t, tt)), 'row2d'
            raise Untranslatable('call of .%s on a %r' % (f.attr, ta))
        raise Untranslatable('call %s' % ast.unparse(e)[:60])

    def listcomp(self, ind, e):
        gens = e.generators
        if any(g.ifs or g.is_async for g in gens):
            raise Untranslatable('comprehension with a filter')
        if len(gens) == 2:
            # [k for sub in xss for k in sub]
            g1, g2 = gens
            if (isinstance(g1.target, ast.Name) and isinstance(g2.target, ast.Name) and isinstance(g2.iter, ast.Name)
                    and g2.iter.id == g1.target.id and isinstance(e.elt, ast.Name) and e.elt.id == g2.target.id):
                a, ta = self.ex(ind, g1.iter)
                if ta != 'listlist':
                    raise Untranslatable('flattening comprehension over a %r' % ta)
                return '(flatten %s)' % a, 'list'
            raise Untranslatable('nested comprehension')
        g = gens[0]
        if not isinstance(g.target, ast.Name):
            raise Untranslatable('comprehension target')
        v = g.target.id
        saved = dict(self.env)
        it = g.iter
        if isinstance(it, ast.Call) and isinstance(it.func, ast.Name) and it.func.id == 'range' and 'range' not in self.env:
            lo, hi = self.range_bounds(ind, it)
            head = 'listCompRange %s %s (fun %s => do' % (lo, hi, lname(v))
            self.env[v] = 'int'
        else:
            a, ta = self.ex(ind, it)
            if ta not in SEQS:
                raise Untranslatable('comprehension over a %r' % ta)
            head = 'listComp %s (fun %s => do' % (a, lname(v))
            self.env[v] = 'npf'
        (t, ty), pre = self.capture(lambda: self.ex(ind + 2, e.elt))
        self.env = saved
        if ty in FLOATS or ty == 'int':
            t, rty = self.cast(t, ty), 'list'
        elif ty == 'list':
            rty = 'listlist'
        else:
            raise Untranslatable('comprehension element of type %r' % ty)
        r = self.tmp()
        self.emit(ind, 'let %s ← %s' % (r, head))
        self.lines += pre
        self.emit(ind + 2, 'pure %s)' % t)
        return r, rty

    def range_bounds(self, ind, it):
        if it.keywords or not (1 <= len(it.args) <= 2):
            raise Untranslatable('range() with %d arguments' % len(it.args))
        parts = []
        for x in it.args:
            a, ta = self.ex(ind, x)
            if ta != 'int':
                raise Untranslatable('range bound of type %r' % ta)
            parts.append(a)
        return ('(0 : Int)', parts[0]) if len(parts) == 1 else (parts[0], parts[1])

    # -------------------------------------------------------------------------------------- statements
    def assigned(self, stmts):
        """Python names (incl. 'self') assigned / mutated anywhere in the statements, in first-occurrence order."""
        out = []

        def add(n):
            if n not in out:
                out.append(n)

        def base(t):
            while isinstance(t, (ast.Subscript, ast.Attribute)):
                t = t.value
            return t.id if isinstance(t, ast.Name) else None

        def tgt(t):
            if isinstance(t, ast.Name):
                add(t.id)
            elif isinstance(t, (ast.Tuple, ast.List)):
                for x in t.elts:
                    tgt(x)
            else:
                b = base(t)
                if b:
                    add(b)
        for s in stmts:
            for n in ast.walk(s):
                if isinstance(n, ast.Assign):
                    for t in n.targets:
                        tgt(t)
                elif isinstance(n, ast.AugAssign):
                    tgt(n.target)
                elif isinstance(n, ast.For):
                    tgt(n.target)
                elif (isinstance(n, ast.Call) and isinstance(n.func, ast.Attribute) and isinstance(n.func.value, ast.Name)
                      and n.func.value.id != 'self' and self.env.get(n.func.value.id) == 'self'
                      and any(py_name(k) == n.func.attr and SIGS[k]['mut'] == 'self' for k in ORDER)):
                    add(n.func.value.id)
                elif isinstance(n, ast.Expr) and isinstance(n.value, ast.Call) and isinstance(n.value.func, ast.Attribute):
                    f = n.value.func
                    if f.attr in ('append', 'sort') and isinstance(f.value, ast.Name):
                        add(f.value.id)
                    elif isinstance(f.value, ast.Name) and f.value.id == 'self':
                        keys = [k for k in ORDER if py_name(k) == f.attr]
                        if keys and SIGS[keys[0]]['mut'] == 'self':
                            add('self')
        return out

    @staticmethod
    def definitely(stmts):
        """Names bound on every path through the statements that reaches their end (loop bodies may not run)."""
        out = set()
        for s in stmts:
            if isinstance(s, ast.Assign):
                for t in s.targets:
                    for x in ([t] if isinstance(t, ast.Name) else t.elts if isinstance(t, ast.Tuple) else []):
                        if isinstance(x, ast.Name):
                            out.add(x.id)
            elif isinstance(s, ast.If):
                a, b = Fn.definitely(s.body), Fn.definitely(s.orelse)
                if Fn.terminates(s.body):
                    out |= b
                elif Fn.terminates(s.orelse):
                    out |= a
                else:
                    out |= a & b
        return out

    @staticmethod
    def terminates(stmts):
        if not stmts:
            return False
        s = stmts[-1]
        if isinstance(s, (ast.Return, ast.Raise)):
            return True
        if isinstance(s, ast.If) and s.orelse:
            return Fn.terminates(s.body) and Fn.terminates(s.orelse)
        return False

    @staticmethod
    def has_return(stmts):
        return any(isinstance(n, ast.Return) for s in stmts for n in ast.walk(s))

    def var_text(self, v):
        return 'self_' if v == 'self' else lname(v)

    def tuple_text(self, vs):
        if not vs:
            return '()'
        return '(%s)' % ', '.join(self.var_text(v) for v in vs) if len(vs) > 1 else self.var_text(vs[0])

    def unpack(self, ind, st, vs):
        """Rebind the variables `vs` from the state tuple named `st`."""
        if len(vs) == 1:
            self.emit(ind, 'let %s := %s' % (self.var_text(vs[0]), st))
            return
        for j, v in enumerate(vs):
            proj = '.2' * j + ('.1' if j < len(vs) - 1 else '')
            self.emit(ind, 'let %s := %s%s' % (self.var_text(v), st, proj))

    def fall(self, ind, fallthrough):
        kind = fallthrough[0]
        if kind == 'join':
            self.emit(ind, 'pure %s' % self.tuple_text(fallthrough[1]))
        elif kind == 'end':
            self.ret(ind, None)
        else:
            raise AssertionError(kind)

    def ret(self, ind, value_node):
        sig = self.sig
        parts = []
        if sig['mut'] == 'self' and sig['ret'] != 'self':
            parts.append('self_')
        elif sig['mut'] not in (None, 'self'):
            parts.append(lname(sig['mut']))
        if value_node is None or (isinstance(value_node, ast.Constant) and value_node.value is None):
            if sig['ret'] is not None:
                raise Untranslatable('%s returns None, expected a %r' % (self.key, sig['ret']))
        else:
            if sig['ret'] is None:
                raise Untranslatable('%s returns a value, expected None' % self.key)
            v, tv = self.ex(ind, value_node)
            want = sig['ret']
            if want == 'ext' and tv == 'int':
                v = '(Ext.fin %s)' % v
            elif want in FLOATS and (tv in FLOATS or tv == 'int'):
                v = self.cast(v, tv)
            elif want in SEQS and tv in SEQS:
                pass
            elif want == 'boolr' and tv == 'bool':
                v = '(decide %s)' % v
            elif tv != want:
                raise Untranslatable('%s returns a %r, expected a %r' % (self.key, tv, want))
            parts.append(v)
        self.emit(ind, 'pure %s' % ('(%s)' % ', '.join(parts) if len(parts) != 1 else parts[0]) if parts else 'pure ()')

    def block(self, ind, stmts, fallthrough):
        """Translate a statement list.  `fallthrough`: ('join', vars) | ('end',).  Returns True when the
        block always ends in return / raise."""
        for k, s in enumerate(stmts):
            rest = stmts[k + 1:]
            try:
                done = self.stmt(ind, s, rest, fallthrough)
            except _NameErrorAt:
                # Python raises NameError when evaluation reaches the unbound name; the temporaries emitted
                # so far are the evaluations that precede it
                self.emit(ind, 'throw .name')
                return True
            if done:
                return True
        self.fall(ind, fallthrough)
        return False

    def bind_var(self, ind, name, text, ty, monadic=False):
        if name in GLOBALS or name.startswith('tmp') or name == 'self_' or name == 'st':
            raise Untranslatable('assignment to the reserved name %s' % name)
        self.emit(ind, 'let %s %s %s' % (lname(name), '←' if monadic else ':=', text))
        self.env[name] = ty

    def set_self_knots(self, ind, text):
        self.emit(ind, 'let self_ : Self K := { self_ with knots := %s }' % text)

    def assign_to(self, ind, t, v, tv):
        """Assign the already evaluated value (text v, type tv) to target node t."""
        if isinstance(t, ast.Name):
            return self.bind_var(ind, t.id, v, tv)
        if isinstance(t, ast.Attribute) and isinstance(t.value, ast.Name) and t.value.id == 'self' and 'self' in self.env:
            if t.attr == 'knots' and tv == 'arr':
                return self.set_self_knots(ind, v)
            if t.attr in ('order', 'periodic') and tv == 'int':
                return self.emit(ind, 'let self_ : Self K := { self_ with %s := %s }' % (t.attr, v))
            raise Untranslatable('assignment of a %r to self.%s' % (tv, t.attr))
        if isinstance(t, ast.Subscript):
            tgt = t.value
            is_self_knots = (isinstance(tgt, ast.Attribute) and isinstance(tgt.value, ast.Name) and tgt.value.id == 'self'
                             and tgt.attr == 'knots' and 'self' in self.env)
            if is_self_knots:
                cur, cty = 'self_.knots', 'arr'
            elif isinstance(tgt, ast.Name) and tgt.id in self.env:
                cur, cty = lname(tgt.id), self.env[tgt.id]
            else:
                raise Untranslatable('item assignment into %s' % ast.unparse(tgt))

            def store(newtext):
                if is_self_knots:
                    n = self.bindm(ind, newtext)
                    self.set_self_knots(ind, n)
                else:
                    self.emit(ind, 'let %s ← %s' % (cur, newtext))
            if cty == 'mat':
                if not (isinstance(t.slice, ast.Tuple) and len(t.slice.elts) == 2):
                    raise Untranslatable('matrix item assignment with a non-pair index')
                r, tr = self.ex(ind, t.slice.elts[0])
                c, tc = self.ex(ind, t.slice.elts[1])
                if tr != 'int' or tc != 'int':
                    raise Untranslatable('matrix index types')
                return store('setItem2 %s %s %s %s' % (cur, r, c, self.cast(v, tv)))
            if cty not in SEQS:
                raise Untranslatable('item assignment into a %r' % cty)
            if isinstance(t.slice, ast.Slice):
                if cty != 'arr' or tv != 'arr':
                    raise Untranslatable('slice assignment on a %r from a %r' % (cty, tv))
                sp = self.slice_parts(ind, t.slice)
                if sp == 'rev':
                    raise Untranslatable('assignment to [::-1]')
                return store('sliceAssign %s %s %s %s' % (cur, sp[0], sp[1], v))
            i, ti = self.ex(ind, t.slice)
            if ti != 'int':
                raise Untranslatable('index of type %r' % ti)
            return store('setItem %s %s %s' % (cur, i, self.cast(v, tv)))
        raise Untranslatable('assignment target %s' % ast.unparse(t))

    def stmt(self, ind, s, rest, fallthrough):
        if isinstance(s, ast.Expr) and isinstance(s.value, ast.Constant) and isinstance(s.value.value, str):
            return False
        if isinstance(s, ast.Pass):
            return False
        if isinstance(s, ast.Assign):
            if len(s.targets) != 1:
                raise Untranslatable('chained assignment')
            t = s.targets[0]
            if isinstance(t, ast.Tuple):
                if not (isinstance(s.value, ast.Tuple) and len(s.value.elts) == len(t.elts)):
                    raise Untranslatable('tuple assignment from a non-tuple')
                vals = []
                for x in s.value.elts:       # the whole right-hand side is evaluated first
                    v, tv = self.ex(ind, x)
                    n = self.tmp()
                    self.emit(ind, 'let %s := %s' % (n, v))
                    vals.append((n, tv))
                for tt, (v, tv) in zip(t.elts, vals):
                    self.assign_to(ind, tt, v, tv)
                return False
            # evaluation order of `target[index] = value`: value first, then target / index
            v, tv = self.ex(ind, s.value)
            if tv == 'row2d':
                raise Untranslatable('a 2-d evaluation matrix stored in a variable')
            self.assign_to(ind, t, v, tv)
            return False
        if isinstance(s, ast.AugAssign):
            t = s.target
            if isinstance(t, ast.Name) and t.id == 'self' and 'self' in self.env:
                key = INPLACE.get(type(s.op))
                if key is None:
                    raise Untranslatable('in-place operator on self')
                call, _ = self.method_call(ind, key, 'self_', [s.value], {})
                self.emit(ind, 'let self_ ← %s' % call)
                return False
            if isinstance(t, ast.Attribute) and isinstance(t.value, ast.Name) and t.value.id == 'self' and t.attr == 'knots':
                new = ast.BinOp(left=t, op=s.op, right=s.value)
                v, tv = self.ex(ind, new)
                if tv != 'arr':
                    raise Untranslatable('in-place update of self.knots gives a %r' % tv)
                self.set_self_knots(ind, v)
                return False
            if isinstance(t, ast.Subscript) and isinstance(t.value, ast.Name) and not isinstance(t.slice, ast.Slice):
                # x[i] op= v : target x, index i, then x[i], then v, then the store (index evaluated once)
                cur, cty = self.ex(ind, t.value)
                if cty not in SEQS:
                    raise Untranslatable('in-place item update of a %r' % cty)
                i, ti = self.ex(ind, t.slice)
                if ti != 'int':
                    raise Untranslatable('index of type %r' % ti)
                n = self.tmp()
                self.emit(ind, 'let %s := %s' % (n, i))
                old = self.bindm(ind, 'getItem %s %s' % (cur, n))
                v, tv = self.ex(ind, s.value)
                sym = {ast.Add: '+', ast.Sub: '-', ast.Mult: '*'}.get(type(s.op))
                if sym is None:
                    raise Untranslatable('in-place item operator')
                self.emit(ind, 'let %s ← setItem %s %s (%s %s %s)' % (cur, cur, n, old, sym, self.cast(v, tv)))
                return False
            if isinstance(t, ast.Name):
                new = ast.BinOp(left=ast.Name(id=t.id, ctx=ast.Load()), op=s.op, right=s.value)
                v, tv = self.ex(ind, new)
                self.bind_var(ind, t.id, v, tv)
                return False
            raise Untranslatable('augmented assignment to %s' % ast.unparse(t))
        if isinstance(s, ast.Expr) and isinstance(s.value, ast.Call) and isinstance(s.value.func, ast.Attribute):
            c = s.value
            f = c.func
            if (f.attr == 'accumulate' and isinstance(f.value, ast.Attribute) and f.value.attr == 'maximum'
                    and isinstance(f.value.value, ast.Name) and f.value.value.id == 'np' and 'np' not in self.env
                    and len(c.args) == 1 and [k.arg for k in c.keywords] == ['out']
                    and ast.dump(c.args[0]) == ast.dump(c.keywords[0].value)):
                # in-place running maximum: np.maximum.accumulate(x, out=x)
                v, tv = self.ex(ind, c.args[0])
                if tv != 'arr':
                    raise Untranslatable('np.maximum.accumulate(.., out=..) of a %r' % tv)
                store = c.args[0]
                store = ast.Attribute(value=store.value, attr=store.attr, ctx=ast.Store()) if isinstance(store, ast.Attribute) \
                    else ast.Name(id=store.id, ctx=ast.Store()) if isinstance(store, ast.Name) else None
                if store is None:
                    raise Untranslatable('np.maximum.accumulate(.., out=..) on %s' % ast.unparse(c.args[0]))
                self.assign_to(ind, store, '(npMaxAccumulate %s)' % v, 'arr')
                return False
            if isinstance(f.value, ast.Name) and f.value.id in self.env and f.value.id != 'self':
                x = f.value.id
                if f.attr == 'append' and len(c.args) == 1 and self.env[x] == 'list':
                    v, tv = self.ex(ind, c.args[0])
                    self.emit(ind, 'let %s := append %s %s' % (lname(x), lname(x), self.cast(v, tv)))
                    return False
                if f.attr == 'sort' and not c.args and not c.keywords and self.env[x] == 'list':
                    self.emit(ind, 'let %s := sorted %s' % (lname(x), lname(x)))
                    return False
            if isinstance(f.value, ast.Name) and f.value.id == 'self' and 'self' in self.env:
                keys = [k for k in ORDER if py_name(k) == f.attr]
                if keys and SIGS[keys[0]]['mut'] == 'self' and SIGS[keys[0]]['ret'] is None:
                    call, _ = self.method_call(ind, keys[0], 'self_', c.args, {k.arg: k.value for k in c.keywords})
                    self.emit(ind, 'let self_ ← %s' % call)
                    return False
            raise Untranslatable('expression statement %s' % ast.unparse(s)[:80])
        if isinstance(s, ast.Raise):
            if (s.cause is None and isinstance(s.exc, ast.Call) and isinstance(s.exc.func, ast.Name)
                    and s.exc.func.id in ERR and all(isinstance(a, ast.Constant) for a in s.exc.args)):
                self.emit(ind, 'throw %s' % ERR[s.exc.func.id])
                return True
            raise Untranslatable('raise of an unsupported form')
        if isinstance(s, ast.Return):
            if fallthrough[0] != 'end':
                raise Untranslatable('return inside a loop or a joined branch')
            self.ret(ind, s.value)
            return True
        if isinstance(s, ast.If):
            return self.if_stmt(ind, s, rest, fallthrough)
        if isinstance(s, ast.For):
            return self.for_stmt(ind, s)
        raise Untranslatable('statement %s' % ast.unparse(s)[:80])

    def if_stmt(self, ind, s, rest, fallthrough):
        st = self.static_test(s.test)
        if st is not None:
            # statically decided by the specialisation: only the taken branch exists
            taken = s.body if st else s.orelse
            for k, x in enumerate(taken):
                try:
                    if self.stmt(ind, x, taken[k + 1:] + rest, fallthrough):
                        return True
                except _NameErrorAt:
                    self.emit(ind, 'throw .name')
                    return True
            return False
        if self.has_return([s]):
            # continuation style: the rest of the block follows the branches that fall through
            if fallthrough[0] != 'end':
                raise Untranslatable('return inside a loop or a joined branch')
            nfall = (0 if self.terminates(s.body) else 1) + (0 if self.terminates(s.orelse) else 1)
            if nfall > 1 and rest:
                raise Untranslatable('an if with a return and two fall-through branches')
            c, tc = self.ex(ind, s.test)
            if tc != 'bool':
                raise Untranslatable('condition of type %r' % tc)
            saved = dict(self.env)
            self.emit(ind, 'if %s then do' % c)
            self.block(ind + 1, s.body + ([] if self.terminates(s.body) else rest), fallthrough)
            self.env = dict(saved)
            self.emit(ind, 'else do')
            self.block(ind + 1, s.orelse + ([] if self.terminates(s.orelse) else rest), fallthrough)
            self.env = saved
            return True
        c, tc = self.ex(ind, s.test)
        if tc != 'bool':
            raise Untranslatable('condition of type %r' % tc)
        branches = [s.body, s.orelse]
        live = [b for b in branches if not self.terminates(b)]
        names = self.assigned(s.body + s.orelse)
        carried = []
        for v in names:
            if v in self.env:
                carried.append(v)
            elif live and all(v in self.definitely(b) for b in live):
                carried.append(v)       # first bound in every branch that continues
        saved = dict(self.env)
        envs = []
        stv = 'st%d' % (self.ntmp + 1)
        self.ntmp += 1
        self.emit(ind, 'let %s ← (if %s then do' % (stv, c))
        self.block(ind + 2, s.body, ('join', carried))
        envs.append(dict(self.env) if not self.terminates(s.body) else None)
        self.env = dict(saved)
        self.emit(ind + 1, 'else do')
        self.block(ind + 2, s.orelse, ('join', carried))
        envs.append(dict(self.env) if not self.terminates(s.orelse) else None)
        self.lines[-1] += ')'
        self.env = saved
        envs = [e for e in envs if e is not None]
        if not envs:
            raise Untranslatable('an if without a return whose branches all raise')   # handled by terminates() upstream
        for v in carried:
            tys = {e.get(v) for e in envs}
            if len(tys) != 1 or None in tys:
                raise Untranslatable('variable %s has different types after the branches: %r' % (v, tys))
            self.env[v] = tys.pop()
        if carried:
            self.unpack(ind, stv, carried)
        return False

    def for_stmt(self, ind, s):
        if s.orelse:
            raise Untranslatable('for/else')
        if not isinstance(s.target, ast.Name):
            raise Untranslatable('loop target')
        for n in ast.walk(s):
            if isinstance(n, (ast.Break, ast.Continue, ast.Return)):
                raise Untranslatable('%s inside a loop' % type(n).__name__.lower())
        v = s.target.id
        names = [x for x in self.assigned(s.body) if x != v]
        for x in names:
            if x not in self.env:
                # a name first bound inside the body is local to one iteration here; it must not be used after
                pass
        carried = [x for x in names if x in self.env]
        it = s.iter
        if isinstance(it, ast.Call) and isinstance(it.func, ast.Name) and it.func.id == 'range' and 'range' not in self.env:
            lo, hi = self.range_bounds(ind, it)
            head = 'forRange %s %s' % (lo, hi)
            vty = 'int'
        else:
            a, ta = self.ex(ind, it)
            if ta not in SEQS:
                raise Untranslatable('iteration over a %r' % ta)
            head = 'forEach %s' % a
            vty = 'npf'
        saved = dict(self.env)
        stv = 'st%d' % (self.ntmp + 1)
        self.ntmp += 1
        self.emit(ind, 'let %s ← %s %s (fun %s %s => do' % (stv, head, self.tuple_text(carried), lname(v), stv))
        self.env[v] = vty
        if carried:
            self.unpack(ind + 2, stv, carried)
        self.block(ind + 2, s.body, ('join', carried))
        self.lines[-1] += ')'
        after = self.env
        self.env = saved
        for x in carried:
            if after.get(x) != saved[x]:
                raise Untranslatable('loop changes the type of %s' % x)
        self._loop_locals = getattr(self, '_loop_locals', set()) | {x for x in names if x not in saved} | {v}
        if carried:
            self.unpack(ind, stv, carried)
        return False

    # ------------------------------------------------------------------------------------------- whole
    def run(self):
        node, sig = self.node, self.sig
        a = node.args
        if a.vararg or a.kwarg or a.kwonlyargs or a.posonlyargs:
            raise Untranslatable('%s: parameter kinds' % node.name)
        got = [x.arg for x in a.args]
        want = ['self'] + [p for p, _, _ in sig['params']]
        if got != want:
            raise Untranslatable('%s: parameters %r, expected %r' % (node.name, got, want))
        defaults = [NODEFAULT] * (len(got) - len(a.defaults)) + list(a.defaults)
        for (p, ty, dflt), d in zip(sig['params'], defaults[1:]):
            if d is NODEFAULT:
                have = NODEFAULT
            elif isinstance(d, ast.Constant):
                have = d.value
            elif isinstance(d, ast.UnaryOp) and isinstance(d.op, ast.USub) and isinstance(d.operand, ast.Constant):
                have = -d.operand.value
            else:
                raise Untranslatable('%s: default of %s' % (node.name, p))
            if have is not dflt and have != dflt or (type(have) is not type(dflt)):
                raise Untranslatable('%s: default of %s is %r, expected %r' % (node.name, p, have, dflt))
        binders = []
        if not sig.get('ctor'):
            binders.append('(self_ : Self K)')
        self.env['self'] = 'self'
        binders.append('(tol : K)')
        for p, ty, _ in sig['params']:
            self.env[p] = ty
            if ty == 'none':
                continue
            binders.append('(%s : %s)' % (lname(p), LEAN_TYPE[ty]))
        if sig.get('ctor'):
            # a fresh instance: the class attributes are the initial values
            self.emit(1, 'let self_ : Self K := { knots := #[0, 0, 1, 1], order := 2, periodic := -1 }')
        if any(ty == 'boolv' for _, ty, _ in sig['params']):
            for p, ty, _ in sig['params']:
                if ty == 'boolv':
                    self.env[p] = 'bool'
                    self.boolparams = getattr(self, 'boolparams', set()) | {p}
        self.block(1, list(node.body), ('end',))
        body = '\n'.join(self.lines)
        for p in getattr(self, 'boolparams', ()):
            pass
        floor = ' [FloorRing K]' if self.uses_floor else ''
        if self.recursive:
            # a method that calls itself: structural recursion on a fuel counter; the public definition
            # starts with Python's default recursion limit (RecursionError is a RuntimeError)
            tys = [b.strip('()').split(' : ')[1] for b in binders]
            names = [b.strip('()').split(' : ')[0] for b in binders]
            head = ('def %s_fuel%s : ℕ → %s → PyM (%s)\n  | 0, %s => throw .runtime\n  | fuel + 1, %s => do' % (
                lean_name(self.key), floor, ' → '.join(tys), ret_lean_type(sig), ', '.join('_' for _ in names), ', '.join(names)))
            body = '\n'.join('  ' + ln for ln in self.lines)
            wrap = ('\n\n/-- `BSplineBasis.%s` with the interpreter\'s recursion limit. -/\ndef %s%s %s : PyM (%s) :=\n  %s_fuel 1000 %s' % (
                py_name(self.key), lean_name(self.key), floor, ' '.join(binders), ret_lean_type(sig), lean_name(self.key), ' '.join(names)))
            return head + '\n' + body + wrap
        head = 'def %s%s %s : PyM (%s) := do' % (lean_name(self.key), floor, ' '.join(binders), ret_lean_type(sig))
        return head + '\n' + body


HEADER = '''import Splipy.Lemmas.PyBasisLib

/-! GENERATED by harness/translate/basis_translate.py from the Python AST of `splipy/basis.py`
(class BSplineBasis).  Do not edit: the file is rewritten on every check;
`Splipy/Lemmas/PyBasisEq.lean` proves these definitions equal to the hand model. -/

set_option linter.unusedVariables false

namespace Splipy.Generated.PyBasis
open Splipy Splipy.PyB

variable {K : Type} [Field K] [LinearOrder K]

'''
FOOTER = '\nend Splipy.Generated.PyBasis\n'


def find_class(tree):
    for n in tree.body:
        if isinstance(n, ast.ClassDef) and n.name == 'BSplineBasis':
            return n
    raise Untranslatable('class BSplineBasis not found')


def check_class_attrs(cls):
    """The class-level defaults the constructor model starts from."""
    want = {'knots': [0, 0, 1, 1], 'order': 2, 'periodic': -1}
    got = {}
    for n in cls.body:
        if isinstance(n, ast.Assign) and len(n.targets) == 1 and isinstance(n.targets[0], ast.Name):
            try:
                got[n.targets[0].id] = ast.literal_eval(n.value)
            except Exception:  # noqa: BLE001
                got[n.targets[0].id] = ast.unparse(n.value)
    for k, v in want.items():
        if got.get(k) != v:
            raise Untranslatable('class attribute %s is %r, expected %r' % (k, got.get(k), v))
    # aliases of the in-place operators must still point at __itruediv__
    for k in ('__ifloordiv__', '__idiv__'):
        if got.get(k, '__itruediv__') != '__itruediv__':
            raise Untranslatable('alias %s = %r' % (k, got.get(k)))


def check_module_env(tree, cls):
    """The names the method bodies take from module level must be what the translation assumes: the stdlib
    `bisect` functions, numpy as `np`, the package's `state` module — and nothing else at module level may rebind
    them or patch the class afterwards."""
    if cls.bases or cls.keywords or cls.decorator_list:
        raise Untranslatable('class BSplineBasis has base classes / keywords / decorators')
    seen = {}
    for n in tree.body:
        if isinstance(n, ast.Expr) and isinstance(n.value, ast.Constant):
            continue
        if isinstance(n, ast.Import):
            for a in n.names:
                seen[a.asname or a.name.split('.')[0]] = ('import', a.name)
            continue
        if isinstance(n, ast.ImportFrom):
            for a in n.names:
                seen[a.asname or a.name] = ('from', '.' * n.level + (n.module or ''), a.name)
            continue
        if isinstance(n, ast.Assign) and len(n.targets) == 1 and isinstance(n.targets[0], ast.Name) \
                and n.targets[0].id == '__all__':
            continue
        if n is cls:
            continue
        raise Untranslatable('module-level statement other than imports / __all__ / class BSplineBasis: %s'
                             % ast.unparse(n)[:60])
    want = {'bisect_left': ('from', 'bisect', 'bisect_left'), 'bisect_right': ('from', 'bisect', 'bisect_right'),
            'np': ('import', 'numpy'), 'state': ('from', '.', 'state'), 'copy': ('import', 'copy')}
    for k, v in want.items():
        if seen.get(k) != v:
            raise Untranslatable('module-level name %s is bound by %r, expected %r' % (k, seen.get(k), v))
    for k in seen:
        if k in ('len', 'abs', 'float', 'int', 'max', 'min', 'range', 'list', 'slice', 'type', 'ValueError', 'TypeError',
                 'RuntimeError', 'NotImplemented', 'IndexError', 'BSplineBasis'):
            raise Untranslatable('module-level import rebinds the builtin / class name %s' % k)
    for n in cls.body:
        if isinstance(n, ast.FunctionDef) and n.decorator_list:
            raise Untranslatable('method %s is decorated' % n.name)
        if isinstance(n, (ast.AsyncFunctionDef, ast.ClassDef)):
            raise Untranslatable('nested class / async method %s' % n.name)
        if isinstance(n, (ast.Assign, ast.AnnAssign, ast.AugAssign)):
            tg = n.targets if isinstance(n, ast.Assign) else [n.target]
            for t in tg:
                if isinstance(t, ast.Name) and t.id in {py_name(k) for k in ORDER}:
                    raise Untranslatable('class-level assignment rebinds the method %s' % t.id)
    names = [n.name for n in cls.body if isinstance(n, ast.FunctionDef)]
    for k in {py_name(k) for k in ORDER}:
        if names.count(k) > 1:
            raise Untranslatable('method %s is defined twice' % k)


def translate(src, only=None, stub=()):
    """Returns {'lean': text, 'methods': {key: {'ok', 'detail', 'lean_name', 'lines': (first, last)}}, 'digest'}.
    `stub`: keys whose definition is to be left out (used after a generated definition failed to elaborate)."""
    tree = ast.parse(src)
    cls = find_class(tree)
    methods = {}
    class_err = None
    try:
        check_class_attrs(cls)
    except Untranslatable as e:
        class_err = str(e)
    env_err = None
    try:
        check_module_env(tree, cls)
    except Untranslatable as e:
        env_err = str(e)
    fns = {n.name: n for n in cls.body if isinstance(n, ast.FunctionDef)}
    parts = [HEADER]
    nlines = HEADER.count('\n')
    floor_users = set()
    failed = set()
    for key in (only or ORDER):
        info = {'lean_name': lean_name(key), 'ok': False, 'detail': '', 'lines': None, 'python': py_name(key)}
        methods[key] = info
        if key in stub:
            info['detail'] = 'generated definition left out (did not elaborate)'
            failed.add(key)
            continue
        node = fns.get(py_name(key))
        if node is None:
            info['detail'] = 'method %s not found in class BSplineBasis' % py_name(key)
            failed.add(key)
            continue
        if env_err:
            info['detail'] = env_err
            failed.add(key)
            continue
        if class_err and SIGS[key].get('ctor'):
            info['detail'] = class_err
            failed.add(key)
            continue
        try:
            fn = Fn(key, node, floor_users)
            text = fn.run()
            bad = sorted(fn.calls & failed)
            if bad:
                raise Untranslatable('calls %s, which could not be translated' % ', '.join(bad))
        except Untranslatable as e:
            info['detail'] = 'outside the translated subset: %s' % e
            failed.add(key)
            parts.append('-- UNTRANSLATABLE %s: %s\n\n' % (lean_name(key), str(e).replace('\n', ' ')))
            nlines += 2
            continue
        if fn.uses_floor:
            floor_users.add(key)
        doc = '/-- `BSplineBasis.%s` (%s). -/\n' % (py_name(key), 'line %d of basis.py' % node.lineno)
        chunk = doc + text + '\n\n'
        info.update(ok=True, detail='%d statements' % (sum(1 for n in ast.walk(node) if isinstance(n, ast.stmt)) - 1),
                    lines=(nlines + 1, nlines + chunk.count('\n')), floor=fn.uses_floor)
        parts.append(chunk)
        nlines += chunk.count('\n')
    parts.append(FOOTER)
    digest = hashlib.sha256('\n'.join(ast.dump(fns[n]) for n in sorted(fns)).encode()).hexdigest()[:16]
    return {'lean': ''.join(parts), 'methods': methods, 'digest': digest}


if __name__ == '__main__':
    import sys
    r = translate(open(sys.argv[1], encoding='utf-8').read())
    print(r['lean'])
    for k, v in r['methods'].items():
        print('--', k, v['ok'], v['detail'], file=sys.stderr)
