"""Source-derived obligations: `ast`-based translators from the current Python source to Lean."""
