"""Source-derived obligations for `splipy/basis.py::BSplineBasis` (work package t1).

`regenerate_pybasis(sp, lean_dir)` is meant to be called from the `regenerate` hook of every property
whose model rests on the hand-written `Basis.*` functions (C01 snap, C04 insert_knot, C05
raise_order / lower_order, C06 reverse / reparam, C08 make_periodic / roll, C10 constructor, C16
integrate, C20 continuity / knot_spans):

1. the method bodies of `BSplineBasis` are re-translated from the overlay source
   (`harness/translate/basis_translate.py`) into `lean/Splipy/Generated/PyBasis.lean`;
2. `lake build Splipy.Generated.PyBasis` — a generated definition that does not elaborate is a failed
   obligation of its method (the definition is then left out and the rest rebuilt);
3. `lake build Splipy.Lemmas.PyBasisEq` — the committed equality theorems
   `PyBasis_<method>_eq : Generated.PyBasis.<method> .. = <hand model> ..` are re-checked against the
   fresh definitions; an error inside the section `### method: m` of that file (or in a section it
   depends on) is a failed obligation of `m`;
4. `#print axioms` of every theorem must stay within {propext, Classical.choice, Quot.sound}.

One obligation per method: `ok` = translated AND elaborated AND its equality theorem checked.
Fail-closed: untranslatable syntax, a missing method, a changed default argument, a build that cannot
be interpreted — all give `ok = False`.  Results are cached by the hash of (generated text, lemma
files), so calling the helper from several property modules costs one build.
"""
import hashlib
import json
import os
import re
import subprocess
import sys
import time

sys.path.insert(0, os.path.dirname(os.path.dirname(os.path.abspath(__file__))))
from translate import basis_translate as T  # noqa: E402

GEN_REL = os.path.join('Splipy', 'Generated', 'PyBasis.lean')
EQ_REL = os.path.join('Splipy', 'Lemmas', 'PyBasisEq.lean')
LIB_REL = os.path.join('Splipy', 'Lemmas', 'PyBasisLib.lean')
GEN_MOD = 'Splipy.Generated.PyBasis'
EQ_MOD = 'Splipy.Lemmas.PyBasisEq'
ALLOWED_AXIOMS = {'propext', 'Classical.choice', 'Quot.sound'}

# method key (basis_translate.ORDER) -> (section of PyBasisEq.lean that covers it, theorem)
THEOREM = {
    '__init__': ('__init__', 'PyBasis_init_eq'),
    'num_functions': ('num_functions', 'PyBasis_num_functions_eq'),
    'start': ('start', 'PyBasis_start_eq'),
    'end': ('end', 'PyBasis_end_eq'),
    'greville': ('greville', 'PyBasis_greville_eq'),
    'snap': ('snap', 'PyBasis_snap_eq'),
    'continuity': ('continuity', 'PyBasis_continuity_eq'),
    'knot_spans': ('knot_spans', 'PyBasis_knot_spans_eq'),
    '__iadd__': ('reparam', 'PyBasis_reparam_eq'),
    '__isub__': ('reparam', 'PyBasis_reparam_eq'),
    '__imul__': ('reparam', 'PyBasis_reparam_eq'),
    '__itruediv__': ('reparam', 'PyBasis_reparam_eq'),
    'normalize': ('reparam', 'PyBasis_reparam_eq'),
    'reparam': ('reparam', 'PyBasis_reparam_eq'),
    'reverse': ('reverse', 'PyBasis_reverse_eq'),
    'roll': ('roll', 'PyBasis_roll_eq'),
    'make_periodic': ('make_periodic', 'PyBasis_make_periodic_eq'),
    'insert_knot': ('insert_knot', 'PyBasis_insert_knot_eq'),
    'raise_order': ('raise_order', 'PyBasis_raise_order_eq'),
    'lower_order': ('lower_order', 'PyBasis_lower_order_eq'),
    'integrate': ('integrate', 'PyBasis_integrate_eq'),
    'matches': ('matches', 'PyBasis_matches_eq_partial'),
}
# theorems that are weaker than extensional equality (say so in the obligation)
PARTIAL = {'matches': 'hand model compares exactly, the code with np.allclose: only `exact match => code match` and the '
                      'order/periodicity refusal are proved'}
# corollaries audited together with the main theorems
# (`PyBasis_insert_knot_eq_cover`: the cover branch — periodic, n < p+k, the recursive refinement of the R-fold cover —
# under the guards of the recursive calls, which `C04_source_insert_knot_small` (Lemmas/C04PyCover.lean, audited by the
# C04 check) discharges for every valid periodic basis)
EXTRA_BY_KEY = {'insert_knot': ('PyBasis_insert_knot_eq_sorted', 'PyBasis_insert_knot_eq_cover'),
                '__init__': ('PyBasis_init_eq_full',)}
EXTRA_THEOREMS = tuple(t for ts in EXTRA_BY_KEY.values() for t in ts)
# translated for completeness, no hand model to compare with: obligation = translates and elaborates
TRANSLATION_ONLY = ('init_default', 'greville_at')

_MEM = {}


def _cache_dir():
    verif = os.path.dirname(os.path.dirname(os.path.dirname(os.path.abspath(__file__))))
    d = os.path.join(verif, '.cache', 'pybasis')
    os.makedirs(d, exist_ok=True)
    return d


def _read(path):
    return open(path, encoding='utf-8').read() if os.path.exists(path) else ''


def _write_if_changed(path, text):
    if _read(path) == text and os.path.exists(path):
        return False
    os.makedirs(os.path.dirname(path), exist_ok=True)
    tmp = path + '.tmp%d' % os.getpid()
    with open(tmp, 'w', encoding='utf-8') as f:
        f.write(text)
    os.replace(tmp, path)
    return True


def _lake_build(lean_dir, target, timeout=3000):
    t0 = time.time()
    try:
        r = subprocess.run(['lake', 'build', target], cwd=lean_dir, stdout=subprocess.PIPE, stderr=subprocess.STDOUT,
                           text=True, timeout=timeout)
        return r.returncode == 0, r.stdout, time.time() - t0
    except subprocess.TimeoutExpired as e:
        return False, 'timeout after %ds: %s' % (timeout, (e.stdout or '')[-500:]), time.time() - t0


def _errors(log, rel):
    """[(line, message)] of the Lean errors reported for the file `rel` in a lake log."""
    out = []
    pat = re.compile(r'^error: (?:\./)?(\S+?\.lean):(\d+):(\d+): (.*)$')
    lines = log.splitlines()
    for k, ln in enumerate(lines):
        m = pat.match(ln)
        if m and os.path.normpath(m.group(1)).endswith(os.path.normpath(rel)):
            msg = ' '.join([m.group(4)] + [x.strip() for x in lines[k + 1:k + 3]])
            out.append((int(m.group(2)), msg[:300]))
    return out


def _sections(eq_text):
    """[(first line, last line, method key or None)] of PyBasisEq.lean and the theorem dependencies."""
    lines = eq_text.splitlines()
    marks = []
    for k, ln in enumerate(lines, 1):
        m = re.match(r'/-! ### method: (\S+) -/', ln)
        if m:
            marks.append((k, m.group(1)))
        elif re.match(r'/-! ## ', ln):
            marks.append((k, None))
    secs = []
    for j, (k, name) in enumerate(marks):
        end = marks[j + 1][0] - 1 if j + 1 < len(marks) else len(lines)
        secs.append((k, end, name))
    if marks and marks[0][0] > 1:
        secs.insert(0, (1, marks[0][0] - 1, None))
    return secs


def _section_deps(eq_text, secs):
    """method section -> set of method sections whose theorems / lemmas it uses (by name)."""
    lines = eq_text.splitlines()
    declared = {}      # declared theorem/def name -> section
    for a, b, name in secs:
        if name is None:
            continue
        for ln in lines[a - 1:b]:
            m = re.match(r'\s*(?:theorem|lemma|def)\s+(?:_root_\.)?([A-Za-z_][\w\.\'?]*)', ln)
            if m:
                declared[m.group(1)] = name
    deps = {}
    for a, b, name in secs:
        if name is None:
            continue
        text = '\n'.join(lines[a - 1:b])
        used = set()
        for ident, sec in declared.items():
            if sec != name and re.search(r'(?<![\w\.])%s(?![\w\'?])' % re.escape(ident), text):
                used.add(sec)
        deps[name] = used
    # transitive closure
    changed = True
    while changed:
        changed = False
        for k in deps:
            for d in list(deps[k]):
                new = deps.get(d, set()) - deps[k] - {k}
                if new:
                    deps[k] |= new
                    changed = True
    return deps


def _print_axioms(lean_dir, names):
    from vlib import leanproof
    # leanproof.print_axioms runs in its own LEAN_DIR (== lean_dir unless a private copy is used)
    src = 'import %s\n' % EQ_MOD + ''.join('#print axioms %s\n' % n for n in names)
    import tempfile
    from vlib.model import _lean_env
    with tempfile.NamedTemporaryFile('w', suffix='.lean', delete=False, dir=tempfile.gettempdir()) as f:
        f.write(src)
        path = f.name
    try:
        r = subprocess.run(['lean', path], cwd=lean_dir, env=_lean_env(), stdout=subprocess.PIPE,
                           stderr=subprocess.STDOUT, text=True, timeout=1200)
    finally:
        os.unlink(path)
    out = r.stdout
    res = {n: None for n in names}
    for m in re.finditer(r"'([^']+)' depends on axioms: \[([^\]]*)\]", out, flags=re.S):
        res[m.group(1)] = sorted(a.strip() for a in m.group(2).replace('\n', ' ').split(',') if a.strip())
    for m in re.finditer(r"'([^']+)' does not depend on any axioms", out):
        res[m.group(1)] = []
    _ = leanproof
    return res


def _run(src, lean_dir):
    gen_path = os.path.join(lean_dir, GEN_REL)
    eq_text = _read(os.path.join(lean_dir, EQ_REL))
    lib_text = _read(os.path.join(lean_dir, LIB_REL))
    notes = []
    # 1 + 2: translate; leave out definitions that do not elaborate
    stub = set()
    elab_fail = {}
    for _attempt in range(6):
        r = T.translate(src, stub=tuple(stub))
        _write_if_changed(gen_path, r['lean'])
        ok, log, secs = _lake_build(lean_dir, GEN_MOD)
        notes.append('build %s: %s in %.1fs' % (GEN_MOD, 'ok' if ok else 'FAILED', secs))
        if ok:
            break
        errs = _errors(log, GEN_REL)
        hit = set()
        for ln, msg in errs:
            for key, info in r['methods'].items():
                if info['lines'] and info['lines'][0] <= ln <= info['lines'][1]:
                    hit.add(key)
                    elab_fail.setdefault(key, 'generated definition does not elaborate: ' + msg)
        if not hit:
            # cannot attribute the failure: everything fails
            tail = ' '.join(log.split())[-400:]
            return r, {k: 'generated module does not build: ' + tail for k in r['methods']}, {}, notes, None
        stub |= hit
    else:
        return r, {k: 'generated module does not build after leaving out %s' % sorted(stub) for k in r['methods']}, {}, notes, None
    failed = {}
    for key, info in r['methods'].items():
        if key in elab_fail:
            failed[key] = elab_fail[key]
        elif not info['ok']:
            failed[key] = info['detail']
    # 3: the equality theorems against the fresh definitions
    secs_ = _sections(eq_text)
    deps = _section_deps(eq_text, secs_)
    have_sections = {name for _, _, name in secs_ if name}
    ok, log, secs = _lake_build(lean_dir, EQ_MOD)
    notes.append('build %s: %s in %.1fs' % (EQ_MOD, 'ok' if ok else 'FAILED', secs))
    sec_failed = {}
    axioms = {}
    if not ok:
        errs = _errors(log, EQ_REL)
        if not errs:
            tail = ' '.join(log.split())[-400:]
            sec_failed = {name: 'equality module does not build: ' + tail for name in have_sections}
        for ln, msg in errs:
            where = [name for a, b, name in secs_ if a <= ln <= b]
            name = where[0] if where else None
            if name is None:
                for s in have_sections:
                    sec_failed.setdefault(s, 'a helper lemma of PyBasisEq.lean fails (line %d): %s' % (ln, msg))
            else:
                sec_failed.setdefault(name, 'PyBasisEq.lean:%d: %s' % (ln, msg))
        for name in list(have_sections):
            bad = sorted(d for d in deps.get(name, ()) if d in sec_failed and 'depends on' not in sec_failed[d])
            if name not in sec_failed and bad:
                sec_failed[name] = 'depends on the failed obligation(s) %s' % ', '.join(bad)
    else:
        names = sorted({thm for _, thm in THEOREM.values()} | set(EXTRA_THEOREMS))
        axioms = _print_axioms(lean_dir, names)
    for key, (sec, thm) in THEOREM.items():
        if key in failed:
            continue
        if sec not in have_sections:
            failed[key] = 'no section `### method: %s` in %s' % (sec, EQ_REL)
        elif sec in sec_failed:
            failed[key] = sec_failed[sec]
        elif ok:
            ax = axioms.get(thm)
            if ax is None:
                failed[key] = 'theorem %s not found in the built module' % thm
            elif not set(ax) <= ALLOWED_AXIOMS:
                failed[key] = 'theorem %s uses axioms %s' % (thm, ','.join(sorted(set(ax) - ALLOWED_AXIOMS)))
            elif key in ('insert_knot', '__init__'):
                for ex in EXTRA_BY_KEY[key]:
                    axx = axioms.get(ex)
                    if axx is None or not set(axx) <= ALLOWED_AXIOMS:
                        failed[key] = 'corollary %s did not check or uses other axioms (%r)' % (ex, axx)
    # a method whose callee failed is not established either
    _ = lib_text
    return r, failed, axioms, notes, ok


def regenerate_pybasis(sp, lean_dir):
    """Returns the list of obligations (dicts with 'name', 'ok', 'detail', 'class', 'theorem', 'axioms')."""
    path = os.path.join(os.path.dirname(os.path.abspath(sp.__file__)), 'basis.py')
    src = _read(path)
    lean_dir = os.path.abspath(lean_dir)
    h = hashlib.sha256()
    for part in (src, _read(os.path.join(lean_dir, EQ_REL)), _read(os.path.join(lean_dir, LIB_REL)),
                 _read(T.__file__), _read(os.path.abspath(__file__)), lean_dir):
        h.update(part.encode())
        h.update(b'\0')
    for rel in ('Splipy/Model/Basis.lean', 'Splipy/Model/BasisOps.lean', 'Splipy/Model/Order.lean', 'Splipy/Model/Measure.lean'):
        h.update(_read(os.path.join(lean_dir, rel)).encode())
    key = h.hexdigest()[:24]
    gen_path = os.path.join(lean_dir, GEN_REL)
    if key in _MEM and os.path.exists(gen_path):
        return _MEM[key]
    cpath = os.path.join(_cache_dir(), key + '.json')
    # the verdict is a function of the hashed inputs; VERIF_PYBASIS_NOCACHE=1 forces translation + builds anyway
    if os.path.exists(cpath) and os.path.exists(gen_path) and not os.environ.get('VERIF_PYBASIS_NOCACHE'):
        try:
            c = json.load(open(cpath))
            if c.get('generated_sha') == hashlib.sha256(_read(gen_path).encode()).hexdigest():
                _MEM[key] = c['obligations']
                return c['obligations']
        except Exception:  # noqa: BLE001
            pass
    if not src:
        obl = [{'name': 'PyBasis_' + k, 'ok': False, 'class': None, 'detail': 'splipy/basis.py not found in the overlay',
                'theorem': THEOREM.get(k, (None, None))[1], 'axioms': None} for k in T.ORDER]
        return obl
    try:
        r, failed, axioms, notes, built = _run(src, lean_dir)
    except SyntaxError as e:
        return [{'name': 'PyBasis_' + k, 'ok': False, 'class': None, 'detail': 'basis.py does not parse: %s' % e,
                 'theorem': THEOREM.get(k, (None, None))[1], 'axioms': None} for k in T.ORDER]
    except T.Untranslatable as e:
        return [{'name': 'PyBasis_' + k, 'ok': False, 'class': None, 'detail': 'not translatable: %s' % e,
                 'theorem': THEOREM.get(k, (None, None))[1], 'axioms': None} for k in T.ORDER]
    obl = []
    for k in T.ORDER:
        thm = THEOREM.get(k, (None, None))[1]
        good = k not in failed
        if good and k in TRANSLATION_ONLY:
            detail = 'translated and elaborated (no hand model: no equality theorem)'
        elif good:
            detail = 'translated (%s); %s checked against the fresh definition' % (r['methods'][k]['detail'], thm)
            if k in PARTIAL:
                detail += ' [PARTIAL: %s]' % PARTIAL[k]
        else:
            detail = failed[k]
        obl.append({'name': 'PyBasis_' + k, 'ok': bool(good), 'class': None, 'detail': detail[:600], 'theorem': thm,
                    'axioms': axioms.get(thm) if thm else None, 'python': 'BSplineBasis.' + T.py_name(k),
                    'kind': ('translation-only' if k in TRANSLATION_ONLY else 'partial' if k in PARTIAL else 'equality')})
    _MEM[key] = obl
    try:
        with open(cpath, 'w') as f:
            json.dump({'obligations': obl, 'notes': notes, 'digest': r['digest'],
                       'generated_sha': hashlib.sha256(_read(gen_path).encode()).hexdigest()}, f, indent=1)
    except Exception:  # noqa: BLE001
        pass
    return obl


def obligations_for(sp, lean_dir, methods):
    """The obligations of the named methods (keys of basis_translate.ORDER, e.g. 'insert_knot') together with
    everything they call; convenience for a property's `regenerate` hook."""
    allo = regenerate_pybasis(sp, lean_dir)
    want = {'PyBasis_' + m for m in methods}
    return [o for o in allo if o['name'] in want]


# ---------------------------------------------------------------------------------------------------
# sensitivity self-test: small source mutations must break the obligation of the mutated method
# (and of what depends on it); comment / whitespace / docstring changes must break nothing.
# (old text, new text, obligations that must fail)

MUTS = {
 'ctor_lt_le':        ("if p < 1:", "if p <= 1:", ['__init__']),
 'ctor_spacings':     ("for i in range(p + k - 1):", "for i in range(p + k):", ['__init__']),
 'ctor_nondecr_sign': ("if knots[i + 1] - knots[i] < -state.knot_tolerance:", "if knots[i + 1] - knots[i] < state.knot_tolerance:", ['__init__']),
 'ctor_short_periodic': ("            if n < p + k + 1:\n", "            if n < p + k:\n", ['__init__']),
 'continuity_end_tol':  ("elif knot < self.start() - state.knot_tolerance or self.end() + state.knot_tolerance < knot:",
                         "elif knot < self.start() - state.knot_tolerance or self.end() < knot:", ['continuity']),
 'ctor_no_cummax':      ("        self.knots = np.maximum.accumulate(self.knots)\n", "", ['__init__']),
 'roll_no_cummax':      ("        np.maximum.accumulate(self.knots, out=self.knots)\n", "", ['roll']),
 'continuity_bisect': ("hi = bisect_left(self.knots, knot + state.knot_tolerance)", "hi = bisect_right(self.knots, knot + state.knot_tolerance)", ['continuity']),
 'insert_drop_ghost': ("            if mu <= p+r: # need to fix ghost knots on right side", "            if False and mu <= p+r: # need to fix ghost knots on right side", ['insert_knot']),
 'insert_coef':       ("C[i % (n + 1), i % n] = (new_knot - self.knots[i]) / (", "C[i % (n + 1), i % n] = (new_knot - self.knots[i+1]) / (", ['insert_knot']),
 'insert_guard_le':   ("if self.knots[i] <= new_knot and new_knot <= self.knots[i + 1]:", "if self.knots[i] < new_knot and new_knot <= self.knots[i + 1]:", ['insert_knot']),
 'start_index':       ("return self.knots[self.order - 1]", "return self.knots[self.order]", ['start']),
 'numfun':            ("return len(self.knots) - self.order - (self.periodic + 1)", "return len(self.knots) - self.order - self.periodic", ['num_functions']),
 'greville_div':      ("result.append(float(np.sum(self.knots[i + 1:i + p])) / (p - 1))", "result.append(float(np.sum(self.knots[i + 1:i + p])) / p)", ['greville']),
 'snap_tol':          ("if i < n and abs(self.knots[i]-t[j]) < state.knot_tolerance:", "if i < n and abs(self.knots[i]-t[j]) <= state.knot_tolerance:", ['snap']),
 'spans_slice':       ("for k in self.knots[p-1:-p+1]:", "for k in self.knots[p-1:-p]:", ['knot_spans']),
 'reverse_formula':   ("self.knots = (self.knots[::-1] - a) / (b - a) * (a - b) + b", "self.knots = (self.knots[::-1] - a) / (b - a) * (a - b) + a", ['reverse']),
 'reparam_check':     ("if end <= start:", "if end < start:", ['reparam']),
 'roll_t1':           ("t1 = self.knots[0] - self.knots[-p - k - 1]", "t1 = self.knots[0] - self.knots[-p - k]", ['roll']),
 'mkper_nreps':       ("n_reps = deg - continuity - 1", "n_reps = deg - continuity", ['make_periodic']),
 'raise_sort':        ("        knots.sort()\n", "", ['raise_order']),
 'lower_max':         ("knots = [ [k] * max(p-1-self.continuity(k), 1) for k in self.knot_spans(True)]", "knots = [ [k] * max(p-self.continuity(k), 1) for k in self.knot_spans(True)]", ['lower_order']),
 'integrate_scale':   ("N  = [(knot[i+p]-knot[i])*1.0/p * np.sum(N1[i:]-N0[i:]) for i in range(N0.size)]", "N  = [(knot[i+p]-knot[i])*1.0/(p+1) * np.sum(N1[i:]-N0[i:]) for i in range(N0.size)]", ['integrate']),
 'integrate_collapse':("M[j % n] += N[j]  # sum all wrapped images", "M[j % n] = N[j]  # sum all wrapped images", ['integrate']),
 'matches_periodic':  ("if self.order != bspline.order or self.periodic != bspline.periodic:", "if self.order != bspline.order:", ['matches']),
 'insert_bisect':     ("mu = bisect_right(self.knots, new_knot)", "mu = bisect_left(self.knots, new_knot)", ['insert_knot']),
 'insert_range':      ("for i in range(mu, n + 1):", "for i in range(mu, n):", ['insert_knot']),
 'end_index':         ("return self.knots[-self.order]", "return self.knots[-self.order - 1]", ['end']),
 'default_arg':       ("def reparam(self, start=0, end=1):", "def reparam(self, start=0, end=2):", ['reparam']),
 'unknown_syntax':    ("        p = self.order\n        n = self.num_functions()\n        if index is None:", "        p = self.order\n        n = self.num_functions()\n        while False: pass\n        if index is None:", ['greville']),
 'comment_only':      ("        # mu is the index of last non-zero (old) basis function", "        # mu is the index of the last non-zero (old) basis function   ", []),
 'whitespace_only':   ("        deg = self.order - 1\n", "        deg  =  self.order - 1\n\n", []),
 'docstring_only':    ('"""Reverse parametric domain, keeping start/end values unchanged."""', '"""Reverse the parametric domain."""', []),
}


def selftest(sp, lean_dir, names=None):
    """Runs every mutation of MUTS on the overlay's basis.py *text* against a private copy of the lake
    project (the shared one is not touched).  Returns {name: {'expected', 'failed', 'as_expected'}}."""
    import shutil
    import tempfile
    src = _read(os.path.join(os.path.dirname(os.path.abspath(sp.__file__)), 'basis.py'))
    tmp = tempfile.mkdtemp(prefix='pybasis-selftest-')
    priv = os.path.join(tmp, 'lean')
    res = {}
    try:
        shutil.copytree(lean_dir, priv, symlinks=True)
        for nm, (old, new, expect) in MUTS.items():
            if names and nm not in names:
                continue
            if src.count(old) < 1:
                res[nm] = {'expected': expect, 'failed': None, 'as_expected': False, 'note': 'pattern not found in basis.py'}
                continue
            r, failed, _ax, _notes, _ok = _run(src.replace(old, new, 1), priv)
            bad = [k for k in T.ORDER if k in failed]
            good = (set(expect) <= set(bad)) if expect else (bad == [])
            res[nm] = {'expected': expect, 'failed': bad, 'as_expected': good}
            print('%-20s %s failed=%s' % (nm, 'as expected' if good else 'UNEXPECTED', bad), flush=True)
    finally:
        shutil.rmtree(tmp, ignore_errors=True)
    return res


if __name__ == '__main__':
    from vlib import impl, model
    sp_, _info = impl.load()
    if '--selftest' in sys.argv:
        out = selftest(sp_, model.LEAN_DIR, [a for a in sys.argv[1:] if not a.startswith('--')])
        sys.exit(0 if all(v['as_expected'] for v in out.values()) else 1)
    for o in regenerate_pybasis(sp_, model.LEAN_DIR):
        print('%-28s %-5s %s' % (o['name'], 'ok' if o['ok'] else 'FAIL', o['detail'][:150]))
