"""C20 — tolerances are honoured and global settings never leak.

Correspondence (model vs rebuilt implementation), tolerances swept over 1e-4 .. 1e-13, set on the
implementation side through `with splipy.state.state(...)`:
  snap (python and cython versions), basis evaluation at fuzzed parameters (op `basis_eval` of C01 with
  the tolerance as argument), `_validate_domain`, `continuity`, `knot_spans`, `VertexDict` histories,
  nests of `state()` blocks (the Lean semantics of the program TRANSLATED from the current state.py is
  run on the same nest), a settings snapshot around a sample of public API calls incl. file reading.
Source-derived obligations: `regenerate` rewrites lean/Splipy/Generated/C20.lean at every run,
`extra_obligations` builds Splipy.Generated.C20Obligations and reports each theorem.
Oracle: the property stated directly against the real code (no model): evaluation at a parameter
within the tolerance of a knot equals evaluation at the knot and equals the Cox–de Boor definition
there, fuzz just outside a non-periodic end does not raise, continuity classification, vertex
merging/distinctness, every `with state()` restores on every exit, API calls leave the settings alone.
"""
from fractions import Fraction as F
import contextlib
import importlib
import os
import tempfile

import numpy as np

from vlib import gen, exact
from vlib import impl as implmod
from vlib import leanproof
from vlib.compare import diff, Err, exc_kind
from vlib.val import line, Word
from translate import state_translate

ID = 'C20'
PYBASIS_METHODS = ['continuity', 'knot_spans', 'snap']   # basis.py methods re-translated and proved equal to the hand model each run
RTOL = 1e-9
ATOL = 1e-11
RULE = ('tolerances 1e-4..1e-13 (each basis/cloud gets one, all ten are used); bases: orders 1..5 open / non-open / periodic, '
        'interior multiplicities 1..p; parameters at 0 and +-{1/4,1/2,3/4,3/2,2}*tol around EVERY knot (ghost knots included) '
        'plus the float Greville points; vertex clouds with per-coordinate offsets of the same fractions of atol, rtol in '
        '{0,1e-5,1e-3}, set/get/del/setdefault/contains histories; state() nests of depth <= 3 with a raise inserted at every '
        'position; object-level evaluate at tuples of fuzzed knots (op obj_eval of C02, pardim 1..3, also outside non-periodic ends); '
        'Orientation.compute on nets perturbed by {0,1/2,3/4,3/2,2}*(atol+rtol|x|) in one coordinate; settings snapshot around ~100 public API calls incl. every G2/SVG/SPL test file and a synthetic '
        'bounded-surface G2 record.  distinct = distinct protocol lines; non-trivial = the tolerance decides the result '
        '(parameter/point within 2*tol of a knot/stored key), a nest that raises or assigns, a call that ran.')
REQUIRED_TAGS = ['snap:within', 'snap:beyond', 'eval:within', 'eval:outside-end-within', 'validate:outside-end-within',
                 'validate:outside-end-beyond', 'continuity:within', 'continuity:beyond', 'continuity:outside-end-within',
                 'continuity:outside-end-beyond', 'periodic', 'open',
                 'vd:rtol=0', 'vd:rtol>0', 'vd:merge', 'vd:distinct', 'nest:raise-in-with', 'nest:depth>=2',
                 'monitor:g2-read', 'greville', 'tol=1e-04', 'tol=1e-13', 'obj:within-outside-end', 'obj:pardim=2',
                 'orient:close', 'orient:far']
ASSUMPTIONS = ['knot vectors used for the tolerance sweep have distinct knots separated by more than 4*tol (hypothesis of C20_snap / C20_continuity)',
               'the boundary case |t - knot| == tol exactly is excluded (as the property allows); the fractions used keep a margin of tol/4',
               'VertexDict: CPython set iteration order is not modelled; histories whose state-changing operations match two stored live keys are not generated']
TRUSTED_EXTRA = ['harness/translate/state_translate.py (Python ast -> Stmt, fails closed); the semantics Splipy.StateLang.run of the statement language']

TOLS = [10.0 ** -k for k in range(4, 14)]
FRACS = [0.25, 0.5, 0.75, 1.5, 2.0]
NAMES = ['controlpoint_relative_tolerance', 'controlpoint_absolute_tolerance', 'parametric_relative_tolerance',
         'parametric_absolute_tolerance', 'knot_tolerance', 'unlimited']
EXACT_KINDS = ('snap', 'validate', 'continuity', 'knot_spans', 'state_nest', 'monitor')

K_STATE = 'state-not-restored-on-exception'
K_G2 = 'g2-bounded-surface-writes-state'
K_SM = 'splinemodel-vertex-tolerance-not-from-state'

_GEN = {'info': None}       # filled by regenerate(): the translated program of the current source


# ---------------------------------------------------------------------------------------------
# settings helpers (the harness never relies on splipy's own restore)

def _names(sp):
    return list(getattr(sp.state, 'states', NAMES))


def _snapshot(sp):
    return {k: getattr(sp.state, k) for k in _names(sp)}


def _restore(sp, snap):
    for k, v in snap.items():
        setattr(sp.state, k, v)


@contextlib.contextmanager
def _guard(sp):
    snap = _snapshot(sp)
    try:
        yield snap
    finally:
        _restore(sp, snap)


@contextlib.contextmanager
def _tol(sp, **kw):
    """Apply settings through the library's own context manager, guarded by an explicit restore."""
    with _guard(sp):
        with sp.state.state(**kw):
            yield


def _mod(sp, name):
    return importlib.import_module(sp.__name__ + '.' + name)


# ---------------------------------------------------------------------------------------------
# translator hooks

def regenerate(sp, lean_dir):
    pkg = os.path.dirname(os.path.abspath(sp.__file__))
    info = state_translate.regenerate(pkg, lean_dir)
    _GEN['info'] = info
    _GEN['defaults'] = [getattr(sp.state, n) for n in NAMES]
    out = {k: info[k] for k in ('prog', 'state_names', 'module_settings', 'write_sites', 'files_scanned', 'digest', 'notes')}
    out['settings_monitor_all_properties'] = _collect_settings_monitor()
    from props import _pyx
    out['obligations'] = list(out.get('obligations', [])) + _pyx.regenerate_pyx(sp, lean_dir)
    return out


def _collect_settings_monitor():
    """Supporting evidence only: harness/check.py snapshots splipy.state around every run_impl call of
    every property and records it in that property's evidence file (which may be stale)."""
    import glob
    import json
    evdir = os.environ.get('VERIF_EVIDENCE_DIR') or os.path.join(os.path.dirname(os.path.dirname(os.path.dirname(os.path.abspath(__file__)))), 'evidence')
    res = {'calls_monitored': 0, 'leaks': [], 'per_property': {}}
    for f in sorted(glob.glob(os.path.join(evdir, 'C*.json'))):
        try:
            ev = json.load(open(f))
            m = ev.get('coverage', {}).get('settings_monitor')
        except Exception:  # noqa: BLE001
            continue
        if not m:
            continue
        pid = ev.get('property_id', os.path.basename(f)[:-5])
        res['per_property'][pid] = {'calls_monitored': m.get('calls_monitored', 0), 'leaks': len(m.get('leaks', []))}
        res['calls_monitored'] += m.get('calls_monitored', 0)
        res['leaks'] += [{'property': pid, 'leak': x} for x in m.get('leaks', [])[:3]]
    return res


OBL_MODULE = 'Splipy.Generated.C20Obligations'
OBL_FILE = os.path.join('Splipy', 'Generated', 'C20Obligations.lean')


def extra_obligations(sp, lean_dir):
    """Build the source-derived obligations module (`lake build Splipy.Generated.C20Obligations`);
    one result per theorem in it: {'name', 'ok', 'class', 'detail', 'axioms'}."""
    info = _GEN['info'] or regenerate(sp, lean_dir)
    names = leanproof.theorems_in(OBL_FILE)
    if not names:
        return [{'name': 'C20Obligations', 'ok': False, 'class': None, 'detail': 'no theorems found in ' + OBL_FILE, 'axioms': None}]
    ok, log, secs = leanproof.lake_build([OBL_MODULE])
    failed = {}
    axioms = {}
    if ok:
        axioms = leanproof.print_axioms(OBL_MODULE, names)
    else:
        # the module as a whole does not build: check every theorem on its own, so that each
        # obligation gets its own verdict (and the ones that still hold, their axiom list)
        per = _check_each(lean_dir, names)
        if per is None:
            failed = {nm: 'module does not build: ' + log[-400:] for nm in names}
        else:
            for nm in names:
                good, ax, msg = per.get(nm, (False, None, 'theorem not found'))
                if good:
                    axioms[nm] = ax
                else:
                    failed[nm] = msg
    offending = [w for w in info['write_sites'] if w[0] != state_translate.STATE_FILE]
    out = []
    for nm in names:
        good = nm not in failed
        detail = failed.get(nm, '')
        cls = None
        if nm == 'C20_state_restores':
            cls = K_STATE
            detail = (detail + ' | translated program: %r' % (info['prog'],))[:700]
        elif nm == 'C20_no_other_writes':
            if offending and all(w[0] == 'io/g2.py' and w[2] == 'parametric_absolute_tolerance' for w in offending):
                cls = K_G2
            detail = (detail + ' | write sites outside state.py: %r' % (offending,))[:700]
        if good:
            ax = axioms.get(nm)
            if ax is None:
                good, detail = False, 'theorem did not check'
            elif not set(ax) <= leanproof.ALLOWED_AXIOMS:
                good, detail = False, 'axioms: ' + ','.join(ax)
        out.append({'name': nm, 'ok': bool(good), 'class': cls, 'detail': detail, 'axioms': axioms.get(nm)})
    return out


def _check_each(lean_dir, names):
    """Elaborate each theorem of the obligations file separately (header + that theorem +
    `#print axioms`).  Returns {name: (ok, axioms, message)} or None if the imports do not build."""
    import re
    import subprocess
    import concurrent.futures as cf
    from vlib.model import _lean_env
    src = open(os.path.join(lean_dir, OBL_FILE), encoding='utf-8').read()
    code = leanproof.strip_comments(src)
    m0 = re.search(r'^theorem\s', code, flags=re.M)
    if not m0:
        return None
    header = code[:m0.start()]
    imports = re.findall(r'^import\s+(\S+)', header, flags=re.M)
    okb, _, _ = leanproof.lake_build(imports)
    if not okb:
        return None
    by_name = {}
    for ch in re.split(r'^(?=theorem\s)', code[m0.start():], flags=re.M):
        mm = re.match(r"theorem\s+([A-Za-z_][\w\.']*)", ch)
        if mm:
            by_name[mm.group(1)] = ch

    def one(nm):
        txt = header + by_name[nm] + '\n#print axioms %s\n' % nm
        with tempfile.NamedTemporaryFile('w', suffix='.lean', delete=False, dir=tempfile.gettempdir()) as f:
            f.write(txt)
            path = f.name
        try:
            r = subprocess.run(['lean', path], cwd=lean_dir, env=_lean_env(), stdout=subprocess.PIPE,
                               stderr=subprocess.STDOUT, text=True, timeout=600)
        finally:
            os.unlink(path)
        out = r.stdout
        ax = None
        m = re.search(r"'%s' depends on axioms: \[([^\]]*)\]" % re.escape(nm), out, flags=re.S)
        if m:
            ax = sorted(a.strip() for a in m.group(1).replace('\n', ' ').split(',') if a.strip())
        elif re.search(r"'%s' does not depend on any axioms" % re.escape(nm), out):
            ax = []
        good = r.returncode == 0 and 'error' not in out and ax is not None
        msg = ' '.join(out.replace(path, '<obligation>').split())[:400]
        return nm, (good, ax, msg)

    with cf.ThreadPoolExecutor(max_workers=4) as ex:
        return dict(ex.map(one, [n for n in names if n in by_name]))


# ---------------------------------------------------------------------------------------------
# generators

def _fuzz_points(b, tol):
    """(t, knot, fraction) for every distinct knot of the basis."""
    out = []
    for x in gen.distinct_knots(b):
        out.append((x, x, 0.0))
        for f in FRACS:
            for sgn in (1.0, -1.0):
                out.append((x + sgn * f * tol, x, sgn * f))
    return out


def _greville(b):
    p = b['order']
    kn = np.array(b['knots'], dtype=float)
    n = gen.basis_info(b)['n']
    if p < 2:
        return []
    return [float(np.sum(kn[i + 1:i + p])) / (p - 1) for i in range(n)]


def _basis_for_sweep(rng, i):
    p = rng.randint(1, 5)
    r = rng.random()
    if p >= 2 and (i % 3 == 1):
        b = gen.periodic_basis(rng, p, rng.randint(0, p - 2), n_interior=rng.choice([0, 1, 2, 3]))
    elif r < 0.25 and p >= 2:
        b = gen.open_basis(rng, p, clamped=False)
    else:
        b = gen.open_basis(rng, p)
    return b


def _gen_basis_cases(rng, tier):
    specs = []
    nb = 40 if tier == 'quick' else 200
    for bi in range(nb):
        b = _basis_for_sweep(rng, bi)
        tol = TOLS[bi % len(TOLS)]
        info = gen.basis_info(b)
        p = info['p']
        pts = _fuzz_points(b, tol)
        ts = [t for t, _, _ in pts]
        grev = _greville(b)
        for variant in ('py', 'cy'):
            specs.append({'kind': 'snap', 'variant': variant, 'basis': b, 'tol': tol, 'ts': ts + grev})
        for ghost in (False, True):
            specs.append({'kind': 'knot_spans', 'basis': b, 'tol': tol, 'ghost': ghost})
        if tier == 'quick' and len(pts) > 66:
            keep = set(rng.sample(range(len(pts)), 66))
            pts = [q for i, q in enumerate(pts) if i in keep]
        for t, x, f in pts:
            specs.append({'kind': 'continuity', 'basis': b, 'tol': tol, 't': t, 'knot': x, 'frac': f})
            specs.append({'kind': 'validate', 'basis': b, 'tol': tol, 'ts': [t], 'knot': x, 'frac': f})
            d = rng.randint(0, min(p, 2))
            right = rng.random() < 0.5
            specs.append({'kind': 'eval', 'basis': b, 'tol': tol, 't': t, 'd': 0, 'right': True, 'knot': x, 'frac': f})
            specs.append({'kind': 'eval', 'basis': b, 'tol': tol, 't': t, 'd': d, 'right': right, 'knot': x, 'frac': f})
        # several parameters at once: the snapped array is what the evaluation sees
        some = rng.sample(ts, min(4, len(ts)))
        specs.append({'kind': 'validate', 'basis': b, 'tol': tol, 'ts': some, 'knot': None, 'frac': None})
        for g in grev:
            specs.append({'kind': 'eval', 'basis': b, 'tol': tol, 't': g, 'd': 0, 'right': True, 'knot': None, 'frac': None, 'greville': True})
            specs.append({'kind': 'eval', 'basis': b, 'tol': tol, 't': g, 'd': min(1, p), 'right': False, 'knot': None, 'frac': None, 'greville': True})
    return specs


# -- VertexDict ---------------------------------------------------------------------------------

def _vd_bounds(k, rtol, atol):
    if k >= atol:
        return (k - atol) / (1 + rtol), (k + atol) / (1 - rtol)
    if k <= -atol:
        return (k - atol) / (1 - rtol), (k + atol) / (1 + rtol)
    return (k - atol) / (1 - rtol), (k + atol) / (1 - rtol)


def _vd_matches(rows, key, rtol, atol):
    """Indices of live stored rows inside the window of `key` (the rule of `_bounds`, exact), and
    the smallest distance of any stored coordinate from a window end in units of atol."""
    bnds = [_vd_bounds(F(x), rtol, atol) for x in key]
    res = []
    margin = None
    for i, (k, alive) in enumerate(rows):
        inside = True
        for c, (lo, hi) in enumerate(bnds):
            v = F(k[c])
            m = min(abs(v - lo), abs(v - hi)) / atol
            margin = m if margin is None else min(margin, m)
            if not (lo <= v < hi):
                inside = False
        if inside and alive:
            res.append(i)
    return res, margin


def _gen_vertexdict(rng, tier):
    specs = []
    nh = 100 if tier == 'quick' else 800
    for hi_ in range(nh):
        atol = TOLS[hi_ % len(TOLS)]
        rtol = 0.0 if hi_ % 3 != 2 else rng.choice([1e-5, 1e-3, 1e-2])
        dim = rng.choice([1, 2, 2, 3])
        ncl = rng.randint(1, 4)
        centres = []
        while len(centres) < ncl:
            c = [gen.dyadic(rng, -4, 4, 1) for _ in range(dim)]
            if all(max(abs(a - b) for a, b in zip(c, o)) >= 0.5 for o in centres):
                centres.append(c)
        fr_atol, fr_rtol = F(atol), F(rtol)
        rows = []     # (key, alive)
        ops = []
        nops = rng.randint(8, 22 if tier == 'quick' else 40)
        val = 0
        for _ in range(nops):
            c = rng.choice(centres)
            # offsets in units of the tolerance at that coordinate (atol + rtol*|x|), both signs of x occur
            key = [x + rng.choice([0.0, 0.0] + [s * f for f in FRACS for s in (1.0, -1.0)]) * (atol + rtol * abs(x)) for x in c]
            op = rng.choice(['set', 'set', 'get', 'get', 'get', 'setdefault', 'contains', 'del', 'len'])
            m, margin = _vd_matches(rows, key, fr_rtol, fr_atol)
            if margin is not None and margin < F(1, 20):
                continue          # too close to a window end: rounding of `_bounds` would decide
            if op in ('set', 'setdefault', 'del') and len(m) > 1:
                op = 'get'        # ambiguous state change: CPython set order would decide
            val += 1
            ops.append([op, key, val])
            if op in ('set', 'setdefault') and not m:
                rows.append((key, True))
            elif op == 'del' and m:
                rows[m[0]] = (rows[m[0]][0], False)
        ops.append(['len', [0.0] * dim, 0])
        specs.append({'kind': 'vertexdict', 'rtol': rtol, 'atol': atol, 'dim': dim, 'ops': ops})
    # SplineModel: vertex merging under configured control-point tolerances
    for i in range(10 if tier == 'quick' else 60):
        tol = TOLS[i % len(TOLS)]
        f = [0.5, 2.0][(i // len(TOLS)) % 2] if tier != 'quick' else [0.5, 2.0][i % 2]
        base = rng.choice([0.0, 1.0, -2.0])
        specs.append({'kind': 'model_vertices', 'tol': tol, 'frac': f, 'base': base})
    # the same with a relative tolerance and patches at negative coordinates
    for i in range(10 if tier == 'quick' else 60):
        tol = TOLS[i % len(TOLS)]
        specs.append({'kind': 'model_vertices', 'tol': tol, 'rtol': rng.choice([1e-5, 1e-3]), 'frac': [0.5, 2.0][i % 2],
                      'base': rng.choice([-37.5, -2.0, 5.0, -0.5])})
    return specs


# -- state() nests --------------------------------------------------------------------------------

def _rand_block(rng, depth):
    items = []
    for _ in range(rng.randint(1, 3)):
        r = rng.random()
        if r < 0.45 and depth > 0:
            kw = [[k, gen.dyadic(rng, 0, 8, 3) + 0.015625] for k in rng.sample(NAMES, rng.choice([0, 1, 1, 2, 3]))]
            items.append(['with', kw, _rand_block(rng, depth - 1)])
        elif r < 0.7:
            items.append(['assign', rng.choice(NAMES), gen.dyadic(rng, 8, 16, 3)])
        else:
            items.append(['noop'])
    return ['seq'] + items


def _positions(block, path=()):
    """All insertion positions (path to a seq, index) in a block."""
    out = []
    if block[0] == 'seq':
        for i in range(1, len(block) + 1):
            out.append((path, i))
        for i, it in enumerate(block[1:], 1):
            out.extend(_positions(it, path + (i,)))
    elif block[0] == 'with':
        out.extend(_positions(block[2], path + (2,)))
    return out


def _insert_raise(block, path, idx):
    import copy
    b = copy.deepcopy(block)
    cur = b
    for p in path:
        cur = cur[p]
    cur.insert(idx, ['raise'])
    return b


def _gen_nests(rng, tier):
    specs = []
    init = [[k, float(i + 1) / 64.0] for i, k in enumerate(NAMES)]
    nt = 16 if tier == 'quick' else 60
    # the two minimal shapes first
    fixed = [['seq', ['with', [['knot_tolerance', 0.5]], ['seq', ['noop']]]],
             ['seq', ['with', [['knot_tolerance', 0.5]], ['seq', ['with', [['unlimited', 3.0]], ['seq', ['noop']]]]]]]
    trees = fixed + [['seq', ['with', [[rng.choice(NAMES), 0.25]], _rand_block(rng, rng.randint(0, 2))]] for _ in range(nt)]
    for tr in trees:
        specs.append({'kind': 'state_nest', 'init': init, 'block': tr})
        pos = _positions(tr)
        if tier == 'quick' and len(pos) > 8:
            pos = rng.sample(pos, 8)
        for path, idx in pos:
            specs.append({'kind': 'state_nest', 'init': init, 'block': _insert_raise(tr, path, idx)})
    return specs


# -- API monitor ----------------------------------------------------------------------------------

_G2_BOUNDED = """210 1 0 0
200
3 0
2 2
0 0 1 1
2 2
0 0 1 1
0 0 0
1 0 0
0 1 0
1 1 0
1
4 %s
0 100 100
2 0
2 2
0 0 1 1
0 0
1 0
3 0
2 2
0 0 1 1
0 0 0
1 0 0
0 100 100
2 0
2 2
0 0 1 1
1 0
1 1
3 0
2 2
0 0 1 1
1 0 0
1 1 0
0 100 100
2 0
2 2
0 0 1 1
1 1
0 1
3 0
2 2
0 0 1 1
1 1 0
0 1 0
0 100 100
2 0
2 2
0 0 1 1
0 1
0 0
3 0
2 2
0 0 1 1
0 1 0
0 0 0
"""


def _geom_dir():
    return os.path.join(implmod.REPO, 'test', 'io', 'geometries')


def _geom_files():
    d = _geom_dir()
    return sorted(os.listdir(d)) if os.path.isdir(d) else []


def _api_calls():
    """name -> callable(sp, tmpdir).  Exceptions are irrelevant here: only the settings matter."""
    C = {}

    def cf(sp):
        return _mod(sp, 'curve_factory')

    def sf(sp):
        return _mod(sp, 'surface_factory')

    def vf(sp):
        return _mod(sp, 'volume_factory')

    def basis(sp, per=-1):
        if per >= 0:
            return sp.BSplineBasis(3, [-1, 0, 0, 1, 2, 3, 4, 4, 5], 0)
        return sp.BSplineBasis(3, [0, 0, 0, 1, 2, 2, 3, 3, 3])

    C['basis.evaluate'] = lambda sp, tmp: basis(sp).evaluate([0, 0.5, 1, 1 + 1e-11, 3], 1, False)
    C['basis.evaluate_old'] = lambda sp, tmp: basis(sp).evaluate_old([0, 0.5, 3])
    C['basis.greville'] = lambda sp, tmp: basis(sp).greville()
    C['basis.continuity'] = lambda sp, tmp: [basis(sp).continuity(t) for t in (0, 1, 1.5, 2)]
    C['basis.continuity-raises'] = lambda sp, tmp: basis(sp).continuity(7)
    C['basis.knot_spans'] = lambda sp, tmp: (basis(sp).knot_spans(), basis(sp, 0).knot_spans(True))
    C['basis.insert_knot'] = lambda sp, tmp: basis(sp).insert_knot(1.5)
    C['basis.raise_order'] = lambda sp, tmp: basis(sp).raise_order(2)
    C['basis.lower_order'] = lambda sp, tmp: basis(sp).lower_order(1)
    C['basis.normalize-reparam-reverse'] = lambda sp, tmp: (lambda b: (b.normalize(), b.reparam(1, 4), b.reverse()))(basis(sp))
    C['basis.make_periodic'] = lambda sp, tmp: basis(sp).make_periodic(0)
    C['basis.roll'] = lambda sp, tmp: basis(sp, 0).roll(1)
    C['basis.roll-raises'] = lambda sp, tmp: basis(sp).roll(1)
    C['basis.matches'] = lambda sp, tmp: basis(sp).matches(basis(sp), reverse=True)
    C['basis.integrate'] = lambda sp, tmp: basis(sp).integrate(0, 3)
    C['basis.snap'] = lambda sp, tmp: basis(sp).snap(np.array([1 + 1e-12, 2.5]))
    C['basis.bad-constructor'] = lambda sp, tmp: sp.BSplineBasis(3, [0, 1, 0, 2, 3, 4])
    C['basis.periodic-constructor'] = lambda sp, tmp: basis(sp, 0)

    C['cf.line-polygon-ngon'] = lambda sp, tmp: (cf(sp).line([0, 0], [1, 1]), cf(sp).polygon([0, 0], [1, 0], [1, 1]), cf(sp).n_gon(5))
    C['cf.circle-ellipse'] = lambda sp, tmp: (cf(sp).circle(2, (1, 0, 0), (0, 0, 1)), cf(sp).ellipse(1, 2))
    C['cf.circle_segment'] = lambda sp, tmp: cf(sp).circle_segment(1.0, 2.0)
    C['cf.circle_segment_from_three_points'] = lambda sp, tmp: cf(sp).circle_segment_from_three_points([0, 0], [1, 1], [2, 0])
    C['cf.interpolate'] = lambda sp, tmp: cf(sp).interpolate(np.array([[0, 0], [1, 2], [2, 1], [3, 3.0]]), basis(sp).make_periodic(-1) if False else sp.BSplineBasis(3, [0, 0, 0, 1, 2, 2, 2]))
    for _b in (1, 2, 4, 5):
        C['cf.cubic_curve-boundary=%d' % _b] = (lambda bb: lambda sp, tmp: cf(sp).cubic_curve(np.array([[0, 0], [1, 2], [2, 1], [3, 3.0], [0, 0]]), bb))(_b)
    C['cf.least_square_fit'] = lambda sp, tmp: cf(sp).least_square_fit(np.array([[0, 0], [1, 2], [2, 1], [3, 3.0], [4, 0]]), sp.BSplineBasis(3, [0, 0, 0, 1, 1, 1]), [0, .25, .5, .75, 1])
    C['cf.bezier'] = lambda sp, tmp: cf(sp).bezier([[0, 0], [1, 1], [2, 0], [3, 1]], quadratic=False)
    C['cf.fit'] = lambda sp, tmp: cf(sp).fit(lambda t: np.array([np.cos(t), np.sin(t)]).T, 0, 1, rtol=1e-3, atol=1e-3)
    C['cf.fit_points'] = lambda sp, tmp: cf(sp).fit_points(np.array([[np.cos(t), np.sin(t)] for t in np.linspace(0, 1, 20)]), rtol=1e-2, atol=1e-2)
    C['cf.manipulate'] = lambda sp, tmp: cf(sp).manipulate(cf(sp).line([0, 0], [1, 1]), lambda x: x)

    def crv(sp):
        c = cf(sp).circle(2.0)
        return c

    def crv2(sp):
        return cf(sp).cubic_curve(np.array([[0, 0, 0], [1, 2, 1], [2, 1, 0], [3, 3.0, 2], [4, 0, 1]]))

    C['curve.evaluate-derivative'] = lambda sp, tmp: (crv(sp).evaluate([0, 1, 2 * np.pi]), crv(sp).derivative([0, 1], 1), crv2(sp).derivative(0.5, 2, above=False))
    C['curve.evaluate-raises'] = lambda sp, tmp: crv2(sp).evaluate(99.0)
    C['curve.tangent-curvature-torsion'] = lambda sp, tmp: (crv2(sp).tangent(0.5), crv2(sp).binormal(0.5), crv2(sp).normal(0.5), crv2(sp).curvature(0.5), crv2(sp).torsion(0.5))
    C['curve.length'] = lambda sp, tmp: (crv(sp).length(), crv2(sp).length(0.1, 0.3))
    C['curve.insert-raise-lower-refine'] = lambda sp, tmp: (lambda c: (c.insert_knot(0.3), c.raise_order(1), c.refine(1), c.lower_order(1)))(crv2(sp))
    C['curve.split-append'] = lambda sp, tmp: (lambda c: (lambda a: a[0].append(a[1]))(c.split(c.start(0) + 0.5 * (c.end(0) - c.start(0)))))(crv2(sp))
    C['curve.split-periodic'] = lambda sp, tmp: crv(sp).split([1.0, 2.0])
    C['curve.rebuild-reverse'] = lambda sp, tmp: (crv2(sp).rebuild(4, 7), crv2(sp).reverse())
    C['curve.make_periodic'] = lambda sp, tmp: crv2(sp).make_periodic(0)
    C['curve.transforms'] = lambda sp, tmp: (lambda c: (c.translate((1, 0, 0)), c.scale(2), c.rotate(0.3, (0, 0, 1)), c.mirror((1, 0, 0)), c.project('xy'), c.bounding_box(), c.center()))(crv2(sp))
    C['curve.dimension-rational'] = lambda sp, tmp: (lambda c: (c.set_dimension(3), c.force_rational(), c.swap() if hasattr(c, 'swap') else None))(cf(sp).line([0, 0], [1, 1]))
    C['curve.error'] = lambda sp, tmp: crv2(sp).error(crv2(sp))
    C['curve.arithmetic'] = lambda sp, tmp: (crv2(sp) + (1, 1, 1), crv2(sp) * 2, -crv2(sp) if hasattr(crv2(sp), '__neg__') else None)
    C['curve.continuity-knots'] = lambda sp, tmp: (crv(sp).continuity(1.0), crv(sp).knots(0, True), crv2(sp).knots())
    C['curve.get_derivative_spline'] = lambda sp, tmp: crv2(sp).get_derivative_spline()

    C['sf.square-disc'] = lambda sp, tmp: (sf(sp).square(), sf(sp).disc(1, type='radial'), sf(sp).disc(1, type='square'))
    C['sf.sphere-cylinder-torus'] = lambda sp, tmp: (sf(sp).sphere(), sf(sp).cylinder(), sf(sp).torus())
    C['sf.revolve-extrude'] = lambda sp, tmp: (sf(sp).revolve(cf(sp).line([1, 0, 0], [2, 0, 1])), sf(sp).extrude(cf(sp).line([1, 0, 0], [2, 0, 1]), (0, 1, 0)))
    C['sf.edge_curves'] = lambda sp, tmp: sf(sp).edge_curves(cf(sp).line([0, 0], [1, 0]), cf(sp).line([1, 0], [1, 1]), cf(sp).line([1, 1], [0, 1]), cf(sp).line([0, 1], [0, 0]))
    C['sf.edge_curves-poisson'] = lambda sp, tmp: sf(sp).edge_curves(cf(sp).line([0, 0], [1, 0]), cf(sp).line([1, 0], [1, 1]), cf(sp).line([1, 1], [0, 1]), cf(sp).line([0, 1], [0, 0]), type='poisson')
    C['sf.edge_curves-not-closed'] = lambda sp, tmp: sf(sp).edge_curves(cf(sp).line([0, 0], [1, 0]), cf(sp).line([1, 0.5], [1, 1]), cf(sp).line([1, 1], [0, 1]), cf(sp).line([0, 1], [0, 0]))
    C['sf.loft-thicken-sweep'] = lambda sp, tmp: (sf(sp).loft(cf(sp).line([0, 0, 0], [1, 0, 0]), cf(sp).line([0, 1, 0], [1, 1, 1]), cf(sp).line([0, 2, 0], [1, 2, 0])),
                                                 sf(sp).thicken(cf(sp).line([0, 0], [1, 0]), 0.1), sf(sp).sweep(cf(sp).line([0, 0, 0], [0, 0, 1]), cf(sp).circle(0.1)))
    C['sf.interpolate-lsq'] = lambda sp, tmp: (lambda b: (sf(sp).interpolate(np.random.RandomState(1).rand(3, 3, 3), [b, b]), sf(sp).least_square_fit(np.random.RandomState(1).rand(4, 4, 3), [b, b], [[0, .3, .6, 1]] * 2)))(sp.BSplineBasis(3, [0, 0, 0, 1, 1, 1]))
    C['sf.teapot'] = lambda sp, tmp: sf(sp).teapot()
    C['sf.finitestrain_patch'] = lambda sp, tmp: sf(sp).finitestrain_patch(cf(sp).line([0, 0], [1, 0]), cf(sp).line([1, 0], [1, 1]), cf(sp).line([1, 1], [0, 1]), cf(sp).line([0, 1], [0, 0]))

    def srf(sp):
        s = sf(sp).disc(2.0, type='square')
        return s

    C['surface.evaluate-derivative'] = lambda sp, tmp: (srf(sp).evaluate([0, 0.5, 1], [0, 1]), srf(sp).derivative(0.5, 0.5, d=(1, 0)), srf(sp).normal(0.5, 0.5), sf(sp).cylinder().evaluate(7.0, 0.5))
    C['surface.area-edges-corners'] = lambda sp, tmp: (srf(sp).area(), srf(sp).edges(), srf(sp).corners())
    C['surface.swap-rebuild-const_par'] = lambda sp, tmp: (srf(sp).swap(), srf(sp).rebuild(3, 5), srf(sp).const_par_curve(0.5, 0))
    C['surface.refine-split'] = lambda sp, tmp: (lambda s: (s.refine(1), s.raise_order(1, 0), s.split(0.5, 'u'), s.insert_knot(0.25, 1)))(srf(sp))
    C['surface.periodic-split-reverse'] = lambda sp, tmp: (lambda s: (s.reverse(0), s.split(1.0, 0), s.make_periodic(0, 1) if False else None))(sf(sp).cylinder())
    C['surface.evaluate-raises'] = lambda sp, tmp: srf(sp).evaluate(5.0, 0.5)

    C['vf.cube-cylinder'] = lambda sp, tmp: (vf(sp).cube(), vf(sp).cylinder(), vf(sp).sphere() if hasattr(vf(sp), 'sphere') else None)
    C['vf.revolve-extrude'] = lambda sp, tmp: (vf(sp).revolve(sf(sp).square() + (1, 0)), vf(sp).extrude(sf(sp).square(), (0, 0, 1)))
    C['vf.edge_surfaces-loft'] = lambda sp, tmp: (vf(sp).edge_surfaces(sf(sp).square().set_dimension(3) or sf(sp).square(), sf(sp).square() + (0, 0, 1)),
                                                 vf(sp).loft(sf(sp).square(), sf(sp).square() + (0, 0, 1), sf(sp).square() + (0, 0, 2)))
    C['volume.evaluate-volume-faces'] = lambda sp, tmp: (lambda v: (v.evaluate(0.5, 0.5, 0.5), v.derivative(0.5, 0.5, 0.5, d=(0, 1, 0)), v.volume(), v.faces(), v.swap(0, 2)))(vf(sp).cube())

    def two_cubes(sp):
        return [vf(sp).cube(), vf(sp).cube() + (1, 0, 0)]

    C['splinemodel.add-enumerate'] = lambda sp, tmp: (lambda m: (m.add(two_cubes(sp)), m.generate_cp_numbers(), m.generate_cell_numbers(), list(m.boundary())))(sp.SplineModel(3, 3))
    C['splinemodel.twins-raise'] = lambda sp, tmp: (lambda m: (m.add(vf(sp).cube()), m.add(vf(sp).cube())))(sp.SplineModel(3, 3))
    C['splinemodel.orientation-mismatch'] = lambda sp, tmp: _mod(sp, 'splinemodel').Orientation.compute(sf(sp).square(), sf(sp).square() * 2)
    C['splinemodel.vertexdict'] = lambda sp, tmp: (lambda d: (d.__setitem__(np.array([0.0, 1.0]), 1), d[np.array([0.0, 1.0 + 1e-9])], d[np.array([5.0, 5.0])]))(_mod(sp, 'splinemodel').VertexDict())
    C['trimmedsurface.construct'] = lambda sp, tmp: sp.TrimmedSurface(sp.BSplineBasis(2), sp.BSplineBasis(2), [[0, 0], [1, 0], [0, 1], [1, 1]],
                                                                      loops=[[cf(sp).line([0, 0], [1, 0]), cf(sp).line([1, 0], [1, 1]), cf(sp).line([1, 1], [0, 0])]])
    C['trimmedsurface.not-closed-raises'] = lambda sp, tmp: sp.TrimmedSurface(sp.BSplineBasis(2), sp.BSplineBasis(2), [[0, 0], [1, 0], [0, 1], [1, 1]],
                                                                              loops=[[cf(sp).line([0, 0], [1, 0]), cf(sp).line([1, 0.5], [1, 1]), cf(sp).line([1, 1], [0, 0])]])
    C['utils'] = lambda sp, tmp: (sp.utils.sections(3, 1), sp.utils.check_direction('u', 2), sp.utils.ensure_listlike(1, 2), sp.utils.rotation_matrix(0.3, (0, 0, 1)))
    C['utils.curve-smooth-refinement'] = lambda sp, tmp: (_mod(sp, 'utils.curve').curve_length_parametrization(np.array([[0, 0], [1, 1], [2, 1.0]])),
                                                         _mod(sp, 'utils.refinement').geometric_refine(sf(sp).square(), 0.5, 2),
                                                         _mod(sp, 'utils.smooth').smooth(cf(sp).cubic_curve(np.array([[0, 0], [1, 2], [2, 1], [3, 3.0]]))) if hasattr(_mod(sp, 'utils.smooth'), 'smooth') else None)
    C['utils.NACA'] = lambda sp, tmp: _mod(sp, 'utils.NACA').NACA(2, 4, 1, 2)

    C['state.with-normal-exit'] = lambda sp, tmp: _state_normal(sp)

    def g2_read(path):
        def f(sp, tmp):
            with _mod(sp, 'io').G2(path) as g:
                return g.read()
        return f

    def svg_read(path):
        def f(sp, tmp):
            with _mod(sp, 'io').SVG(path) as g:
                return g.read()
        return f

    def spl_read(path):
        def f(sp, tmp):
            with _mod(sp, 'io').SPL(path) as g:
                return g.read()
        return f

    def other_read(path, cls):
        def f(sp, tmp):
            k = getattr(_mod(sp, 'io'), cls, None) or getattr(_mod(sp, 'io.' + cls.lower()), cls)
            with k(path) as g:
                return g.read()
        return f

    for fn in _geom_files():
        p = os.path.join(_geom_dir(), fn)
        if fn.endswith('.g2'):
            C['io.g2.read:' + fn] = g2_read(p)
        elif fn.endswith('.svg'):
            C['io.svg.read:' + fn] = svg_read(p)
        elif fn.endswith('.spl'):
            C['io.spl.read:' + fn] = spl_read(p)
        elif fn.endswith('.3dm'):
            C['io.3dm.read:' + fn] = other_read(p, 'ThreeDM')
        elif fn.endswith('.grdecl'):
            C['io.grdecl.read:' + fn] = other_read(p, 'GRDECL')

    def g2_synth(eps):
        def f(sp, tmp):
            p = os.path.join(tmp, 'bounded.g2')
            with open(p, 'w') as fh:
                fh.write(_G2_BOUNDED % eps)
            with _mod(sp, 'io').G2(p) as g:
                return g.read()
        return f

    C['io.g2.read:synthetic-bounded-surface'] = g2_synth('1e-05')
    C['io.g2.read:synthetic-bounded-surface-eps=default'] = g2_synth('1e-08')

    def g2_roundtrip(sp, tmp):
        p = os.path.join(tmp, 'rt.g2')
        with _mod(sp, 'io').G2(p) as g:
            g.write([cf(sp).circle(1.0), sf(sp).torus(), vf(sp).cube()])
        with _mod(sp, 'io').G2(p) as g:
            return g.read()

    C['io.g2.write-read'] = g2_roundtrip

    def g2_malformed(sp, tmp):
        p = os.path.join(tmp, 'bad.g2')
        with open(p, 'w') as fh:
            fh.write('210 1 0 0\n999\n')
        with _mod(sp, 'io').G2(p) as g:
            return g.read()

    C['io.g2.read:malformed-raises'] = g2_malformed

    def svg_write(sp, tmp):
        with _mod(sp, 'io').SVG(os.path.join(tmp, 'o.svg')) as g:
            g.write([cf(sp).cubic_curve(np.array([[0, 0], [1, 2], [2, 1], [3, 3.0]])), sf(sp).square()])

    def stl_write(sp, tmp):
        with _mod(sp, 'io').STL(os.path.join(tmp, 'o.stl')) as g:
            g.write(sf(sp).sphere(), n=5)

    def foam_write(sp, tmp):
        m = sp.SplineModel(3, 3)
        m.add(two_cubes(sp))
        with _mod(sp, 'io').OpenFOAM(os.path.join(tmp, 'foam')) as g:
            g.write(m)

    C['io.svg.write'] = svg_write
    C['io.stl.write'] = stl_write
    C['io.openfoam.write'] = foam_write
    return C


def _state_normal(sp):
    with sp.state.state(knot_tolerance=1e-3, unlimited=5.0):
        with sp.state.state(controlpoint_absolute_tolerance=1e-2):
            pass


_CALLS = None
_RAISED = {}     # call name -> exception class of the last run (coverage tag only)


def _calls():
    global _CALLS
    if _CALLS is None:
        _CALLS = _api_calls()
    return _CALLS


def _has_bounded_record(name):
    """Does the G2 file read by this call contain a bounded-surface (210) record?"""
    if not name.startswith('io.g2.read:'):
        return False
    tail = name.split(':', 1)[1]
    if tail.startswith('synthetic-bounded-surface'):
        return True
    p = os.path.join(_geom_dir(), tail)
    try:
        for ln in open(p):
            w = ln.split()
            if len(w) == 4 and w[0] == '210' and w[1:] == ['1', '0', '0']:
                return True
    except OSError:
        pass
    return False


def _gen_monitor(rng, tier):
    specs = []
    vectors = [None, [0.0078125, 3e-7, 0.00390625, 2e-6, 3e-9, 777.0]]
    for name in sorted(_calls()):
        for v in (vectors if tier == 'thorough' else [vectors[1]]):
            specs.append({'kind': 'monitor', 'call': name, 'settings': v})
    return specs


def _gen_objects(rng, tier):
    """Object level: parameter tuples whose entries are fuzzed knots (also just outside the ends of
    non-periodic directions) or generic points; control nets compared by Orientation.compute."""
    specs = []
    no = 24 if tier == 'quick' else 300
    for oi in range(no):
        tol = TOLS[oi % len(TOLS)]
        o = gen.rand_object(rng, pardim=rng.choice([1, 1, 2, 2, 3]), pmax=3, max_interior=2, periodic_prob=0.3)
        for rep_ in range(3 if tier == 'quick' else 4):
            params, knots, beyond = [], [], False
            for b in o['bases']:
                info = gen.basis_info(b)
                ks = [x for x in gen.distinct_knots(b) if info['k'] >= 0 or info['start'] <= x <= info['end']]
                ps, qs = [], []
                for _ in range(2):
                    r = rng.random()
                    x = rng.choice(ks)
                    if r < 0.7:
                        f = rng.choice([0.0, 0.25, -0.25, 0.5, -0.5, 0.75, -0.75])
                        ps.append(x + f * tol)
                        qs.append(x)
                    elif r < 0.8 and rep_ == 2:
                        f = rng.choice([1.5, -1.5, 2.0, -2.0])
                        ps.append(x + f * tol)
                        qs.append(x + f * tol)
                        beyond = True
                    else:
                        y = rng.choice(ks)
                        t = (x + y) / 2 if x != y else x
                        ps.append(t)
                        qs.append(t)
                params.append(ps)
                knots.append(qs)
            specs.append({'kind': 'obj_eval', 'obj': o, 'tol': tol, 'params': params, 'knots': knots, 'beyond': beyond})
    nr = 40 if tier == 'quick' else 300
    for oi in range(nr):
        atol = TOLS[oi % len(TOLS)]
        rtol = 0.0 if oi % 3 != 2 else rng.choice([1e-5, 1e-3])
        o = gen.rand_object(rng, pardim=rng.choice([1, 2, 2, 3]), pmax=3, max_interior=1, periodic_prob=0.0, rational=False)
        n = int(np.prod(np.array(o['cps']).shape))
        specs.append({'kind': 'orient', 'obj': o, 'rtol': rtol, 'atol': atol, 'idx': rng.randrange(n),
                      'frac': rng.choice([0.0, 0.5, -0.5, 0.75, 2.0, -2.0, 1.5])})
    return specs


def _orient_nets(s):
    a = np.array(s['obj']['cps'], dtype=float)
    b = a.copy().reshape(-1)
    x = b[s['idx']]
    b[s['idx']] = x + s['frac'] * (s['atol'] + s['rtol'] * abs(x))
    return a, b.reshape(a.shape)


def generate(rng, tier):
    specs = []
    specs += _gen_nests(rng, tier)
    specs += _gen_monitor(rng, tier)
    specs += _gen_vertexdict(rng, tier)
    specs += _gen_objects(rng, tier)
    specs += _gen_basis_cases(rng, tier)
    # the driver reports the first few failing inputs of a run: put the minimal experiment of every
    # class of global-state / configuration experiment first so that each one gets its own replay
    head = []
    for pick in (lambda s: s['kind'] == 'state_nest' and _raise_inside_with(s['block']),
                 lambda s: s['kind'] == 'monitor' and s['call'] == 'io.g2.read:synthetic-bounded-surface',
                 lambda s: s['kind'] == 'model_vertices' and s['frac'] < 1,
                 lambda s: s['kind'] == 'model_vertices' and s['frac'] > 1 and s['tol'] < 1e-9):
        for i, s in enumerate(specs):
            if pick(s):
                head.append(specs.pop(i))
                break
    return head + specs


# ---------------------------------------------------------------------------------------------
# model lines

def _enc_block(b):
    k = b[0]
    if k in ('noop', 'raise'):
        return [Word(k)]
    if k == 'assign':
        return [Word('assign'), Word(b[1]), b[2]]
    if k == 'seq':
        return [Word('seq')] + [_enc_block(x) for x in b[1:]]
    if k == 'with':
        return [Word('with'), [[Word(n), v] for n, v in b[1]], _enc_block(b[2])]
    raise ValueError(b)


def _prog():
    info = _GEN['info']
    if info is None:   # e.g. a tool importing this module without running regenerate: same overlay as the harness
        sp, _ = implmod.load()
        pkg = os.path.dirname(os.path.abspath(sp.__file__))
        info = {'prog': state_translate.translate_state(open(os.path.join(pkg, 'state.py')).read())['prog']}
    return state_translate.prog_from_json(info['prog'])


def _monitor_before(s):
    return s['settings'] if s['settings'] is not None else _GEN.get('defaults') or [0.0, 1e-8, 0.0, 1e-8, 1e-10, 1e4]


def model_line(s):
    k = s['kind']
    if k == 'snap':
        return line('c20_snap', gen.enc_basis(s['basis']), s['tol'], s['ts'])
    if k == 'eval':
        return line('basis_eval', gen.enc_basis(s['basis']), s['tol'], s['t'], s['d'], s['right'])
    if k == 'validate':
        return line('c20_validate', gen.enc_basis(s['basis']), s['tol'], s['ts'])
    if k == 'continuity':
        return line('c20_continuity', gen.enc_basis(s['basis']), s['tol'], s['t'])
    if k == 'knot_spans':
        return line('c20_knot_spans', gen.enc_basis(s['basis']), s['tol'], s['ghost'])
    if k == 'vertexdict':
        return line('c20_vertexdict', s['rtol'], s['atol'], [[Word(o), key, v] for o, key, v in s['ops']])
    if k == 'model_vertices':
        # the PROPERTY: vertices are merged with the configured control-point tolerances
        pts = _model_vertices_points(s)
        ops = [[Word('setdefault'), p, i + 1] for i, p in enumerate(pts)]
        return line('c20_vertexdict', s.get('rtol', 0.0), s['tol'], ops + [[Word('len'), [0.0, 0.0], 0]])
    if k == 'state_nest':
        return line('c20_state_nest', state_translate.prog_to_val(_prog()), [[Word(n), v] for n, v in s['init']], _enc_block(s['block']))
    if k == 'monitor':
        return line('c20_echo', _monitor_before(s))
    if k == 'obj_eval':
        return line('obj_eval', gen.enc_object(s['obj']), s['tol'], s['params'], True)
    if k == 'orient':
        a, b = _orient_nets(s)
        return line('c20_allclose', s['rtol'], s['atol'], a.reshape(-1).tolist(), b.reshape(-1).tolist())
    raise ValueError(k)


def _model_vertices_points(s):
    base = s['base']
    sep = s['frac'] * (s['tol'] + s.get('rtol', 0.0) * abs(base + 1.0))
    return [[base, base], [base + 1.0, base], [base + 1.0 + sep, base], [base + 2.0, base + 1.0]]


# ---------------------------------------------------------------------------------------------
# implementation side

class _Boom(Exception):
    pass


def _exec_block(sp, b):
    k = b[0]
    if k == 'noop':
        return
    if k == 'raise':
        raise _Boom()
    if k == 'assign':
        setattr(sp.state, b[1], b[2])
        return
    if k == 'seq':
        for x in b[1:]:
            _exec_block(sp, x)
        return
    if k == 'with':
        with sp.state.state(**{n: v for n, v in b[1]}):
            _exec_block(sp, b[2])
        return
    raise ValueError(b)


def _run_nest(sp, s):
    with _guard(sp):
        for n, v in s['init']:
            setattr(sp.state, n, v)
        try:
            _exec_block(sp, s['block'])
            out = 'normal'
        except _Boom:
            out = 'raised'
        return [Word(out), [getattr(sp.state, n) for n, _ in s['init']]]


def _run_monitor(sp, s):
    with _guard(sp):
        if s['settings'] is not None:
            for n, v in zip(NAMES, s['settings']):
                setattr(sp.state, n, v)
        with tempfile.TemporaryDirectory(prefix='c20-') as tmp:
            try:
                _calls()[s['call']](sp, tmp)
                _RAISED[s['call']] = None
            except Exception as e:  # noqa: BLE001 - only the settings are observed
                _RAISED[s['call']] = exc_kind(e)
        return [getattr(sp.state, n) for n in NAMES]


def _vd_run(sp, s):
    VD = _mod(sp, 'splinemodel').VertexDict
    d = VD(rtol=s['rtol'], atol=s['atol'])
    out = []

    def none(v):
        return Word('None') if v is None else v
    for op, key, v in s['ops']:
        key = np.array(key, dtype=float)
        try:
            if op == 'set':
                d[key] = v
                out.append(Word('ok'))
            elif op == 'get':
                out.append([none(d[key])])
            elif op == 'del':
                del d[key]
                out.append(Word('ok'))
            elif op == 'setdefault':
                out.append([none(d.setdefault(key, v))])
            elif op == 'contains':
                out.append(bool(key in d))
            elif op == 'len':
                out.append(len(d))
            else:
                raise ValueError(op)
        except Exception as e:  # noqa: BLE001
            out.append(Word('err:' + exc_kind(e)))
    return out


def _model_vertices_impl(sp, s):
    cf = _mod(sp, 'curve_factory')
    p = _model_vertices_points(s)
    with _tol(sp, controlpoint_absolute_tolerance=s['tol'], controlpoint_relative_tolerance=s.get('rtol', 0.0)):
        m = sp.SplineModel(pardim=1, dimension=2)
        m.add([cf.line(p[0], p[1]), cf.line(p[2], p[3])])
        return len(m.catalogue.nodes(0))


def _cp(params):
    return [list(p) for p in params]


def _orient_impl(sp, s):
    a, b = _orient_nets(s)
    oa = gen.mk_object(sp, s['obj'])
    ob = gen.mk_object(sp, dict(s['obj'], cps=b.tolist()))
    SM = _mod(sp, 'splinemodel')
    with _tol(sp, controlpoint_relative_tolerance=s['rtol'], controlpoint_absolute_tolerance=s['atol']):
        try:
            o = SM.Orientation.compute(oa, ob)
        except SM.OrientationError:
            return False
    ident = tuple(o.perm) == tuple(range(oa.pardim)) and not any(o.flip)
    return True if ident else Word('non-identity-orientation')


def run_impl(sp, s):
    k = s['kind']
    if k == 'obj_eval':
        o = gen.mk_object(sp, s['obj'])
        with _tol(sp, knot_tolerance=s['tol']):
            r = np.asarray(o.evaluate(*_cp(s['params'])), dtype=float)   # evaluate snaps list arguments in place
        return [list(r.shape), r.reshape(-1).tolist()]
    if k == 'orient':
        return _orient_impl(sp, s)
    if k == 'state_nest':
        return _run_nest(sp, s)
    if k == 'monitor':
        return _run_monitor(sp, s)
    if k == 'vertexdict':
        return _vd_run(sp, s)
    if k == 'model_vertices':
        return _model_vertices_impl(sp, s)
    b = gen.mk_basis(sp, s['basis'])
    with _tol(sp, knot_tolerance=s['tol']):
        if k == 'snap':
            t = np.array(s['ts'], dtype=float)
            if s['variant'] == 'py':
                b.snap(t)
            else:
                _mod(sp, 'basis_eval').snap(b.knots, t, sp.state.knot_tolerance)
            return t.tolist()
        if k == 'eval':
            dense = b.evaluate(s['t'], s['d'], s['right'])
            if s['d'] >= s['basis']['order']:
                return [dense[0].tolist(), [], []]
            N = b.evaluate(s['t'], s['d'], s['right'], sparse=True)
            return [dense[0].tolist(), N.data.tolist(), [int(i) for i in N.indices]]
        if k == 'validate':
            crv = sp.Curve(b, np.zeros((b.num_functions(), 2)))
            p = np.array(s['ts'], dtype=float)
            crv._validate_domain(p)
            return p.tolist()
        if k == 'continuity':
            c = b.continuity(s['t'])
            return Word('inf') if np.isinf(c) else int(c)
        if k == 'knot_spans':
            return [float(x) for x in b.knot_spans(include_ghost_knots=s['ghost'])]
    raise ValueError(k)


def compare(s, iv, mv):
    k = s['kind']
    if k in EXACT_KINDS:
        return diff(iv, mv, rtol=0.0, atol=0.0)
    if k in ('eval', 'obj_eval'):
        return diff(iv, mv, rtol=RTOL, atol=ATOL)
    if k == 'orient':
        return diff(iv, mv, rtol=0.0, atol=0.0)
    if k == 'model_vertices':
        if isinstance(iv, Err) or not isinstance(mv, list):
            return 'impl %r vs model %r' % (iv, mv)
        return None if F(int(iv)) == mv[-1] else 'vertices: impl %d vs model (property) %s' % (iv, mv[-1])
    if k == 'vertexdict':
        if isinstance(iv, Err) or not isinstance(mv, list) or len(iv) != len(mv):
            return 'impl %r vs model %r' % (iv, mv)
        for i, (a, m, op) in enumerate(zip(iv, mv, s['ops'])):
            if isinstance(a, str) and a.startswith('err:'):
                a = Err(a[4:])
            if op[0] == 'get' and isinstance(m, list) and isinstance(a, list):
                # `_candidate` returns one of the matching stored keys
                if not any(diff(a[0], x, rtol=0.0, atol=0.0) is None for x in m):
                    return '$[%d] get: impl %r not among the model candidates %r' % (i, a, m)
                continue
            d = diff(a, m, rtol=0.0, atol=0.0, path='$[%d]' % i)
            if d:
                return d
        return None
    raise ValueError(k)


# ---------------------------------------------------------------------------------------------
# oracle: the property, stated against the real code

def _near_knot(b, t, tol):
    """(knot, multiplicity) of the knot with |t - knot| < tol, by definition (exact arithmetic)."""
    ft, ftol = F(t), F(tol)
    for x in sorted(set(b['knots'])):
        if abs(F(x) - ft) < ftol:
            return x, sum(1 for y in b['knots'] if y == x)
    return None, 0


def _ideal(block, store):
    k = block[0]
    if k == 'noop':
        return 'normal'
    if k == 'raise':
        return 'raised'
    if k == 'assign':
        store[block[1]] = block[2]
        return 'normal'
    if k == 'seq':
        for x in block[1:]:
            if _ideal(x, store) == 'raised':
                return 'raised'
        return 'normal'
    if k == 'with':
        saved = dict(store)
        for n, v in block[1]:
            store[n] = v
        o = _ideal(block[2], store)
        store.clear()
        store.update(saved)
        return o
    raise ValueError(block)


def _rel_close(a, b, scale=None):
    a = np.asarray(a, dtype=float)
    b = np.asarray(b, dtype=float)
    if a.shape != b.shape:
        return False
    sc = max(1.0, float(np.max(np.abs(b))) if b.size else 1.0)
    return bool(np.all(np.abs(a - b) <= ATOL + RTOL * sc))


def _oracle_eval(sp, s):
    fails = []
    bs, t, d, right, tol = s['basis'], s['t'], s['d'], s['right'], s['tol']
    info = gen.basis_info(bs)
    b = gen.mk_basis(sp, bs)
    knot, _ = _near_knot(bs, t, tol)
    with _tol(sp, knot_tolerance=tol):
        got = b.evaluate(t, d, right)
        # the definition, with "a parameter within the tolerance of a knot is that knot"
        want = exact.basis_row(bs, t, d, right, tol=F(tol))
        if got.shape != (1, len(want)) or not exact.close(got[0], want, RTOL, ATOL):
            fails.append('tol=%g: evaluate(%r, d=%d, from_right=%s) differs from the definition at the %s: got %s want %s' % (
                tol, t, d, right, 'knot %r' % knot if knot is not None else 'point', got[0].tolist(), [float(x) for x in want]))
        if knot is not None:
            at = b.evaluate(knot, d, right)
            if not _rel_close(got, at):
                fails.append('tol=%g: evaluate(%r) != evaluate(knot %r) (d=%d, from_right=%s)' % (tol, t, knot, d, right))
            sa = b.evaluate(t, d, right, sparse=True)
            sb = b.evaluate(knot, d, right, sparse=True)
            if d < info['p'] and list(sa.indices) != list(sb.indices):
                fails.append('tol=%g: span changes between %r and the knot %r: indices %s vs %s' % (tol, t, knot, list(sa.indices), list(sb.indices)))
        # object level: evaluation/derivative at t equal those at the knot; fuzz outside a non-periodic end does not raise
        if knot is not None and info['n'] >= 1:
            n = info['n']
            cps = np.array([[float(i), float((i * i) % 5) - 1.5] for i in range(n)])
            crv = sp.Curve(b, cps)
            inside = info['start'] <= knot <= info['end']
            if inside or info['k'] >= 0:
                try:
                    a1, a2 = crv.evaluate(t), crv.evaluate(knot)
                    if not _rel_close(a1, a2):
                        fails.append('tol=%g: Curve.evaluate(%r) = %s but at the knot %r it is %s' % (tol, t, a1.tolist(), knot, a2.tolist()))
                    if info['p'] >= 2:
                        d1, d2 = crv.derivative(t, 1, above=right), crv.derivative(knot, 1, above=right)
                        if not _rel_close(d1, d2):
                            fails.append('tol=%g: Curve.derivative(%r) = %s but at the knot %r it is %s' % (tol, t, d1.tolist(), knot, d2.tolist()))
                except ValueError as e:
                    fails.append('tol=%g: Curve.evaluate/derivative(%r) raised ValueError(%s) although the parameter is within the tolerance of the knot %r' % (tol, t, e, knot))
    return fails


def _oracle_validate(sp, s):
    fails = []
    bs, tol = s['basis'], s['tol']
    info = gen.basis_info(bs)
    b = gen.mk_basis(sp, bs)
    eff = []
    for t in s['ts']:
        knot, _ = _near_knot(bs, t, tol)
        eff.append(knot if knot is not None else t)
    must_accept = info['k'] >= 0 or all(info['start'] <= x <= info['end'] for x in eff)
    with _tol(sp, knot_tolerance=tol):
        crv = sp.Curve(b, np.zeros((b.num_functions(), 2)))
        try:
            crv.evaluate(list(s['ts']))
            raised = False
        except ValueError:
            raised = True
    if must_accept and raised:
        fails.append('tol=%g: Curve.evaluate(%r) raised ValueError although every parameter is in the domain or within the tolerance of an end knot' % (tol, s['ts']))
    return fails


def _oracle_continuity(sp, s):
    bs, t, tol = s['basis'], s['t'], s['tol']
    info = gen.basis_info(bs)
    knot, m = _near_knot(bs, t, tol)
    b = gen.mk_basis(sp, bs)
    if not (info['start'] <= t <= info['end']):
        if info['k'] >= 0:
            return []      # periodic: wrapped into the period (C08)
        # a parameter beyond an end of a non-periodic basis: honoured like everywhere else in this function -- strictly
        # within the tolerance of the end knot it is that knot (p - m - 1), strictly beyond the tolerance it is out of
        # range (ValueError); since the fix of C12 periodic-rounded-ghost-knots-out-of-range / C14 loft-periodic-rounded-...
        end = info['start'] if t < info['start'] else info['end']
        d = abs(F(t) - F(end))
        with _tol(sp, knot_tolerance=tol):
            try:
                got = b.continuity(t)
            except ValueError:
                got = 'ValueError'
            except Exception as e:  # noqa: BLE001
                return ['tol=%g: continuity(%r) raised %s beyond the end %r' % (tol, t, exc_kind(e), end)]
        if d < F(tol):
            mend = sum(1 for y in bs['knots'] if y == end)
            if got == 'ValueError':
                return ['tol=%g: continuity(%r) raised ValueError although the parameter is within the tolerance of the end knot %r' % (tol, t, end)]
            if np.isinf(got) or int(got) != info['p'] - 1 - mend:
                return ['tol=%g: continuity(%r) = %r, expected %d (end knot %r of multiplicity %d within the tolerance)' % (
                    tol, t, got, info['p'] - 1 - mend, end, mend)]
        elif d > F(tol) and got != 'ValueError':
            return ['tol=%g: continuity(%r) = %r for a parameter more than the tolerance beyond the end %r (expected ValueError)' % (tol, t, got, end)]
        return []
    with _tol(sp, knot_tolerance=tol):
        try:
            got = b.continuity(t)
        except Exception as e:  # noqa: BLE001
            return ['tol=%g: continuity(%r) raised %s for an in-domain parameter' % (tol, t, exc_kind(e))]
    if knot is None:
        far = all(abs(F(x) - F(t)) > F(tol) for x in bs['knots'])
        if far and not np.isinf(got):
            return ['tol=%g: continuity(%r) = %r, no knot within the tolerance (expected inf)' % (tol, t, got)]
        return []
    want = info['p'] - 1 - m
    if np.isinf(got) or int(got) != want:
        return ['tol=%g: continuity(%r) = %r, expected %d (knot %r of multiplicity %d within the tolerance)' % (tol, t, got, want, knot, m)]
    return []


def _oracle_vertexdict(sp, s):
    """From the definition, independent of `_bounds`: two coordinates are the same when they differ by
    at most atol + rtol*|.| .  Which of the two magnitudes is the reference, and the end of the range
    itself, are left open: `same` needs 0.95*(atol + rtol*min), `distinct` 1.05*(atol + rtol*max)."""
    atol, rtol = F(s['atol']), F(s['rtol'])
    VD = _mod(sp, 'splinemodel').VertexDict
    d = VD(rtol=s['rtol'], atol=s['atol'])
    ref = []      # [key, value, alive]
    fails = []

    def close(a, b):
        a, b = F(a), F(b)
        return abs(a - b) < F(95, 100) * (atol + rtol * min(abs(a), abs(b)))

    def apart(a, b):
        a, b = F(a), F(b)
        return abs(a - b) > F(105, 100) * (atol + rtol * max(abs(a), abs(b)))

    def matches(key):
        same = [i for i, r in enumerate(ref) if r[2] and all(close(a, b) for a, b in zip(r[0], key))]
        unclear = [i for i, r in enumerate(ref) if r[2] and i not in same and not any(apart(a, b) for a, b in zip(r[0], key))]
        return same, unclear
    for j, (op, key, v) in enumerate(s['ops']):
        same, unclear = matches(key)
        if unclear:
            return fails      # exactly at the tolerance: excluded
        arr = np.array(key, dtype=float)
        try:
            if op in ('get', 'contains'):
                try:
                    got = d[arr]
                    found = True
                except KeyError:
                    found = False
                if found != bool(same):
                    fails.append('rtol=%g atol=%g op %d: lookup of %r %s, but %s' % (s['rtol'], s['atol'], j, key, 'succeeds' if found else 'raises KeyError',
                                 'it is within the tolerance of the stored key %r' % ref[same[0]][0] if same else 'some coordinate differs by more than the tolerance from every stored key'))
                    return fails
                if found and got not in [ref[i][1] for i in same]:
                    fails.append('atol=%g op %d: lookup of %r returns %r, the value of no stored key within atol' % (s['atol'], j, key, got))
                    return fails
            elif op in ('set', 'setdefault'):
                if len(same) > 1:
                    return fails
                if op == 'set':
                    d[arr] = v
                    if same:
                        ref[same[0]][1] = v
                    else:
                        ref.append([key, v, True])
                else:
                    got = d.setdefault(arr, v)
                    want = ref[same[0]][1] if same else v
                    if not same:
                        ref.append([key, v, True])
                    if got != want:
                        fails.append('atol=%g op %d: setdefault(%r) returns %r, expected %r' % (s['atol'], j, key, got, want))
                        return fails
            elif op == 'del':
                if len(same) > 1:
                    return fails
                del d[arr]
                if same:
                    ref[same[0]][2] = False
        except Exception as e:  # noqa: BLE001
            fails.append('atol=%g op %d: %s(%r) raised %s' % (s['atol'], j, op, key, exc_kind(e)))
            return fails
    return fails


def _oracle_model_vertices(sp, s):
    got = _model_vertices_impl(sp, s)
    want = 3 if s['frac'] < 1 else 4
    if got != want:
        return ['controlpoint_absolute_tolerance=%g, relative %g: two curves whose end points are %g*(atol+rtol*|x|) apart (x = %g) give %d vertices in a SplineModel, expected %d'
                % (s['tol'], s.get('rtol', 0.0), s['frac'], s['base'] + 1.0, got, want)]
    return []


def _oracle_nest(sp, s):
    store = {n: v for n, v in s['init']}
    want_o = _ideal(s['block'], store)
    got_o, got = _run_nest(sp, s)
    fails = []
    if str(got_o) != want_o:
        fails.append('outcome %s, expected %s' % (got_o, want_o))
    bad = [(n, g, store[n]) for (n, _), g in zip(s['init'], got) if g != store[n]]
    if bad:
        fails.append('after the block settings are not restored: ' + ', '.join('%s=%r (expected %r)' % b for b in bad))
    return fails


def _oracle_monitor(sp, s):
    with _guard(sp):
        if s['settings'] is not None:
            for n, v in zip(NAMES, s['settings']):
                setattr(sp.state, n, v)
        before = _snapshot(sp)
        with tempfile.TemporaryDirectory(prefix='c20-') as tmp:
            try:
                _calls()[s['call']](sp, tmp)
            except Exception:  # noqa: BLE001
                pass
        after = _snapshot(sp)
    ch = [(k, before[k], after[k]) for k in before if before[k] != after[k]]
    if ch:
        return ['call %s changed global settings: %s' % (s['call'], ', '.join('%s: %r -> %r' % c for c in ch))]
    return []


def _oracle_obj_eval(sp, s):
    if s['beyond']:
        return []
    fails = []
    o = gen.mk_object(sp, s['obj'])
    with _tol(sp, knot_tolerance=s['tol']):
        try:
            at_knots = np.asarray(o.evaluate(*_cp(s['knots'])), dtype=float)
        except Exception as e:  # noqa: BLE001
            return ['tol=%g: evaluate at in-domain knots/points %r raised %s' % (s['tol'], s['knots'], exc_kind(e))]
        try:
            got = np.asarray(o.evaluate(*_cp(s['params'])), dtype=float)
        except Exception as e:  # noqa: BLE001
            return ['tol=%g: evaluate(%r) raised %s although every parameter is within the tolerance of the in-domain knots %r'
                    % (s['tol'], s['params'], exc_kind(e), s['knots'])]
        if not _rel_close(got, at_knots):
            fails.append('tol=%g: evaluate(%r) differs from evaluate at the knots %r' % (s['tol'], s['params'], s['knots']))
        if all(b['order'] >= 2 for b in s['obj']['bases']) and not s['obj']['rational']:
            d = tuple([1] + [0] * (len(s['obj']['bases']) - 1))
            try:
                d1 = np.asarray(o.derivative(*_cp(s['params']), d=d, above=False), dtype=float)
                d2 = np.asarray(o.derivative(*_cp(s['knots']), d=d, above=False), dtype=float)
                if not _rel_close(d1, d2):
                    fails.append('tol=%g: derivative(%r, d=%r) differs from the derivative at the knots %r' % (s['tol'], s['params'], d, s['knots']))
            except ValueError as e:
                fails.append('tol=%g: derivative(%r) raised ValueError(%s) within the tolerance of in-domain knots' % (s['tol'], s['params'], e))
    return fails


def _oracle_orient(sp, s):
    got = _orient_impl(sp, s)
    want = abs(s['frac']) < 1
    if got is True and want:
        return []
    if got is False and not want:
        return []
    return ['controlpoint tolerances rtol=%g atol=%g: control nets differing in one coordinate by %g*(atol+rtol*|x|) -> Orientation.compute %s, expected %s'
            % (s['rtol'], s['atol'], s['frac'], {True: 'identity', False: 'OrientationError'}.get(got, got),
               'identity' if want else 'OrientationError')]


def oracle(sp, s):
    """An exception escaping from the LIBRARY during a property experiment is a failure of the
    property on this input (e.g. a stored vertex that is not found by its own coordinates); an
    exception of the harness itself stays an infrastructure error."""
    import traceback
    try:
        return _oracle(sp, s)
    except Exception as e:  # noqa: BLE001
        frames = traceback.extract_tb(e.__traceback__)
        pkg = os.path.dirname(os.path.abspath(sp.__file__))
        if frames and os.path.abspath(frames[-1].filename).startswith(pkg):
            return ['the library raised %s(%s) in %s:%d during the %s experiment'
                    % (exc_kind(e), str(e)[:120], os.path.relpath(frames[-1].filename, pkg), frames[-1].lineno, s['kind'])]
        raise


def _oracle(sp, s):
    k = s['kind']
    if k == 'obj_eval':
        return _oracle_obj_eval(sp, s)
    if k == 'orient':
        return _oracle_orient(sp, s)
    if k == 'eval':
        return _oracle_eval(sp, s)
    if k == 'validate':
        return _oracle_validate(sp, s)
    if k == 'continuity':
        return _oracle_continuity(sp, s)
    if k == 'vertexdict':
        return _oracle_vertexdict(sp, s)
    if k == 'model_vertices':
        return _oracle_model_vertices(sp, s)
    if k == 'state_nest':
        return _oracle_nest(sp, s)
    if k == 'monitor':
        return _oracle_monitor(sp, s)
    if k == 'snap':
        # by definition: within the tolerance -> the knot, otherwise unchanged
        bs, tol = s['basis'], s['tol']
        b = gen.mk_basis(sp, bs)
        fails = []
        with _tol(sp, knot_tolerance=tol):
            t = np.array(s['ts'], dtype=float)
            if s['variant'] == 'py':
                b.snap(t)
            else:
                _mod(sp, 'basis_eval').snap(b.knots, t, sp.state.knot_tolerance)
        for t0, t1 in zip(s['ts'], t.tolist()):
            knot, _ = _near_knot(bs, t0, tol)
            want = knot if knot is not None else t0
            if t1 != want:
                fails.append('tol=%g: snap(%r) = %r, expected %r' % (tol, t0, t1, want))
        return fails[:3]
    return []


# ---------------------------------------------------------------------------------------------
# classification, tags

def _raise_inside_with(block, inside=False):
    k = block[0]
    if k == 'raise':
        return inside
    if k == 'seq':
        return any(_raise_inside_with(x, inside) for x in block[1:])
    if k == 'with':
        return _raise_inside_with(block[2], True)
    return False


def _depth(block):
    k = block[0]
    if k == 'seq':
        return max([_depth(x) for x in block[1:]] + [0])
    if k == 'with':
        return 1 + _depth(block[2])
    return 0


def classify(s, res=None):
    k = s['kind']
    if k == 'state_nest' and _raise_inside_with(s['block']):
        return K_STATE
    if k == 'monitor' and _has_bounded_record(s['call']):
        return K_G2
    if k == 'model_vertices':
        return K_SM
    return None


def _tol_tag(x):
    return 'tol=%.0e' % x


def tags(s, res):
    k = s['kind']
    out = ['kind:' + k]
    if k in ('snap', 'eval', 'validate', 'continuity', 'knot_spans'):
        info = gen.basis_info(s['basis'])
        out += ['p=%d' % info['p'], 'periodic' if info['k'] >= 0 else 'open', _tol_tag(s['tol'])]
    if k == 'snap':
        out += ['snap:within', 'snap:beyond', 'snap:' + s['variant']]
    if k in ('eval', 'validate', 'continuity'):
        f = s.get('frac')
        if s.get('greville'):
            out.append('greville')
        if f is not None:
            w = 'within' if abs(f) < 1 else 'beyond'
            out.append('%s:%s' % (k, w))
            if info['k'] < 0:
                if (s['knot'] == info['end'] and f > 0) or (s['knot'] == info['start'] and f < 0):
                    out.append('%s:outside-end-%s' % (k, w))
            if f == 0:
                out.append('%s:at-knot' % k)
    if k == 'continuity' and res is not None:
        out.append('continuity=%s' % (res['impl'],))
    if k == 'vertexdict':
        out += ['vd:rtol=0' if s['rtol'] == 0 else 'vd:rtol>0', 'vd:dim=%d' % s['dim'], _tol_tag(s['atol'])]
        if res is not None and isinstance(res['impl'], list):
            for (op, _, _), r in zip(s['ops'], res['impl']):
                if op in ('get', 'contains'):
                    hit = (r is True) or isinstance(r, list)
                    out.append('vd:merge' if hit else 'vd:distinct')
                if op == 'del':
                    out.append('vd:del')
    if k == 'model_vertices':
        out += ['sm:frac=%g' % s['frac'], _tol_tag(s['tol'])]
    if k == 'state_nest':
        if _raise_inside_with(s['block']):
            out.append('nest:raise-in-with')
        out.append('nest:depth>=2' if _depth(s['block']) >= 2 else 'nest:depth=%d' % _depth(s['block']))
    if k == 'obj_eval':
        out += ['obj:pardim=%d' % len(s['obj']['bases']), 'obj:rational' if s['obj']['rational'] else 'obj:polynomial', _tol_tag(s['tol'])]
        out.append('obj:beyond' if s['beyond'] else 'obj:within')
        for b, ps in zip(s['obj']['bases'], s['params']):
            info = gen.basis_info(b)
            if info['k'] < 0 and not s['beyond'] and any(t < info['start'] or t > info['end'] for t in ps):
                out.append('obj:within-outside-end')
            if info['k'] >= 0:
                out.append('obj:periodic-direction')
        if res is not None and isinstance(res['impl'], Err):
            out.append('obj:raised')
    if k == 'orient':
        out += ['orient:close' if abs(s['frac']) < 1 else 'orient:far', 'orient:rtol=0' if s['rtol'] == 0 else 'orient:rtol>0',
                'orient:pardim=%d' % len(s['obj']['bases']), _tol_tag(s['atol'])]
    if k == 'monitor':
        c = s['call']
        out.append('monitor:' + c.split('.')[0])
        if c.startswith('io.g2.read'):
            out.append('monitor:g2-read')
        if _RAISED.get(c):
            out.append('monitor:call-raised')
    return out


def nontrivial(s, res):
    k = s['kind']
    if k in ('eval', 'validate', 'continuity'):
        return s.get('frac') is not None or bool(s.get('greville'))
    if k == 'state_nest':
        return True
    if k == 'monitor':
        return not _RAISED.get(s['call'])
    return True
