"""C12 — make_splines_identical: one common discretisation, both geometries unchanged.

Correspondence: `SplineObject.make_splines_compatible` and `make_splines_identical` on real pairs
(Curve / Surface / Volume instances, so `Curve.raise_order` is dispatched where the code does) versus
the Lean model `Model/Identical.lean` (composition of the already modelled `force_rational`,
`set_dimension`, `reparam(direction=)`, `lower_periodic`, `raise_order(amount, direction=)`,
`continuity` / `knot_spans` and the two mutual `insert_knot` passes with the live-alias semantics of
`b1` / `b2`).  Observables after the call: both objects' bases (orders and periodicities exact, knots
to 1e-12 — `reparam` divides in floating point), control-net shape, control points (tolerance scaled
by the measured condition number of the Greville collocation, as in C05), rationality, dimension,
exception classes.  The model additionally decides, in exact rational arithmetic, that each object
evaluates to its old map at the rescaled parameters (`same1`/`same2`).

Oracle (model independent): afterwards equal dimension and rationality; in every requested direction
identical order, periodicity and knot vector (1e-12) on [0,1]; directions not requested keep their
bases; each object evaluates at the rescaled parameters `(u - a)/(b - a)` to the map of its ORIGINAL
spec (exact Cox-de Boor rows / exact NURBS points of the original), padded coordinates zero;
invalid directions raise ValueError.

Streams outside the main one (all tagged): `rounded-periodic-input` — periodic knot vectors whose ghost
knots repeat the period only up to floating-point rounding (the exact model cannot follow sub-ulp
inconsistencies of its INPUT, so `compare` is skipped and the oracle alone decides); `near-knots` —
knots closer than a few knot tolerances (identity of the knot vectors is then demanded up to the knot
tolerance 1e-10); `defect-stream` — input classes in which the called methods are known to fail
(labels of C04/C05/C08 re-used by `classify`).
"""
from fractions import Fraction as F
import itertools

import numpy as np

from vlib import gen, exact
from vlib.val import line, Word
from vlib.compare import diff, Err, is_err

ID = 'C12'
PYOBJECT_METHODS = ['split', 'lower_periodic', 'make_periodic', 'make_periodic_c', 'insert_knot', 'raise_order']   # splineobject.py methods re-translated and proved equal to the hand model each run
RTOL = 1e-7      # multiplied by the measured condition number for control points
ATOL = 1e-11
KTOL = 1e-12     # knot vectors
RULE = ('pairs of continuous objects of equal parametric dimension 1-3: orders 2..5 (different per object and direction), '
        'interior knots drawn from a shared pool so that after reparam knots coincide with different multiplicities 1..p-1 or '
        'are absent in one object, different affine placements of the domains (power-of-two and non-dyadic scalings), '
        'periodicities -1..p-2 (periodic bases with n >= p+k+1 functions), rational / non-rational, physical dimensions 1-3; '
        'direction None / each int / each spelling / invalid; make_splines_compatible alone; small separate streams: '
        'periodic bases placed by a non-dyadic affine map (ghost knots periodic only up to rounding; model comparison '
        'skipped, oracle only), knots of the two objects 2^-35..2^-31 apart around knot_tolerance (incl. two knots of '
        'one object inside the tolerance window of one knot of the other), surfaces and volumes periodic in each '
        'direction (the last included) against partners of lower periodicity so that lower_periodic runs 1-3 levels there '
        '(square / non-square nets in the other directions, rational or not, every direction spelling), and the known defect classes of the called '
        'methods (periodic bases with n < p+k functions, order-1 directions, 1-D curves); surfaces and volumes whose directions '
        'were all built from ONE BSplineBasis instance (Surface(b, b, cps, raw=True) / Volume(b, b, b, ...), also through '
        'clone() and a scaling, as volume_factory.sphere(type=\'square\') does) against a partner with interior knots '
        'they lack, direction None and each single direction - the correspondence runs through the alias-free spec.  '
        'non-trivial = the call is legal (valid direction).')
REQUIRED_TAGS = ['kind=identical', 'kind=compatible', 'pardim=1', 'pardim=2', 'pardim=3', 'dir=None', 'dir=int', 'dir=str',
                 'dir=invalid', 'orders-differ', 'orders-equal', 'periodicity-differs', 'both-periodic', 'open-only',
                 'rational-mixed', 'rational-both', 'dimension-differs', 'domains-differ', 'float-reparam',
                 'inserted-into-1', 'inserted-into-2', 'shared-knot-mult-differs', 'nothing-to-insert',
                 'model-exact-map=exact-same', 'interior-mult>=2', 'defect-stream', 'rounded-periodic-input', 'near-knots',
                 'periodic-lowering:dir0', 'periodic-lowering:dir1', 'periodic-lowering:dir2', 'levels:odd', 'levels:even',
                 'levels=1', 'levels=2', 'levels=3', 'pardim=2:lowering:dir0', 'pardim=2:lowering:dir1',
                 'pardim=3:lowering:dir0', 'pardim=3:lowering:dir1', 'pardim=3:lowering:dir2',
                 'volume-w-lowering:odd:square', 'volume-w-lowering:odd:nonsquare', 'volume-w-lowering:even:square',
                 'lowering:other-net-square', 'lowering:other-net-nonsquare', 'lowering:rational',
                 # one BSplineBasis instance used for all directions of a partner (raw=True construction path)
                 'shared-instance', 'shared:pardim=2', 'shared:pardim=3', 'shared:dir=None', 'shared:dir=0', 'shared:dir=1',
                 'shared:dir=2', 'shared:via=raw', 'shared:via=clone', 'shared:via=affine', 'shared:obj=1', 'shared:obj=2',
                 'shared:rational', 'shared:orders-differ', 'shared:orders-equal']
ASSUMPTIONS = ['np.linalg.inv / scipy spsolve inside raise_order are modelled by exact inverses (certificate-checked in the '
               'model); their rounding error is bounded by RTOL times the measured condition number of the collocation matrix',
               'BSplineBasis.reparam divides in floating point: knots are compared to 1e-12, and knots of the two objects that '
               'coincide up to rounding are matched through the knot tolerance by code and model alike']

SPELL = {0: [0, 'u', 'U'], 1: [1, 'v', 'V'], 2: [2, 'w', 'W']}
POOL = [0.125, 0.25, 0.375, 0.5, 0.625, 0.75, 0.875]


# ---------------------------------------------------------------------------------------------
# generators

def _place(rng, knots, mode):
    """Affine placement a*t+b.  mode 'dyadic': a a power of two (reparam is exact in doubles),
    'float': a not a power of two (reparam rounds), 'unit': identity."""
    if mode == 'unit':
        return list(knots)
    if mode == 'dyadic':
        a = rng.choice([0.25, 0.5, 1.0, 2.0, 4.0, 8.0])
        b = rng.choice([0.0, 0.0, -1.0, -2.5, 3.0, 10.0, -7.25])
    else:
        a = rng.choice([3.0, 0.1, 1.7, 6.0, 2.0 / 3.0, 5.0])
        b = rng.choice([0.0, 0.3, -1.1, 2.0, 7.0])
    return [a * t + b for t in knots]


def _basis(p, k, interior, place=None, rng=None, mode='unit'):
    """Basis of order p on [0,1] with the interior knots `interior` = [(u, mult)] (increasing),
    periodicity k (seam multiplicity p-1-k), then placed affinely."""
    flat = [u for (u, m) in interior for _ in range(m)]
    if k < 0:
        knots = [0.0] * p + flat + [1.0] * p
    else:
        mu0 = p - 1 - k
        pattern = [0.0] * mu0 + flat
        L = len(pattern)
        knots = [pattern[j % L] + float(j // L) for j in range(-(k + 1), L + mu0 + k + 1)]
    if rng is not None:
        knots = _place(rng, knots, mode)
    return {'order': p, 'knots': knots, 'periodic': k}


def _interior(rng, p, shared, count, need=0):
    """`count` interior knots (from the shared pool first, then the rest of POOL) with multiplicities
    1..p-1, at least `need` knots in total (periodic bases need n >= p+k+1 functions)."""
    pick = [u for u in shared if rng.random() < 0.7]
    rest = [u for u in POOL if u not in shared]
    rng.shuffle(rest)
    while len(pick) < count and rest:
        pick.append(rest.pop())
    pick = sorted(pick[:count])
    out = []
    for u in pick:
        m = 1 if (p == 2 or rng.random() < 0.5) else rng.randint(1, p - 1)
        out.append((u, m))
    total = sum(m for _, m in out)
    free = [u for u in POOL if u not in [x for x, _ in out]]
    rng.shuffle(free)
    while total < need and free:
        out.append((free.pop(), 1))
        total += 1
    return sorted(out)


def _pair_bases(rng, pmax, periodic_prob, max_int, mode_choices):
    """Two bases for one parametric direction of the pair."""
    shared = rng.sample(POOL, rng.randint(0, min(3, max_int + 1)))
    res = []
    p_eq = rng.random() < 0.3
    p0 = rng.randint(2, pmax)
    for j in range(2):
        p = p0 if p_eq else rng.randint(2, pmax)
        k = rng.randint(0, p - 2) if (p >= 2 and rng.random() < periodic_prob) else -1
        need = (2 * k + 2) if k >= 0 else 0       # n = (p-1-k) + sum(mult) >= p+k+1
        inter = _interior(rng, p, shared, rng.randint(0, max_int), need)
        mode = rng.choice(mode_choices)
        if k >= 0 and mode == 'float':
            mode = 'dyadic'       # ghost knots must repeat the period EXACTLY (see _ghost_exact)
        res.append(_basis(p, k, inter, rng=rng, mode=mode))
    return res


def _obj(rng, bases, dim, rational):
    shape = [gen.basis_info(b)['n'] for b in bases]
    ncomp = dim + (1 if rational else 0)
    return {'bases': bases, 'cps': gen.rand_cps(rng, shape, ncomp, rational), 'rational': bool(rational)}


def _pair(rng, pardim, pmax, periodic_prob, max_int, modes=('unit', 'dyadic', 'dyadic', 'float')):
    b1, b2 = [], []
    for _ in range(pardim):
        x, y = _pair_bases(rng, pmax, periodic_prob, max_int, modes)
        b1.append(x)
        b2.append(y)
    dims = rng.choice([(2, 2), (2, 3), (3, 2), (3, 3), (1, 2), (3, 1), (2, 2), (1, 3)] if pardim < 3 else [(3, 3), (3, 3), (2, 3), (3, 1)])
    rats = rng.choice([(False, False), (True, False), (False, True), (True, True)])
    return _obj(rng, b1, dims[0], rats[0]), _obj(rng, b2, dims[1], rats[1])


def _direction(rng, pardim, i):
    r = i % 6
    if r in (0, 1):
        return None
    d = rng.randrange(pardim)
    if r in (2, 3):
        return d
    return rng.choice(SPELL[d][1:])


def _ghost_exact(b):
    """Do the ghost knots of a periodic basis spec repeat the interior knots with EXACTLY the period
    end - start (as rational numbers)?  A placement a*t+b with a not a power of two rounds every knot
    separately; the constructor accepts such vectors (tolerance) but in exact arithmetic they are not
    periodic, and what the code does with them depends on how the rounding errors fall."""
    if b['periodic'] < 0:
        return True
    info = gen.basis_info(b)
    kn = exact.frs(b['knots'])
    T = exact.fr(info['end']) - exact.fr(info['start'])
    n = info['n']
    return all(kn[i + n] == kn[i] + T for i in range(len(kn) - n))


def _lowering_specs(rng, quick):
    """Surfaces and volumes periodic in EACH parametric direction (the last one included) whose partner
    has a lower periodicity there, so that `lower_periodic` runs 1, 2 or 3 levels in that direction;
    square and non-square control nets in the other directions, rational or not, every way of naming
    the direction.  (`lower_periodic` handles the control array axis by axis: a mistake in the axis
    bookkeeping of one direction is invisible in the others.)"""
    out = []
    combos = [(2, 0, -1), (3, 1, 0), (3, 1, -1), (3, 0, -1), (4, 2, -1), (4, 2, 1), (4, 2, 0), (4, 1, 0), (4, 1, -1)]
    nets = [(2, 2), (2, 3), (3, 2), (3, 3)]
    reps = 1 if quick else 4
    n = 0
    for rep in range(reps):
        for pardim in (3, 2):
            for d in range(pardim):
                use = combos if (pardim == 3 and d == 2) or not quick else combos[:5]
                for ci, (p, khi, klo) in enumerate(use):
                    n += 1
                    others = nets[(ci + rep) % 4]
                    bh, bl, oi = [], [], 0
                    for k in range(pardim):
                        if k == d:
                            hi = _basis(p, khi, _interior(rng, p, [], rng.randint(1, 2), 2 * khi + 2), rng=rng,
                                        mode=rng.choice(['unit', 'dyadic']))
                            # same order in the w direction of volumes (the level count is then exactly khi - klo);
                            # elsewhere the partner's order may differ as well
                            p2 = p if (pardim == 3 and d == 2) or rng.random() < 0.6 else rng.randint(max(2, klo + 2), 4)
                            lo = _basis(p2, klo, _interior(rng, p2, [], rng.randint(0, 2), 2 * klo + 2 if klo >= 0 else 0),
                                        rng=rng, mode=rng.choice(['unit', 'dyadic']))
                            bh.append(hi)
                            bl.append(lo)
                        else:
                            nf = others[oi % 2]
                            oi += 1
                            # open order-2 bases: nf functions in the object to be lowered, any number in the partner
                            bh.append(_basis(2, -1, [(POOL[2 * j + 1], 1) for j in range(nf - 2)], rng=rng, mode='dyadic'))
                            bl.append(_basis(2, -1, [(POOL[2 * j + 1], 1) for j in range(rng.choice([nf, 2, 3]) - 2)], rng=rng,
                                             mode='unit'))
                    rat = [(False, False), (True, False), (False, True)][n % 3]
                    dim = 3 if pardim == 3 else rng.choice([2, 3])
                    oh = _obj(rng, bh, dim, rat[0])
                    ol = _obj(rng, bl, dim, rat[1])
                    o1, o2 = (oh, ol) if n % 4 < 2 else (ol, oh)
                    direction = [None, d, SPELL[d][1], SPELL[d][2]][n % 4]
                    out.append({'kind': 'identical', 'o1': o1, 'o2': o2, 'direction': direction, 'stream': 'lowering'})
    return out


def _rounded_periodic_specs(rng, quick):
    """Periodic bases placed by a non-dyadic affine map (ghost knots periodic only up to rounding)
    against open / periodic partners.  Model comparison is skipped for these (see `compare`)."""
    out = []
    for i in range(24 if quick else 200):
        p = rng.randint(2, 4)
        k = rng.randint(0, p - 2)
        inter = _interior(rng, p, [], rng.randint(1, 3), 2 * k + 2)
        b1 = _basis(p, k, inter, rng=rng, mode='float')
        p2 = rng.randint(2, 4)
        k2 = rng.choice([-1, -1, rng.randint(0, p2 - 2)])
        b2 = _basis(p2, k2, _interior(rng, p2, [u for u, _ in inter], rng.randint(0, 3), 2 * k2 + 2 if k2 >= 0 else 0),
                    rng=rng, mode=rng.choice(['dyadic', 'float']))
        o1 = _obj(rng, [b1], 2, rng.random() < 0.3)
        o2 = _obj(rng, [b2], 2, rng.random() < 0.3)
        if i % 2:
            o1, o2 = o2, o1
        out.append({'kind': 'identical', 'o1': o1, 'o2': o2, 'direction': None, 'stream': 'rounded-periodic'})
    return out


def _near_knot_specs(rng, quick):
    """Curves on [0,1] (no reparam arithmetic) whose interior knots are those of the partner shifted by
    tiny dyadic amounts around `state.knot_tolerance` = 1e-10 (2^-35 .. 2^-31): inside, at the edge of
    and just outside the tolerance window of `continuity`.  Probes the tolerance-based matching inside
    the separation hypothesis of `C12_knot_merge_partial`; identity of the knot vectors is then only
    demanded up to the knot tolerance (see `oracle`)."""
    out = []
    for i in range(16 if quick else 150):
        p1, p2 = rng.randint(2, 4), rng.randint(2, 4)
        base = sorted(rng.sample(POOL, rng.randint(1, 3)))
        i1 = [(u, rng.randint(1, p1 - 1)) for u in base if rng.random() < 0.8]
        i2 = []
        for u in base:
            if rng.random() < 0.85:
                d = rng.choice([0.0, 2.0 ** -35, -2.0 ** -35, 2.0 ** -34, -2.0 ** -34, 2.0 ** -33, -2.0 ** -33,
                                2.0 ** -32, 2.0 ** -31])
                i2.append((u + d, rng.randint(1, p2 - 1)))
        o1 = _obj(rng, [_basis(p1, -1, i1)], 2, False)
        o2 = _obj(rng, [_basis(p2, -1, i2)], 2, rng.random() < 0.3)
        if i % 2:
            o1, o2 = o2, o1
        out.append({'kind': 'identical', 'o1': o1, 'o2': o2, 'direction': rng.choice([None, 0, 'u']), 'stream': 'near-knots'})
    # one object has two distinct knots (more than one tolerance apart) that BOTH lie inside the tolerance
    # window of a single knot of the other object
    for d in ([2.0 ** -34] if quick else [2.0 ** -34, 0.8e-10, 0.6e-10]):
        u = rng.choice([0.25, 0.5, 0.75])
        o1 = _obj(rng, [_basis(3, -1, [(u, 1)])], 2, False)
        o2 = _obj(rng, [_basis(3, -1, [(u - d, 1), (u + d, 1)])], 2, False)
        out.append({'kind': 'identical', 'o1': o1, 'o2': o2, 'direction': None, 'stream': 'near-knots', 'defect': 'straddle'})
    return out


def _defect_specs(rng, quick):
    """The known defect classes of the called methods (labels of C04/C05/C08), a handful each."""
    out = []
    for rep in range(1 if quick else 4):
        # (a) small periodic basis n < p+k: lower_periodic / periodic insert_knot change the geometry
        for (p, k) in [(3, 1), (4, 2), (2, 0)]:
            small = _basis(p, k, [(0.5, 1)] if p > 2 else [], rng=rng, mode='dyadic')        # n = p-1-k + 1 < p+k
            if gen.basis_info(small)['n'] >= p + k:
                continue
            other_open = _basis(p, -1, [(0.25, 1)], rng=rng, mode='dyadic')
            o1 = _obj(rng, [small], 2, False)
            o2 = _obj(rng, [other_open], 2, False)
            out.append({'kind': 'identical', 'o1': o1, 'o2': o2, 'direction': None, 'defect': 'periodic-small'})
            other_per = _basis(p, k, sorted([(0.25, 1), (0.5, 1), (0.75, 1)] + ([(0.125, 1), (0.375, 1), (0.625, 1)] if k >= 1 else [])),
                               rng=rng, mode='dyadic')     # (interior knots must be increasing)
            o3 = _obj(rng, [other_per], 2, False)
            out.append({'kind': 'identical', 'o1': _obj(rng, [small], 2, False), 'o2': o3, 'direction': 0, 'defect': 'periodic-small'})
        # (b) an order-1 direction and a raise in some direction: greville() divides by zero
        s1 = _obj(rng, [{'order': 1, 'knots': [0.0, 1.0], 'periodic': -1}, _basis(2, -1, [])], 2, False)
        s2 = _obj(rng, [{'order': 1, 'knots': [0.0, 2.0], 'periodic': -1}, _basis(3, -1, [(0.5, 1)])], 2, False)
        out.append({'kind': 'identical', 'o1': s1, 'o2': s2, 'direction': None, 'defect': 'order1'})
        c1 = _obj(rng, [{'order': 1, 'knots': [0.0, 1.0], 'periodic': -1}], 2, False)
        c2 = _obj(rng, [_basis(2, -1, [])], 2, False)
        out.append({'kind': 'identical', 'o1': c1, 'o2': c2, 'direction': 0, 'defect': 'order1'})
        # (c) two non-rational 1-D curves of different order: Curve.raise_order flattens the control points
        d1 = _obj(rng, [_basis(2, -1, [(0.5, 1)])], 1, False)
        d2 = _obj(rng, [_basis(3, -1, [])], 1, False)
        out.append({'kind': 'identical', 'o1': d1, 'o2': d2, 'direction': None, 'defect': 'curve-dim1'})
    return out


def _shared_specs(rng, quick):
    """One partner has ALL its directions built from ONE BSplineBasis instance (flag `shared` = which object,
    `shared_via` = how: Surface(b, b, cps, raw=True) directly, its clone(), or a scaled copy `2*obj*0.5`
    as in `r*ball + center` of volume_factory.sphere); the other partner has interior knots the first lacks
    in every direction, so a knot is inserted into the shared-instance object whichever direction is
    requested.  The spec lists the basis once per direction (alias-free): model and oracle read that."""
    out = []
    vias = ['raw', 'clone', 'affine']
    i = 0
    for rep in range(1 if quick else 4):
        for pd in (2, 3):
            for direction in [None] + list(range(pd)):
                for which in ('o1', 'o2'):
                    for eq in (True, False):
                        p = rng.choice([2, 3]) if pd == 3 else rng.choice([2, 3, 4])
                        own = [] if rng.random() < 0.5 else [(0.5, 1)]
                        b = _basis(p, -1, own, rng=rng, mode=rng.choice(['unit', 'dyadic']))
                        pb = []
                        for d in range(pd):
                            q = p if eq else rng.choice([x for x in ((2, 3) if pd == 3 else (2, 3, 4)) if x != p])
                            extra = sorted(rng.sample([u for u in POOL if u != 0.5], rng.randint(1, 2)))
                            pb.append(_basis(q, -1, [(u, 1) for u in extra], rng=rng, mode=rng.choice(['unit', 'dyadic'])))
                        rational = (i % 2 == 0)
                        sh = _obj(rng, [dict(b, knots=list(b['knots'])) for _ in range(pd)],
                                  3 if pd == 3 else rng.choice([2, 3]), rational)
                        other = _obj(rng, pb, 3 if pd == 3 else rng.choice([2, 3]), rng.random() < 0.3)
                        dd = direction if (direction is None or i % 2) else SPELL[direction][1 + (i // 2) % 2]
                        spec = {'kind': 'identical', 'direction': dd, 'shared': which, 'shared_via': vias[i % 3]}
                        spec['o1'], spec['o2'] = (sh, other) if which == 'o1' else (other, sh)
                        out.append(spec)
                        i += 1
    return out


def generate(rng, tier):
    quick = tier == 'quick'
    specs = []
    # fixed worked examples (also the Lean `example`s of Properties/C12.lean)
    ex1 = {'bases': [{'order': 3, 'knots': [0.0, 0.0, 0.0, 1.0, 2.0, 2.0, 3.0, 3.0, 3.0], 'periodic': -1}],
           'cps': [[0.0, 0.0], [1.0, 2.0], [2.0, 1.0], [3.0, 0.0], [4.0, 1.0], [5.0, 5.0]], 'rational': False}
    ex2 = {'bases': [{'order': 2, 'knots': [1.0, 1.0, 2.0, 3.0, 3.0], 'periodic': -1}],
           'cps': [[0.0, 0.0, 1.0, 1.0], [1.0, 2.0, 0.0, 2.0], [2.0, 1.0, 3.0, 1.0]], 'rational': True}
    specs.append({'kind': 'identical', 'o1': ex1, 'o2': ex2, 'direction': None})
    specs.append({'kind': 'identical', 'o1': ex2, 'o2': ex1, 'direction': 'U'})
    specs.append({'kind': 'compatible', 'o1': ex1, 'o2': ex2})
    n = 330 if quick else 2400
    for i in range(n):
        pardim = [1, 2, 1, 2, 3, 1][i % 6]
        pmax = {1: 5, 2: 4, 3: 3}[pardim]
        max_int = {1: 4, 2: 2, 3: 1}[pardim]
        pp = [0.0, 0.35, 0.6][i % 3] if pardim < 3 else [0.0, 0.3][i % 2]
        o1, o2 = _pair(rng, pardim, pmax, pp, max_int)
        specs.append({'kind': 'identical', 'o1': o1, 'o2': o2, 'direction': _direction(rng, pardim, i // 2)})
        if i % 12 == 5:
            specs.append({'kind': 'compatible', 'o1': o1, 'o2': o2})
        if i % 25 == 7:
            specs.append({'kind': 'identical', 'o1': o1, 'o2': o2,
                          'direction': rng.choice([pardim, 3, -1, 'x', 'uv', SPELL[pardim][1] if pardim < 3 else 7])})
    # identical inputs / one object against itself's copy with another parametrisation: nothing to insert
    for i in range(6 if quick else 40):
        pardim = [1, 2][i % 2]
        o1, _ = _pair(rng, pardim, 4, 0.3, 2, modes=('unit',))
        o2 = {'bases': [{'order': b['order'], 'knots': [4.0 * t - 3.0 for t in b['knots']], 'periodic': b['periodic']} for b in o1['bases']],
              'cps': o1['cps'], 'rational': o1['rational']}
        specs.append({'kind': 'identical', 'o1': o1, 'o2': o2, 'direction': None})
    specs += _lowering_specs(rng, quick)
    specs += _rounded_periodic_specs(rng, quick)
    specs += _near_knot_specs(rng, quick)
    specs += _defect_specs(rng, quick)
    specs += _shared_specs(rng, quick)
    return specs


# ---------------------------------------------------------------------------------------------
# protocol

EXACT_GRID_MAX = 150


def _enc_dir(d):
    if d is None:
        return []
    if isinstance(d, str):
        return [Word(d)]
    return [int(d)]


def _requested(direction, pardim):
    """Directions the call makes identical, from the documented meaning (None = illegal call)."""
    if direction is None:
        return list(range(pardim))
    for i in range(pardim):
        if any(direction == x and type(direction) is type(x) for x in SPELL[i]):
            return [i]
    return None


def _norm_knots(b):
    info = gen.basis_info(b)
    a, e = info['start'], info['end']
    return [(x - a) / (e - a) for x in gen.distinct_knots(b) if a <= x <= e]


def _exact_params(s, which):
    """Grid (in the OLD parametrisation of object `which`) for the model's exact before/after
    comparison: q points strictly inside every span of the union of both objects' normalised knots
    (requested directions) resp. of the own knots (other directions), q = the final order."""
    o = s[which]
    other = s['o2' if which == 'o1' else 'o1']
    pd = len(o['bases'])
    if len(other['bases']) != pd:
        return []
    req = _requested(s['direction'], pd)
    if req is None:
        return []
    params, total = [], 1
    for d, b in enumerate(o['bases']):
        info = gen.basis_info(b)
        a, e = info['start'], info['end']
        ks = _norm_knots(b)
        q = b['order']
        if d in req:
            ks = sorted(set(ks) | set(_norm_knots(other['bases'][d])))
            q = max(q, other['bases'][d]['order'])
        ks = [x for j, x in enumerate(ks) if j == 0 or x - ks[j - 1] > 1e-9]
        pts = [a + (x + (y - x) * j / (q + 1)) * (e - a) for x, y in zip(ks[:-1], ks[1:]) for j in range(1, q + 1)]
        params.append(pts)
        total *= len(pts)
    return params if total <= EXACT_GRID_MAX else []


def model_line(s):
    if s['kind'] == 'compatible':
        return line('c12_compatible', gen.enc_object(s['o1']), gen.enc_object(s['o2']))
    return line('c12_identical', gen.enc_object(s['o1']), gen.enc_object(s['o2']), gen.TOL,
                len(s['o1']['bases']) == 1, len(s['o2']['bases']) == 1, _enc_dir(s['direction']),
                _exact_params(s, 'o1'), _exact_params(s, 'o2'))


def _cond(obj):
    """Condition number of the Greville collocation matrices of the (final) bases, cf. C05."""
    c = 1.0
    for b in obj.bases:
        try:
            N = b.evaluate(b.greville())
            c *= max(1.0, float(np.linalg.cond(N)))
        except Exception:  # noqa: BLE001
            pass
    return c


def _obs(obj):
    cps = np.asarray(obj.controlpoints, dtype=float)
    return [[[int(b.order), [float(x) for x in b.knots], int(b.periodic)] for b in obj.bases],
            list(cps.shape), cps.reshape(-1).tolist(), bool(obj.rational), int(obj.dimension)]


def _mk(sp, s, which):
    """The real object of spec `which`; for the shared-instance family ONE BSplineBasis instance is handed
    to the raw=True constructor for every direction (what volume_factory.sphere(type='square') does), and
    the object is optionally passed through clone() or an exact scaling there and back, which must keep
    it a correct object of the same spec."""
    o = s[which]
    if s.get('shared') != which:
        return gen.mk_object(sp, o)
    assert all(b == o['bases'][0] for b in o['bases'])
    one = gen.mk_basis(sp, o['bases'][0])
    cps = np.array(o['cps'], dtype=float)
    cls = {1: sp.Curve, 2: sp.Surface, 3: sp.Volume}[len(o['bases'])]
    obj = cls(*([one] * len(o['bases'])), cps, o['rational'], raw=True)
    via = s.get('shared_via', 'raw')
    if via == 'clone':
        obj = obj.clone()
    elif via == 'affine':
        obj = (2.0 * obj) * 0.5       # exact in doubles
    return obj


def _call(sp, s):
    a = _mk(sp, s, 'o1')
    b = _mk(sp, s, 'o2')
    if s['kind'] == 'compatible':
        sp.SplineObject.make_splines_compatible(a, b)
    elif s['direction'] is None:
        sp.SplineObject.make_splines_identical(a, b)
    else:
        sp.SplineObject.make_splines_identical(a, b, direction=s['direction'])
    return a, b


def run_impl(sp, s):
    a, b = _call(sp, s)           # exceptions propagate: the framework maps them to Err
    return {'v': [_obs(a), _obs(b)], 'cond': [_cond(a), _cond(b)]}


def _cmp_obj(iv, mv, rtol, path):
    """impl [bases, shape, flat, rational, dimension] vs model [bases, shape, flat, rational]."""
    if not isinstance(mv, list) or len(mv) != 4:
        return '%s: model value %r' % (path, mv)
    ib, mb = iv[0], mv[0]
    if len(ib) != len(mb):
        return '%s: %d bases vs model %d' % (path, len(ib), len(mb))
    for d, (x, y) in enumerate(zip(ib, mb)):
        dd = diff(x[0], y[0], 0, 0, path='%s.bases[%d].order' % (path, d))
        dd = dd or diff(x[2], y[2], 0, 0, path='%s.bases[%d].periodic' % (path, d))
        dd = dd or diff(x[1], y[1], KTOL, KTOL, path='%s.bases[%d].knots' % (path, d))
        if dd:
            return dd
    dd = diff(iv[1], mv[1], 0, 0, path=path + '.shape')
    dd = dd or diff(iv[3], mv[3], 0, 0, path=path + '.rational')
    if dd:
        return dd
    mdim = int(mv[1][-1]) - (1 if str(mv[3]) == 'true' else 0)
    if iv[4] != mdim:
        return '%s.dimension: impl %d vs model %d' % (path, iv[4], mdim)
    return diff(iv[2], mv[2], rtol, ATOL, path=path + '.cps')


def _near_knots(s):
    """Do the two objects have (normalised) knots in a requested direction that differ by less than
    three knot tolerances without being equal?  Then `continuity`'s tolerance window decides what is
    "the same knot", and the resulting vectors are identical only up to that tolerance."""
    pd = len(s['o1']['bases'])
    if len(s['o2']['bases']) != pd:
        return False
    for d in range(pd):
        k1 = _norm_knots(s['o1']['bases'][d])
        k2 = _norm_knots(s['o2']['bases'][d])
        for x in k1:
            for y in k2:
                if x != y and abs(x - y) < 3 * gen.TOL:
                    return True
    return False


def _straddle(s):
    """Some knot of one object has two distinct knots of the other object (more than one tolerance
    apart from each other) inside its tolerance window."""
    pd = len(s['o1']['bases'])
    if len(s['o2']['bases']) != pd:
        return False
    for d in range(pd):
        ks = [_norm_knots(s['o1']['bases'][d]), _norm_knots(s['o2']['bases'][d])]
        for a, b in ((ks[0], ks[1]), (ks[1], ks[0])):
            for x in a:
                near = [y for y in b if abs(x - y) < gen.TOL]
                if len(near) >= 2:
                    return True
    return False


def _inexact_periodic(s):
    return any(not _ghost_exact(b) for o in (s['o1'], s['o2']) for b in o['bases'])


def compare(s, iv, mv):
    if _inexact_periodic(s):
        # the exact model cannot follow rounding-level inconsistencies of the INPUT knot vector; the
        # oracle alone decides these cases
        return None
    if isinstance(iv, Err) or not isinstance(iv, dict) or is_err(mv):
        return diff(iv, mv, 0.0, 0.0)
    v = iv['v']
    if not isinstance(mv, list) or len(mv) < 2:
        return '$: model value %r' % (mv,)
    if s['kind'] == 'identical':
        for j in (2, 3):
            if mv[j] not in ('skip', 'exact-same'):
                return '$.exact: in the model (exact rationals) object %d after the call evaluates to a map that is %s' % (j - 1, mv[j])
    return _cmp_obj(v[0], mv[0], RTOL * iv['cond'][0], '$.obj1') or _cmp_obj(v[1], mv[1], RTOL * iv['cond'][1], '$.obj2')


# ---------------------------------------------------------------------------------------------
# oracle

def _row(b, tau, t, right=True):
    """Exact Cox-de Boor row of basis spec b at t (the effective point/side rules of the property C01,
    local support used to skip zero functions)."""
    p, per = b['order'], b['periodic']
    n_all = len(tau) - p
    n = n_all - (per + 1)
    start, end = tau[p - 1], tau[n_all]
    t = exact.fr(t)
    for x in tau:
        if abs(x - t) < F(1, 10 ** 10):
            t = x
            break
    if per >= 0 and (t < start or t > end):
        t = (t - start) % (end - start) + start
    if t == end:
        right = False
    row = [F(0)] * n
    if start <= t <= end:
        for i in range(n_all):
            if tau[i] <= t <= tau[i + p]:
                v = exact.B(tau, p - 1, i, t, right)
                if v:
                    row[i % n] += v
    return row


def _grid(ospec, params):
    """Tensor-product NURBS sum of a spec on a grid: rows exact, contraction in doubles."""
    t = np.array(ospec['cps'], dtype=float)
    for ax, (b, pts) in enumerate(zip(ospec['bases'], params)):
        tau = exact.frs(b['knots'])
        N = np.array([[float(x) for x in _row(b, tau, u)] for u in pts])
        t = np.moveaxis(np.tensordot(N, t, axes=(1, ax)), 0, ax)
    if ospec['rational']:
        t = t[..., :-1] / t[..., -1:]
    return t


def _sample(b, other=None, thin=False):
    """Every knot of the domain (of both bases, mapped into b's parametrisation) and interior points
    of every span."""
    info = gen.basis_info(b)
    a, e = info['start'], info['end']
    ks = _norm_knots(b)
    if other is not None:
        ks = sorted(set(ks) | set(_norm_knots(other)))
    ks = [x for j, x in enumerate(ks) if j == 0 or x - ks[j - 1] > 1e-9]
    pts = list(ks)
    per = 1 if thin else 2
    for x, y in zip(ks[:-1], ks[1:]):
        for j in range(1, per + 1):
            pts.append(x + (y - x) * j / (per + 1) * (0.93 if j == 1 else 1.0))
    return [a + t * (e - a) for t in sorted(pts)]


def _same_map(before, obj, other_spec, req, cond, what, fails):
    """The real object `obj` evaluates, at the rescaled parameters, to the map of the spec `before`;
    padded coordinates are zero."""
    pd = len(before['bases'])
    thin = pd == 3
    params = [_sample(b, other_spec['bases'][d] if d in req else None, thin or (pd == 2 and len(b['knots']) > 12))
              for d, b in enumerate(before['bases'])]
    new_params = []
    for d, (b, pts) in enumerate(zip(before['bases'], params)):
        if d in req:
            info = gen.basis_info(b)
            new_params.append([(u - info['start']) / (info['end'] - info['start']) for u in pts])
        else:
            new_params.append(list(pts))
    shape = tuple(len(p) for p in params)
    rtol = 1e-9 * max(1.0, cond)
    want = _grid(before, params)
    try:
        got = np.asarray(obj.evaluate(*new_params), dtype=float).reshape(shape + (-1,))
    except Exception as e:  # noqa: BLE001
        fails.append('%s: evaluate after the call raised %s: %s' % (what, type(e).__name__, str(e)[:80]))
        return
    dim0 = want.shape[-1]
    if got.shape[-1] < dim0:
        fails.append('%s: evaluated points have %d coordinates, the object had %d' % (what, got.shape[-1], dim0))
        return
    scale = max(1.0, float(np.max(np.abs(want))) if want.size else 1.0)
    if not np.all(np.isfinite(got)):
        fails.append('%s: evaluation after the call gives non-finite values' % what)
        return
    err = np.abs(got[..., :dim0] - want)
    if np.max(err) > 1e-11 + rtol * scale:
        i = np.unravel_index(np.argmax(err.max(axis=-1)), shape)
        fails.append('%s: evaluated map changed: at old parameters %r (new %r) the object gives %r, it was %r' % (
            what, [params[k][i[k]] for k in range(pd)], [new_params[k][i[k]] for k in range(pd)],
            got[i].tolist(), want[i].tolist()))
        return
    if got.shape[-1] > dim0 and np.max(np.abs(got[..., dim0:])) > 1e-11 + rtol * scale:
        fails.append('%s: padded coordinates are not zero (max %r)' % (what, float(np.max(np.abs(got[..., dim0:])))))
        return
    # a few points completely in exact arithmetic on the ORIGINAL spec
    idxs = list(itertools.product(*[range(len(p)) for p in params]))
    for idx in idxs[:: max(1, len(idxs) // 2)][:2]:
        w = exact.nurbs_point(before, [params[k][idx[k]] for k in range(pd)])
        if not exact.close(got[idx][:dim0], w, rtol, 1e-10):
            fails.append('%s: evaluated point differs from the exact NURBS definition of the original at %r' % (
                what, [params[k][idx[k]] for k in range(pd)]))
            return


def _dim(o):
    return np.asarray(o['cps']).shape[-1] - (1 if o['rational'] else 0)


def _compat_checks(s, a, b, fails):
    d1, d2 = _dim(s['o1']), _dim(s['o2'])
    if a.dimension != b.dimension:
        fails.append('dimensions differ afterwards: %d and %d' % (a.dimension, b.dimension))
    elif a.dimension != max(d1, d2):
        fails.append('common dimension is %d, the objects had %d and %d' % (a.dimension, d1, d2))
    if bool(a.rational) != bool(b.rational):
        fails.append('rationality differs afterwards: %r and %r' % (a.rational, b.rational))
    elif bool(a.rational) != (s['o1']['rational'] or s['o2']['rational']):
        fails.append('rationality afterwards is %r, inputs were %r and %r' % (a.rational, s['o1']['rational'], s['o2']['rational']))
    for o, spec, nm in ((a, s['o1'], 'object 1'), (b, s['o2'], 'object 2')):
        cps = np.asarray(o.controlpoints)
        if cps.ndim == len(spec['bases']) + 1 and cps.shape[-1] != o.dimension + (1 if o.rational else 0):
            fails.append('%s: control points have %d components for dimension %d, rational %r' % (nm, cps.shape[-1], o.dimension, o.rational))


def oracle(sp, s):
    fails = []
    pd = len(s['o1']['bases'])
    if s['kind'] == 'compatible':
        try:
            a, b = _call(sp, s)
        except Exception as e:  # noqa: BLE001
            return ['make_splines_compatible raised %s: %s' % (type(e).__name__, str(e)[:80])]
        _compat_checks(s, a, b, fails)
        for o, spec, nm in ((a, s['o1'], 'object 1'), (b, s['o2'], 'object 2')):
            old = np.array(spec['cps'], dtype=float)
            new = np.asarray(o.controlpoints, dtype=float)
            d0 = _dim(spec)
            if new.shape[:-1] != old.shape[:-1]:
                fails.append('%s: control net shape changed' % nm)
                continue
            if not np.array_equal(new[..., :d0], old[..., :d0]):
                fails.append('%s: physical coordinates of the control points changed' % nm)
            if np.any(new[..., d0:o.dimension] != 0):
                fails.append('%s: padded coordinates are not zero' % nm)
            if o.rational:
                w_old = old[..., -1] if spec['rational'] else np.ones(old.shape[:-1])
                if not np.array_equal(new[..., -1], w_old):
                    fails.append('%s: weights are not the old weights / 1' % nm)
            for bb, bs in zip(o.bases, spec['bases']):
                if bb.order != bs['order'] or bb.periodic != bs['periodic'] or not np.array_equal(bb.knots, np.array(bs['knots'])):
                    fails.append('%s: a basis changed' % nm)
            _same_map(spec, o, s['o2'] if o is a else s['o1'], [], 1.0, nm, fails)
        return fails

    req = _requested(s['direction'], pd)
    try:
        a, b = _call(sp, s)
    except ValueError as e:
        if req is None:
            return []
        return ['make_splines_identical(direction=%r) raised ValueError: %s' % (s['direction'], str(e)[:80])]
    except Exception as e:  # noqa: BLE001
        return ['make_splines_identical(direction=%r) raised %s: %s' % (s['direction'], type(e).__name__, str(e)[:80])]
    if req is None:
        return ['make_splines_identical(direction=%r) did not raise ValueError' % (s['direction'],)]
    _compat_checks(s, a, b, fails)
    if len(a.bases) != pd or len(b.bases) != pd or np.asarray(a.controlpoints).ndim != pd + 1 or np.asarray(b.controlpoints).ndim != pd + 1:
        fails.append('parametric dimension / control-net rank changed (control nets %r and %r)' % (
            np.asarray(a.controlpoints).shape, np.asarray(b.controlpoints).shape))
        return fails
    for d in range(pd):
        ba, bb = a.bases[d], b.bases[d]
        if d in req:
            if ba.order != bb.order:
                fails.append('direction %d: orders %d and %d' % (d, ba.order, bb.order))
            if ba.periodic != bb.periodic:
                fails.append('direction %d: periodicities %d and %d' % (d, ba.periodic, bb.periodic))
            ktol = KTOL if not _near_knots(s) else 1.0000001 * gen.TOL
            if len(ba.knots) != len(bb.knots) or np.max(np.abs(np.asarray(ba.knots) - np.asarray(bb.knots))) > ktol:
                fails.append('direction %d: knot vectors differ: %r and %r' % (d, np.asarray(ba.knots).tolist(), np.asarray(bb.knots).tolist()))
            for o_, nm in ((ba, 'object 1'), (bb, 'object 2')):
                if abs(o_.start()) > KTOL or abs(o_.end() - 1.0) > KTOL:
                    fails.append('direction %d: %s has domain [%r, %r], not [0, 1]' % (d, nm, o_.start(), o_.end()))
        else:
            for o_, spec, nm in ((ba, s['o1']['bases'][d], 'object 1'), (bb, s['o2']['bases'][d], 'object 2')):
                if o_.order != spec['order'] or o_.periodic != spec['periodic'] or len(o_.knots) != len(spec['knots']) \
                        or not np.array_equal(np.asarray(o_.knots), np.array(spec['knots'])):
                    fails.append('direction %d was not requested but the basis of %s changed' % (d, nm))
    for o_, nm in ((a, 'object 1'), (b, 'object 2')):
        if tuple(np.asarray(o_.controlpoints).shape[:-1]) != tuple(x.num_functions() for x in o_.bases):
            fails.append('%s: control net shape %r does not match its bases' % (nm, np.asarray(o_.controlpoints).shape))
            return fails
    if any('domain' in f for f in fails):
        return fails
    _same_map(s['o1'], a, s['o2'], req, _cond(a), 'object 1', fails)
    _same_map(s['o2'], b, s['o1'], req, _cond(b), 'object 2', fails)
    return fails


# ---------------------------------------------------------------------------------------------
# classification, tags

def _small(b):
    info = gen.basis_info(b)
    return info['k'] >= 0 and info['n'] < info['p'] + info['k']


def classify(s, res=None):
    if s['kind'] != 'identical':
        return None
    msgs = (res or {}).get('oracle') or []
    txt = ' '.join(msgs)
    pd = len(s['o1']['bases'])
    req = _requested(s['direction'], pd)
    if req is None or len(s['o2']['bases']) != pd:
        return None
    # (`_inexact_periodic` inputs failing with "out of range": repaired -- BSplineBasis.continuity applies the knot
    #  tolerance to its range test; former class periodic-rounded-ghost-knots-out-of-range)
    if _straddle(s):
        return 'knots-straddling-tolerance-window'
    # periodic bases with n < p+k functions (periodic insert_knot defect of C04/C08).  The labels only take
    # effect while known_findings.json lists them for C12: once the periodic insert_knot fix is in the
    # tree under test these inputs pass the oracle and nothing is classified.
    small = any(_small(o['bases'][d]) for o in (s['o1'], s['o2']) for d in req)
    if small:
        differ = any(s['o1']['bases'][d]['periodic'] != s['o2']['bases'][d]['periodic'] for d in req)
        return 'periodic-insert-small-basis' if differ else 'periodic-small-basis-geometry'
    if 'ZeroDivisionError' in txt and any(b['order'] == 1 for o in (s['o1'], s['o2']) for b in o['bases']):
        return 'order1-direction-greville-zerodivision'
    if pd == 1 and max(_dim(s['o1']), _dim(s['o2'])) == 1 and not (s['o1']['rational'] or s['o2']['rational']) \
            and s['o1']['bases'][0]['order'] != s['o2']['bases'][0]['order']:
        return 'curve-dimension1-controlpoints-flattened'
    return None


def _mults(b):
    """{normalised interior knot: multiplicity}."""
    info = gen.basis_info(b)
    a, e = info['start'], info['end']
    out = {}
    for x in b['knots']:
        if a < x < e:
            t = round((x - a) / (e - a), 9)
            out[t] = out.get(t, 0) + 1
    return out


def tags(s, res):
    out = ['kind=' + s['kind']]
    o1, o2 = s['o1'], s['o2']
    pd = len(o1['bases'])
    out.append('pardim=%d' % pd)
    if s.get('defect'):
        out += ['defect-stream', 'defect=' + s['defect']]
    if s.get('shared'):
        sh = s[s['shared']]
        rq = _requested(s.get('direction'), pd)
        out += ['shared-instance', 'shared:pardim=%d' % pd, 'shared:via=' + s.get('shared_via', 'raw'),
                'shared:obj=' + s['shared'][1:]]
        out.append('shared:dir=None' if s.get('direction') is None else 'shared:dir=%d' % rq[0] if rq else 'shared:dir=invalid')
        if sh['rational']:
            out.append('shared:rational')
        oth = s['o2' if s['shared'] == 'o1' else 'o1']
        out.append('shared:orders-differ' if any(x['order'] != y['order'] for x, y in zip(sh['bases'], oth['bases']))
                   else 'shared:orders-equal')
    if _inexact_periodic(s):
        out.append('rounded-periodic-input')
    if s['kind'] == 'identical' and _near_knots(s):
        out.append('near-knots')
    if o1['rational'] != o2['rational']:
        out.append('rational-mixed')
    elif o1['rational']:
        out.append('rational-both')
    if _dim(o1) != _dim(o2):
        out.append('dimension-differs')
    if s['kind'] == 'compatible':
        return out
    d = s['direction']
    req = _requested(d, pd)
    out.append('dir=None' if d is None else 'dir=invalid' if req is None else 'dir=str' if isinstance(d, str) else 'dir=int')
    if req is None:
        return out
    if len(req) < pd:
        out.append('dir=partial')
    anyper = False
    for k in req:
        b1, b2 = o1['bases'][k], o2['bases'][k]
        out.append('orders-differ' if b1['order'] != b2['order'] else 'orders-equal')
        if b1['periodic'] != b2['periodic']:
            out.append('periodicity-differs')
            lev = abs(b1['periodic'] - b2['periodic'])
            out.append('periodic-lowering:dir%d' % k)
            out.append('levels:odd' if lev % 2 else 'levels:even')
            out.append('levels=%d' % lev)
            if pd >= 2:
                hi_obj = o1 if b1['periodic'] > b2['periodic'] else o2
                shape = [gen.basis_info(bb)['n'] for j, bb in enumerate(hi_obj['bases']) if j != k]
                out.append('pardim=%d:lowering:dir%d' % (pd, k))
                out.append('lowering:other-net-%s' % ('square' if len(set(shape)) == 1 else 'nonsquare'))
                if pd == 3 and k == 2:
                    out.append('volume-w-lowering:%s:%s' % ('odd' if lev % 2 else 'even', 'square' if len(set(shape)) == 1 else 'nonsquare'))
                if hi_obj['rational']:
                    out.append('lowering:rational')
            if min(b1['periodic'], b2['periodic']) >= 0:
                out.append('periodicity-differs-both-periodic')
        if b1['periodic'] >= 0 and b2['periodic'] >= 0:
            out.append('both-periodic')
        anyper = anyper or b1['periodic'] >= 0 or b2['periodic'] >= 0
        i1, i2 = gen.basis_info(b1), gen.basis_info(b2)
        if (i1['start'], i1['end']) != (i2['start'], i2['end']):
            out.append('domains-differ')
        for bb in (b1, b2):
            info = gen.basis_info(bb)
            L = info['end'] - info['start']
            if L != 2.0 ** round(np.log2(L)):
                out.append('float-reparam')
        m1, m2 = _mults(b1), _mults(b2)
        if any(m >= 2 for m in list(m1.values()) + list(m2.values())):
            out.append('interior-mult>=2')
        # multiplicities are compared as continuities at the common order: c = p_i - 1 - m_i
        p = max(b1['order'], b2['order'])
        c1 = {t: b1['order'] - 1 - m for t, m in m1.items()}
        c2 = {t: b2['order'] - 1 - m for t, m in m2.items()}
        into1 = any(t not in c1 or c1[t] > c for t, c in c2.items())
        into2 = any(t not in c2 or c2[t] > c for t, c in c1.items())
        if into1:
            out.append('inserted-into-1')
        if into2:
            out.append('inserted-into-2')
        if not into1 and not into2:
            out.append('nothing-to-insert')
        if any(t in c2 and c2[t] != c for t, c in c1.items()):
            out.append('shared-knot-mult-differs')
        if any(t in c2 for t in c1):
            out.append('shared-knot')
        out.append('p=%d' % p)
    if not anyper:
        out.append('open-only')
    iv = res.get('impl') if res else None
    if isinstance(iv, dict):
        c = max(iv['cond'])
        out.append('cond<1e2' if c < 1e2 else 'cond<1e4' if c < 1e4 else 'cond>=1e4')
    elif isinstance(iv, Err):
        out.append('raises=' + iv.kind)
    mv = res.get('model') if res else None
    if isinstance(mv, list) and len(mv) == 4:
        for j in (2, 3):
            out.append('model-exact-map=' + str(mv[j]))
    return sorted(set(out))


def nontrivial(s, res):
    if s['kind'] == 'compatible':
        return True
    return _requested(s['direction'], len(s['o1']['bases'])) is not None
