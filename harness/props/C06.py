"""C06 — reverse, swap and reparam are exact reparametrisations.

Correspondence: whole call histories over `SplineObject.reverse / swap / reparam` (every direction
spelling, both calling conventions of `reparam`, default arguments, invalid directions / intervals)
on one receiver versus the Lean model `runReHistory` (lean/Splipy/Model/Reparam.lean: `checkDirection`,
`Obj.reverseTok`, `Obj.swapTok`, `Obj.reparamArgs`, `Obj.reparamDirTok` on top of `Basis.reverse`,
`Basis.reparam`, `Obj.reverse`, `Obj.swap`).  Observables after EVERY call (also a failed one, the
receiver may be partially modified): exception class, `returns_self` (the call returned the receiver),
knot vectors, control points, periodicity, rationality.
The model mirrors the code as repaired by 4fe14f6 (`reverse` on a periodic direction flips AND rolls the
control points by k+1; `Obj.reverse = Obj.reverseSpec` is a theorem) and 4f754a8 (`swap` on a curve returns
the receiver, still before validating the directions).

Oracle (model independent, real objects only): before every call the receiver is cloned; after it
  reverse(d):  new(.., a+b-t, ..) == old(.., t, ..) on p+1 points per knot span and at every knot
               (old knot j <-> new knot N-1-j; at C^-1 knots both one-sided values with the sides
               exchanged), domain [a,b] and periodicity unchanged;
  swap(d1,d2): new(.., v, u, ..) == old(.., u, v, ..) on knots and span interiors, bases exchanged;
  reparam:     new(s + (t-a)(e-s)/(b-a)) == old(t), new domain == [s,e] (> 4 ulp of max(|s|,|e|) is a
               failure since the property says "exactly"; 1..4 ulp are counted in the histogram);
  involutions: reverse∘reverse, swap∘swap restore knots (to rounding) and control points (exactly),
               reparam back to the old interval restores the knots (to rounding);
  in-place calls return the receiver; valid arguments never raise;
  objects whose directions were constructed from ONE BSplineBasis instance (`Surface(b, b, cp)`, or `b` and
  `b.clone()`): a direction not named by `reparam` keeps its knots, every named one gets its own interval, and
  the caller's basis objects are unchanged after the whole history;
  end-to-end: the composed parameter map of the whole history relates the final to the initial object.
"""
from fractions import Fraction as F
import ast
import hashlib
import math
import os

import numpy as np

from vlib import gen
from vlib.val import line, Word
from vlib.compare import diff, Err, exc_kind

ID = 'C06'
PYOBJECT_METHODS = ['reverse', 'swap', 'reparam', 'reparam_dir', 'start', 'end']   # splineobject.py methods re-translated and proved equal to the hand model each run
PYBASIS_METHODS = ['reverse', 'reparam', 'normalize', '__iadd__', '__isub__', '__imul__', '__itruediv__']   # basis.py methods re-translated and proved equal to the hand model each run
# theorems of this property stated for the object evaluator `Obj.evaluate` (bridge through C02)
EXTRA_THEOREMS = [('Splipy.Properties.Bridge', 'Splipy/Properties/Bridge.lean', 'Bridge_C06_')]
RTOL = 1e-9
ATOL = 1e-11
RULE = ('histories of 1-6 calls over reverse/swap/reparam on random objects (pardim 1-3, rational or not, open (clamped) / '
        'unclamped or half-clamped non-periodic / periodic directions, orders 1-4, non-square nets); direction spellings 0/1/2, u/v/w, U/V/W, defaults, keywords, invalid '
        '(3, -1, x, uv, "", "0", W on a surface ...); reparam(*tuples) with fewer/equal/more tuples than directions, '
        'reparam(direction=..) with 0/1/2 tuples, tuples of wrong length; intervals: unit, negative, huge (to 2^41), small '
        '(to 2^-10), shifted with |s|/(e-s) up to 2^10, end <= start; surfaces/volumes constructed from one shared basis instance '
        '(or a basis and its clone) in 2-3 directions followed by direction-specific reparam (after swap / reverse).  distinct = distinct protocol lines; non-trivial = at '
        'least one call of the history succeeded and changed or re-labelled the parametrisation.')
REQUIRED_TAGS = ['op=reverse', 'op=swap', 'op=reparam', 'pardim=1', 'pardim=2', 'pardim=3', 'rational', 'periodic-dir',
                 'spell=int', 'spell=lower', 'spell=upper', 'spell=invalid', 'spell=default', 'spell=keyword',
                 'conv=A', 'conv=A-short', 'conv=A-long', 'conv=A-none', 'conv=B', 'conv=B-noargs',
                 'interval=negative', 'interval=huge', 'interval=small', 'interval=invalid', 'interval=bad-arity',
                 'err:ValueError', 'partial-mutation', 'reverse-periodic', 'reverse-nonopen', 'nonopen-dir', 'swap-curve', 'swap-same-dir',
                 'len>=4', 'shared-basis', 'shared-basis:pardim=2', 'shared-basis:pardim=3', 'shared-basis:rational',
                 'shared-basis:polynomial', 'shared-basis:same-instance', 'shared-basis:clone', 'shared-basis:reparam-direction',
                 'shared-basis:reparam-per-direction', 'shared-basis:reparam-after-swap', 'shared-basis:reparam-after-reverse']

CLASS_REVERSE_PERIODIC = 'reverse-periodic-flip-only'
CLASS_SWAP_CURVE = 'swap-curve-returns-none'
CLASS_TINY = 'reparam-tiny-interval-absolute-knot-tolerance'
_CLASSES = [CLASS_REVERSE_PERIODIC, CLASS_SWAP_CURVE, CLASS_TINY]
INCLUDE_TINY = True      # target intervals narrower than ~1e-8: evaluation snaps to knots with the ABSOLUTE tolerance 1e-10
TINY_WIDTH = 1e-7

# ---------------------------------------------------------------------------------------------
# translator: splipy/utils/__init__.py::check_direction  ->  lean/Splipy/Generated/C06.lean
# Accepted shape (anything else FAILS CLOSED: empty table + the offending text as fallback, which breaks
# theorem C06_check_direction_source and therefore the build):
#     def check_direction(direction, pardim):
#         if   direction in {c, c, ...} and K < pardim: return R
#         elif ...
#         raise ValueError(...)

def _lean_tok(c):
    if isinstance(c, bool):
        raise ValueError('bool spelling')
    if isinstance(c, int):
        return '.int %d' % c if c >= 0 else '.int (%d)' % c
    if isinstance(c, str) and '"' not in c and '\\' not in c:
        return '.str "%s"' % c
    raise ValueError('unsupported spelling %r' % (c,))


def _arm(node):
    """`direction in {...} and K < pardim` / `return R`  ->  (tokens, K, R)."""
    t = node.test
    if not (isinstance(t, ast.BoolOp) and isinstance(t.op, ast.And) and len(t.values) == 2):
        raise ValueError('test is not `a and b`')
    mem, bound = t.values
    if not (isinstance(mem, ast.Compare) and len(mem.ops) == 1 and isinstance(mem.ops[0], ast.In)
            and isinstance(mem.left, ast.Name) and mem.left.id == 'direction' and isinstance(mem.comparators[0], ast.Set)
            and all(isinstance(e, ast.Constant) for e in mem.comparators[0].elts)):
        raise ValueError('membership test not of the form `direction in {constants}`')
    if not (isinstance(bound, ast.Compare) and len(bound.ops) == 1 and isinstance(bound.ops[0], ast.Lt)
            and isinstance(bound.left, ast.Constant) and isinstance(bound.left.value, int)
            and isinstance(bound.comparators[0], ast.Name) and bound.comparators[0].id == 'pardim'):
        raise ValueError('bound not of the form `K < pardim`')
    if not (len(node.body) == 1 and isinstance(node.body[0], ast.Return) and isinstance(node.body[0].value, ast.Constant)
            and isinstance(node.body[0].value.value, int) and not isinstance(node.body[0].value.value, bool)):
        raise ValueError('arm body is not `return <int>`')
    toks = [e.value for e in mem.comparators[0].elts]
    return toks, int(bound.left.value), int(node.body[0].value.value)


def translate_check_direction(src):
    """Returns (arms, fallback text, notes)."""
    tree = ast.parse(src)
    fn = next((n for n in tree.body if isinstance(n, ast.FunctionDef) and n.name == 'check_direction'), None)
    if fn is None:
        return [], 'unknown: check_direction not found', ['no function']
    try:
        if [a.arg for a in fn.args.args] != ['direction', 'pardim'] or fn.args.vararg or fn.args.kwarg or fn.args.defaults:
            raise ValueError('signature is not (direction, pardim)')
        body = [n for n in fn.body if not (isinstance(n, ast.Expr) and isinstance(n.value, ast.Constant))]
        if len(body) != 2 or not isinstance(body[0], ast.If):
            raise ValueError('body is not `if-chain; raise`')
        arms = []
        node = body[0]
        while True:
            arms.append(_arm(node))
            if not node.orelse:
                break
            if len(node.orelse) == 1 and isinstance(node.orelse[0], ast.If):
                node = node.orelse[0]
            else:
                raise ValueError('else branch is not an elif')
        last = body[1]
        if not (isinstance(last, ast.Raise) and isinstance(last.exc, ast.Call) and isinstance(last.exc.func, ast.Name)):
            raise ValueError('last statement is not `raise X(...)`')
        for toks, _k, _r in arms:
            for c in toks:
                _lean_tok(c)
        return arms, 'raise ' + last.exc.func.id, []
    except ValueError as e:
        return [], 'unknown: %s' % e, [str(e)]


def regenerate(sp, lean_dir):
    path = os.path.join(os.path.dirname(os.path.abspath(sp.__file__)), 'utils', '__init__.py')
    src = open(path, encoding='utf-8').read()
    arms, fallback, notes = translate_check_direction(src)
    digest = hashlib.sha256(src.encode()).hexdigest()[:16]
    rows = ', '.join('([%s], %d, %d)' % (', '.join(_lean_tok(c) for c in toks), k, r) for toks, k, r in arms)
    out = ('import Splipy.Model.Reparam\n\n'
           '/-! GENERATED by harness/props/C06.py (`regenerate`) from the Python AST of\n'
           '`splipy/utils/__init__.py::check_direction`.  Do not edit.  Arms\n'
           '`if direction in {spellings} and k < pardim: return r` in source order, then the fallback statement. -/\n\n'
           'namespace Splipy.Generated.C06\nopen Splipy\n\n'
           'def checkDirectionArms : List (List DirTok × ℕ × ℕ) :=\n  [%s]\n\n'
           'def checkDirectionFallback : String := "%s"\n\n'
           'end Splipy.Generated.C06\n') % (rows, fallback.replace('\\', '/').replace('"', "'"))
    gdir = os.path.join(lean_dir, 'Splipy', 'Generated')
    os.makedirs(gdir, exist_ok=True)
    gpath = os.path.join(gdir, 'C06.lean')
    old = open(gpath, encoding='utf-8').read() if os.path.exists(gpath) else None
    if old != out:
        tmp = gpath + '.tmp%d' % os.getpid()
        with open(tmp, 'w', encoding='utf-8') as f:
            f.write(out)
        os.replace(tmp, gpath)
    return {'source': 'splipy/utils/__init__.py::check_direction', 'digest': digest, 'arms': arms, 'fallback': fallback, 'notes': notes}


# ---------------------------------------------------------------------------------------------
# the spelling convention of the library documentation (NOT derived from check_direction)

_SPELL = {0: (0, 'u', 'U'), 1: (1, 'v', 'V'), 2: (2, 'w', 'W')}
_INVALID_TOKS = [3, -1, 7, 'x', 'uv', '', '0', '1', 'u0', 'UV', 'z', 'direction']


def _valid_dir(tok, pardim):
    for i, names in _SPELL.items():
        if i >= pardim:
            continue
        if isinstance(tok, bool):
            continue
        if isinstance(tok, int) and tok == names[0]:
            return i
        if isinstance(tok, str) and tok in names[1:]:
            return i
    return None


def _spell_tag(tok, pardim):
    if tok is None:
        return 'spell=default'
    if _valid_dir(tok, pardim) is None:
        return 'spell=invalid'
    if isinstance(tok, int):
        return 'spell=int'
    return 'spell=lower' if tok.islower() else 'spell=upper'


# ---------------------------------------------------------------------------------------------
# generation

def _tok(rng, pardim, d=None, invalid_prob=0.0):
    """A spelling of direction d (random valid direction when None); sometimes an invalid one."""
    if rng.random() < invalid_prob:
        bad = list(_INVALID_TOKS)
        for i in range(pardim, 3):          # valid letters of a direction the object does not have
            bad.extend(_SPELL[i])
        return rng.choice(bad)
    if d is None:
        d = rng.randrange(pardim)
    return rng.choice(_SPELL[d])


def _interval(rng, kind=None):
    """(s, e, kind).  All ends are dyadic; conditioning max(|s|,|e|)/(e-s) <= 2^10."""
    if kind is None:
        kind = rng.choice(['unit', 'plain', 'plain', 'negative', 'negative', 'huge', 'small', 'shifted', 'invalid'])
    if kind == 'unit':
        return 0.0, 1.0, kind
    if kind == 'plain':
        s = gen.dyadic(rng, -4, 4, 2)
        return s, s + rng.randint(1, 40) / 4.0, kind
    if kind == 'negative':
        e = -gen.dyadic(rng, 0, 6, 2)
        return e - rng.randint(1, 40) / 4.0, e, kind
    if kind == 'huge':
        w = 2.0 ** rng.randint(20, 40)
        s = rng.choice([0.0, -w, w, -w / 2, 1.0, -3.0])
        return s, s + w * rng.choice([1.0, 1.5, 2.0]), kind
    if kind == 'small':
        w = 2.0 ** -rng.randint(4, 10)
        s = rng.choice([0.0, 0.0, 1.0, -1.0, 0.5]) * rng.choice([1.0, w * 8])
        return s, s + w * rng.choice([1.0, 3.0]), kind
    if kind == 'shifted':
        w = rng.choice([0.25, 1.0, 3.0, 2.0 ** 10])
        s = w * rng.choice([2.0 ** 6, -2.0 ** 8, 2.0 ** 10 - 1, -2.0 ** 10])
        return s, s + w, kind
    if kind == 'invalid':
        s = gen.dyadic(rng, -4, 4, 2)
        return s, s - rng.choice([0.0, 0.0, 0.25, 1.0, 100.0]), kind
    raise AssertionError(kind)


def _rand_op(rng, pardim, invalid=0.08, kinds=None):
    k = rng.choice(kinds or ['reverse', 'reverse', 'swap', 'reparam', 'reparam'])
    if k == 'reverse':
        r = rng.random()
        if r < 0.12:
            return {'op': 'reverse', 'dir': None}
        op = {'op': 'reverse', 'dir': _tok(rng, pardim, invalid_prob=invalid)}
        if r > 0.88:
            op['kw'] = True
        return op
    if k == 'swap':
        r = rng.random()
        if r < 0.15:
            return {'op': 'swap', 'dirs': []}
        if r < 0.25:
            return {'op': 'swap', 'dirs': [_tok(rng, pardim, invalid_prob=invalid)]}
        d1 = rng.randrange(pardim)
        d2 = rng.randrange(pardim) if rng.random() < 0.15 else rng.choice([d for d in range(pardim) if d != d1] or [d1])
        op = {'op': 'swap', 'dirs': [_tok(rng, pardim, d1, invalid), _tok(rng, pardim, d2, invalid)]}
        if r > 0.9:
            op['kw'] = True
        return op
    # reparam
    if rng.random() < 0.5:
        r = rng.random()
        nargs = pardim if r < 0.5 else rng.randint(0, pardim) if r < 0.9 else pardim + rng.randint(1, 2)
        args = []
        for _ in range(nargs):
            s, e, _k = _interval(rng, 'invalid' if rng.random() < invalid else rng.choice(['unit', 'plain', 'negative', 'huge', 'small', 'shifted']))
            a = [s, e]
            if rng.random() < invalid / 2:
                a = rng.choice([[s], [s, e, e + 1], []])
            args.append(a)
        return {'op': 'reparam', 'args': args}
    r = rng.random()
    nargs = 0 if r < 0.2 else 1 if r < 0.9 else 2
    args = []
    for _ in range(nargs):
        s, e, _k = _interval(rng, 'invalid' if rng.random() < invalid else rng.choice(['unit', 'plain', 'negative', 'huge', 'small', 'shifted']))
        a = [s, e]
        if rng.random() < invalid / 2:
            a = rng.choice([[s], [s, e, e + 1], []])
        args.append(a)
    return {'op': 'reparam', 'args': args, 'direction': _tok(rng, pardim, invalid_prob=invalid)}


def _is_open(b):
    p, kn = b['order'], b['knots']
    return b['periodic'] < 0 and all(x == kn[0] for x in kn[:p]) and all(x == kn[-1] for x in kn[-p:])


def _rand_obj(rng, pardim, periodic_prob=0.35, nonopen_prob=0.3):
    """Random object; non-periodic directions are unclamped / half-clamped with probability nonopen_prob
    (then knots[0]+knots[-1] != start+end in general)."""
    pmax = 4 if pardim < 3 else 3
    max_interior = 3 if pardim == 1 else 2 if pardim == 2 else 1
    dim = rng.choice([2, 3]) if pardim < 3 else 3
    rational = rng.random() < 0.4
    bases = [gen.any_basis(rng, pmax=pmax, periodic_prob=periodic_prob, nonopen_prob=nonopen_prob,
                           n_interior=rng.randint(0, max_interior)) for _ in range(pardim)]
    shape = [gen.basis_info(b)['n'] for b in bases]
    ncomp = dim + (1 if rational else 0)
    return {'bases': bases, 'cps': gen.rand_cps(rng, shape, ncomp, rational), 'rational': bool(rational)}


def _periodic_obj(rng, pardim):
    while True:
        o = _rand_obj(rng, pardim, periodic_prob=0.7)
        if any(b['periodic'] >= 0 for b in o['bases']):
            return o


_LINE = {'bases': [{'order': 2, 'knots': [0.0, 0.0, 1.0, 1.0], 'periodic': -1}], 'cps': [[0.0, 0.0], [1.0, 0.0]], 'rational': False}


def generate(rng, tier):
    specs = []
    # minimal instances of the (former) failure classes come first (they are the ones reported if a defect returns)
    # 1. the instance of theorem C06_reverse_periodic_flip_only_refuted (Properties/C06.lean), replayed on the real code
    specs.append({'family': 'lean-refutation-instance',
                  'obj': {'bases': [{'order': 2, 'knots': [-1.0, 0.0, 1.0, 2.0, 3.0], 'periodic': 0}],
                          'cps': [[0.0], [1.0]], 'rational': False},
                  'ops': [{'op': 'reverse', 'dir': 0}]})
    # 2. Curve().swap() must return the curve
    specs.append({'family': 'curve-swap', 'obj': _LINE, 'ops': [{'op': 'swap', 'dirs': []}]})
    # 3. Curve().reparam((0, 2^-34)): evaluation snaps with the absolute knot tolerance
    if INCLUDE_TINY:
        specs.append({'family': 'tiny-interval', 'obj': _LINE, 'ops': [{'op': 'reparam', 'args': [[0.0, 2.0 ** -34]]}]})
    n = 1500 if tier == 'quick' else 12000
    for i in range(n):
        pardim = [1, 2, 3, 2, 1, 2][i % 6]
        fam = ['single', 'mixed', 'mixed', 'involution', 'invalid', 'mixed-long'][(i // 6) % 6]
        o = _rand_obj(rng, pardim)
        if fam == 'single':
            ops = [_rand_op(rng, pardim, invalid=0.0)]
        elif fam == 'mixed':
            ops = [_rand_op(rng, pardim, invalid=0.04) for _ in range(rng.randint(2, 4))]
        elif fam == 'mixed-long':
            ops = [_rand_op(rng, pardim, invalid=0.03) for _ in range(rng.randint(4, 6))]
        elif fam == 'involution':
            a = _rand_op(rng, pardim, invalid=0.0)
            if a['op'] == 'reparam':
                # there and back: the second call restores the original intervals
                back = [[gen.basis_info(b)['start'], gen.basis_info(b)['end']] for b in o['bases']]
                ops = [a, {'op': 'reparam', 'args': back}]
            else:
                ops = [a, dict(a)]
        else:  # invalid
            ops = [_rand_op(rng, pardim, invalid=0.45) for _ in range(rng.randint(1, 3))]
            ops.append(_rand_op(rng, pardim, invalid=0.0))
        specs.append({'family': fam, 'obj': o, 'ops': ops})
    # directed cases: every spelling of every direction for every op; periodic reverse; curve swap; partial mutation
    for pardim in (1, 2, 3):
        for d in range(pardim):
            for t in _SPELL[d]:
                o = _rand_obj(rng, pardim)
                specs.append({'family': 'spelling', 'obj': o, 'ops': [{'op': 'reverse', 'dir': t}]})
                s, e, _ = _interval(rng, rng.choice(['plain', 'negative', 'huge', 'small']))
                specs.append({'family': 'spelling', 'obj': o, 'ops': [{'op': 'reparam', 'args': [[s, e]], 'direction': t}]})
                for d2 in range(pardim):
                    specs.append({'family': 'spelling', 'obj': o, 'ops': [{'op': 'swap', 'dirs': [t, rng.choice(_SPELL[d2])]}]})
        for t in _INVALID_TOKS[:8] + list(_SPELL[pardim] if pardim < 3 else []):
            o = _rand_obj(rng, pardim)
            specs.append({'family': 'spelling', 'obj': o, 'ops': [{'op': 'reverse', 'dir': t}, {'op': 'swap', 'dirs': [t, 0]},
                                                                    {'op': 'swap', 'dirs': [0, t]},
                                                                    {'op': 'reparam', 'args': [[0.0, 2.0]], 'direction': t}]})
        for _ in range(6 if tier == 'quick' else 60):
            o = _periodic_obj(rng, pardim)
            per = [k for k, b in enumerate(o['bases']) if b['periodic'] >= 0]
            specs.append({'family': 'periodic-reverse', 'obj': o, 'ops': [{'op': 'reverse', 'dir': rng.choice(_SPELL[rng.choice(per)])}]})
        if pardim > 1:
            for _ in range(4 if tier == 'quick' else 40):
                o = _rand_obj(rng, pardim)
                args = [[0.0, 2.0]] * pardim
                bad = rng.randrange(1, pardim)
                args = [list(a) for a in args]
                args[bad] = [3.0, 1.0]
                specs.append({'family': 'partial-mutation', 'obj': o, 'ops': [{'op': 'reparam', 'args': args}, _rand_op(rng, pardim, 0.0)]})
    if INCLUDE_TINY:
        for i in range(3 if tier == 'quick' else 30):
            pardim = 1 + i % 3
            o = _rand_obj(rng, pardim, periodic_prob=0.0)
            w = 2.0 ** -rng.randint(30, 40)
            s0 = rng.choice([0.0, 0.0, w * 16])
            specs.append({'family': 'tiny-interval', 'obj': o,
                          'ops': [{'op': 'reparam', 'args': [[s0, s0 + w]], 'direction': rng.randrange(pardim)}]})
    # objects whose directions were constructed from ONE basis instance (or a basis and its clone): every direction
    # must still be re-parametrised on its own
    for i in range(36 if tier == 'quick' else 400):
        pardim = 2 + i % 2
        share = rng.choice([[0, 0]] if pardim == 2 else [[0, 0, 0], [0, 1, 0], [0, 0, 1], [1, 0, 0]])
        groups = {}
        for g in share:
            if g not in groups:
                groups[g] = gen.any_basis(rng, pmax=3, periodic_prob=0.25, nonopen_prob=0.25, n_interior=rng.randint(0, 2))
        bases = [dict(groups[g], knots=list(groups[g]['knots'])) for g in share]
        rational = bool(i % 4 >= 2)
        dim = 3 if pardim == 3 else rng.choice([2, 3])
        o = {'bases': bases, 'cps': gen.rand_cps(rng, [gen.basis_info(b)['n'] for b in bases], dim + (1 if rational else 0), rational),
             'rational': rational}
        shared_dirs = [d for d in range(pardim) if share.count(share[d]) > 1]
        ops = []
        pre = [None, 'swap', 'reverse', 'swap', None, 'reverse'][i % 6]
        if pre == 'swap':
            d1 = rng.choice(shared_dirs)
            d2 = rng.choice([d for d in range(pardim) if d != d1])
            ops.append({'op': 'swap', 'dirs': [_tok(rng, pardim, d1), _tok(rng, pardim, d2)]})
        elif pre == 'reverse':
            ops.append({'op': 'reverse', 'dir': _tok(rng, pardim, rng.choice(shared_dirs if i % 12 < 6 else list(range(pardim))))})
        kind = rng.choice(['plain', 'negative', 'huge', 'small', 'shifted'])
        if i % 3 != 2:
            d = rng.choice(list(range(pardim)) if pre == 'swap' else shared_dirs)
            s0, e0, _k = _interval(rng, kind)
            ops.append({'op': 'reparam', 'args': [[s0, e0]], 'direction': _tok(rng, pardim, d)})
        else:
            args = []
            for _d in range(pardim):
                s0, e0, _k = _interval(rng, rng.choice(['plain', 'negative', 'small', 'shifted']))
                args.append([s0 + 0.5 * _d, e0 + 1.25 * _d + 0.5 * _d])
            ops.append({'op': 'reparam', 'args': args})
        for _ in range(rng.randint(0, 2)):
            ops.append(_rand_op(rng, pardim, invalid=0.0))
        spec = {'family': 'shared-basis', 'obj': o, 'ops': ops, 'share': share}
        if i % 5 == 4:
            spec['share_clone'] = True
        specs.append(spec)
    for _ in range(4 if tier == 'quick' else 40):
        o = _rand_obj(rng, 1, periodic_prob=0.0)
        specs.append({'family': 'curve-swap', 'obj': o, 'ops': [{'op': 'swap', 'dirs': rng.choice([[], [0, 1], ['u', 'v'], ['x', 9]])}]})
    return specs


# ---------------------------------------------------------------------------------------------
# protocol

def _enc_tok(t):
    if isinstance(t, str):
        return Word('s:' + t)
    return int(t)


def _enc_op(op):
    k = op['op']
    if k == 'reverse':
        return [Word('reverse'), _enc_tok(0 if op.get('dir') is None else op['dir'])]
    if k == 'swap':
        d = list(op['dirs']) + [0, 1][len(op['dirs']):]
        return [Word('swap'), _enc_tok(d[0]), _enc_tok(d[1])]
    if 'direction' in op:
        return [Word('reparamdir'), _enc_tok(op['direction']), [list(a) for a in op['args']]]
    return [Word('reparam'), [list(a) for a in op['args']]]


def model_line(s):
    return line('c06_history', gen.enc_object(s['obj']), [_enc_op(op) for op in s['ops']])


def _call(obj, op):
    k = op['op']
    if k == 'reverse':
        if op.get('dir') is None:
            return obj.reverse()
        if op.get('kw'):
            return obj.reverse(direction=op['dir'])
        return obj.reverse(op['dir'])
    if k == 'swap':
        d = op['dirs']
        if op.get('kw') and len(d) == 2:
            return obj.swap(dir1=d[0], dir2=d[1])
        return obj.swap(*d)
    args = [tuple(a) for a in op['args']]
    if 'direction' in op:
        return obj.reparam(*args, direction=op['direction'])
    return obj.reparam(*args)


def _mk_object(sp, s, keep=None):
    """Real object of a spec.  `s['share']` (optional) = one group id per direction: directions of the same
    group are constructed from ONE BSplineBasis instance (`Surface(b, b, cp)`), or — `s['share_clone']` — from
    `b` and `b.clone()`.  The caller's basis objects are appended to `keep` (they must not be touched by any
    operation on the object)."""
    o = s['obj']
    share = s.get('share')
    if not share:
        return gen.mk_object(sp, o)
    first = {}
    bases = []
    for d, g in enumerate(share):
        if g not in first:
            first[g] = gen.mk_basis(sp, o['bases'][d])
            bases.append(first[g])
        else:
            bases.append(first[g].clone() if s.get('share_clone') else first[g])
    if keep is not None:
        keep.extend(bases)
    cps = np.array(o['cps'], dtype=float)
    cls = {1: sp.Curve, 2: sp.Surface, 3: sp.Volume}[len(bases)]
    return cls(*bases, cps, o['rational'], raw=True)


def run_impl(sp, s):
    obj = _mk_object(sp, s)
    out = []
    for op in s['ops']:
        try:
            ret = _call(obj, op)
            status = 'ok'
        except Exception as e:  # noqa: BLE001 - the class is the observable
            ret = None
            status = Err(exc_kind(e), str(e)[:120])
        out.append([status, bool(ret is obj), gen.obj_observables(obj)])
    return out


def compare(s, iv, mv):
    if isinstance(iv, Err) or not isinstance(mv, list):
        return diff(iv, mv, RTOL, ATOL)
    if len(iv) != len(mv):
        return 'history length impl %d vs model %d' % (len(iv), len(mv))
    for i, (a, b) in enumerate(zip(iv, mv)):
        path = '$[%d:%s]' % (i, s['ops'][i]['op'])
        d = diff(a[0], b[0], path=path + '.status') or diff(a[1], b[1], path=path + '.returns_self')
        if d:
            return d
        ia, ib = a[2], b[2]
        if not isinstance(ib, list) or len(ib) != 4:
            return path + ': malformed model object'
        if len(ia[0]) != len(ib[0]):
            return path + ': number of bases impl %d vs model %d' % (len(ia[0]), len(ib[0]))
        for k, (ba, bb) in enumerate(zip(ia[0], ib[0])):
            # every knot vector against its own scale
            d = diff(ba, bb, RTOL, ATOL, path='%s.basis[%d]' % (path, k))
            if d:
                return d
        d = (diff(ia[1], ib[1], path=path + '.shape') or diff(ia[2], ib[2], RTOL, ATOL, path=path + '.cps')
             or diff(ia[3], ib[3], path=path + '.rational'))
        if d:
            return d
    return None


# ---------------------------------------------------------------------------------------------
# oracle helpers (real objects only)

def _ulp_excess(x, want, scale):
    """|x - want| in units of ulp(scale)."""
    u = math.ulp(max(abs(scale), 2.0 ** -1000))
    return abs(float(x) - float(want)) / u


def _distinct(knots, lo, hi):
    out = []
    for x in knots:
        x = float(x)
        if x < lo or x > hi:
            continue
        if not out or x > out[-1]:
            out.append(x)
    return out


def _knot_rows(b):
    """For every distinct knot value inside the domain: (value, first index, multiplicity)."""
    kn = [float(x) for x in b.knots]
    lo, hi = float(b.start()), float(b.end())
    rows = []
    i = 0
    while i < len(kn):
        j = i
        while j + 1 < len(kn) and kn[j + 1] == kn[i]:
            j += 1
        if lo <= kn[i] <= hi:
            rows.append((kn[i], i, j - i + 1))
        i = j + 1
    return rows


def _interior(b, per_span):
    lo, hi = float(b.start()), float(b.end())
    ks = _distinct(b.knots, lo, hi)
    pts = []
    for x, y in zip(ks[:-1], ks[1:]):
        for j in range(per_span):
            f = (j + 1.0) / (per_span + 1.0)
            # not the midpoint pattern only: skew so that t and a+b-t are different sample sets
            f = f * f * 0.75 + f * 0.25
            pts.append(x + (y - x) * f)
    return pts


def _sided(obj, params, rights):
    """Defining tensor contraction with explicit sides, from the real basis matrices."""
    res = np.asarray(obj.controlpoints, dtype=float)
    for ax, (b, p, r) in enumerate(zip(obj.bases, params, rights)):
        N = np.asarray(b.evaluate(list(p), 0, bool(r)), dtype=float).reshape(len(p), -1)
        res = np.moveaxis(np.tensordot(N, res, axes=(1, ax)), 0, ax)
    if obj.rational:
        res = res[..., :-1] / res[..., -1:]
    return res


def _close(a, b, tol=1e-9):
    a = np.asarray(a, dtype=float)
    b = np.asarray(b, dtype=float)
    if a.shape != b.shape:
        return False, float('inf')
    if a.size == 0:
        return True, 0.0
    if not (np.all(np.isfinite(a)) and np.all(np.isfinite(b))):
        return False, float('nan')
    scale = max(1.0, float(np.max(np.abs(b))))
    err = float(np.max(np.abs(a - b)))
    return err <= tol * scale, err


def _grid(obj, params):
    shape = tuple(len(p) for p in params) + (obj.dimension,)
    return np.asarray(obj.evaluate(*[list(p) for p in params]), dtype=float).reshape(shape)


def _sparse_params(obj, skip=()):
    """A few parameters per direction (one knot, span interiors) for the directions not under test."""
    ps = []
    for d, b in enumerate(obj.bases):
        if d in skip:
            ps.append(None)
            continue
        pts = _interior(b, 1)[:3]
        pts.append(float(b.start()))
        ps.append(pts)
    return ps


def _dir_pairs(old_b, new_b, fwd, reverse):
    """Parameter pairs (t_old, t_new) of one direction: p+1 points per span mapped by `fwd`, every knot
    mapped BY INDEX to the corresponding new knot (j -> N-1-j when reversed).  Knots where the old
    basis is discontinuous (multiplicity >= order, not a domain end of an open basis) are returned
    separately: there the one-sided values correspond."""
    p = int(old_b.order)
    N = len(old_b.knots)
    reg = [(t, fwd(t)) for t in _interior(old_b, p + 1)]
    jumps = []
    lo, hi = float(old_b.start()), float(old_b.end())
    for val, first, mult in _knot_rows(old_b):
        j_new = (N - 1 - first) if reverse else first
        tn = float(new_b.knots[j_new])
        is_end = (val == lo or val == hi)
        if mult >= p and not (is_end and old_b.periodic < 0):
            jumps.append((val, tn))
        else:
            reg.append((val, tn))
    return reg, jumps


def _check_relation(old, new, maps, tag, what):
    """Never raises: an exception of the real code while evaluating is itself a failure."""
    try:
        with np.errstate(all='ignore'):
            return _check_relation_raw(old, new, maps, tag, what)
    except Exception as e:  # noqa: BLE001
        return ['%s%s: evaluating old/new object at the mapped parameters raised %s: %s' % (tag, what, exc_kind(e), str(e)[:80])]


def _check_relation_raw(old, new, maps, tag, what):
    """maps: {new direction: (old direction, fwd, reverse)} for the directions that change; the others are
    identical.  Only one direction may be `reverse`d or have jumps checked at a time (others sparse)."""
    fails = []
    pd = old.pardim
    perm = list(range(pd))      # new direction -> old direction
    for dn, (do, _f, _r) in maps.items():
        perm[dn] = do
    P_old = _sparse_params(old)
    P_new = [None] * pd
    for dn in range(pd):
        P_new[dn] = list(P_old[perm[dn]])
    jump_dirs = []
    for dn, (do, fwd, rev) in maps.items():
        if fwd is None:
            continue
        reg, jumps = _dir_pairs(old.bases[do], new.bases[dn], fwd, rev)
        P_old[do] = [a for a, _ in reg]
        P_new[dn] = [b for _, b in reg]
        if jumps:
            jump_dirs.append((dn, do, jumps, rev))
    G_old = _grid(old, P_old)
    G_new = _grid(new, P_new)
    # bring the new grid into the old direction order
    G_new_o = np.transpose(G_new, [perm.index(k) for k in range(pd)] + [pd])
    ok, err = _close(G_new_o, G_old)
    if not ok:
        fails.append('%s%s: evaluation at the mapped parameters differs from the old object (max |diff| %.3g over %d points)'
                     % (tag, what, err, G_old.size // max(1, old.dimension)))
    for dn, do, jumps, rev in jump_dirs:
        for side in (True, False):
            Po = [list(p) for p in P_old]
            Pn = [list(p) for p in P_new]
            Po[do] = [a for a, _ in jumps]
            Pn[dn] = [b for _, b in jumps]
            ro = [True] * pd
            rn = [True] * pd
            ro[do] = side
            rn[dn] = (not side) if rev else side
            So = _sided(old, Po, ro)
            Sn = np.transpose(_sided(new, Pn, rn), [perm.index(k) for k in range(pd)] + [pd])
            ok, err = _close(Sn, So)
            if not ok:
                fails.append('%s%s: one-sided values at discontinuous knots differ (side %s, max |diff| %.3g)'
                             % (tag, what, 'right' if side else 'left', err))
    return fails


def _semantics(op, pardim):
    """What the call MEANS by the documented convention; None components = invalid argument."""
    k = op['op']
    if k == 'reverse':
        d = _valid_dir(0 if op.get('dir') is None else op['dir'], pardim)
        return {'kind': 'reverse', 'valid': d is not None, 'd': d}
    if k == 'swap':
        ds = list(op['dirs']) + [0, 1][len(op['dirs']):]
        if pardim == 1:
            return {'kind': 'swap', 'valid': True, 'noop': True}
        d1, d2 = _valid_dir(ds[0], pardim), _valid_dir(ds[1], pardim)
        return {'kind': 'swap', 'valid': d1 is not None and d2 is not None, 'd1': d1, 'd2': d2, 'noop': False}
    if 'direction' in op:
        d = _valid_dir(op['direction'], pardim)
        a = op['args'][0] if op['args'] else [0.0, 1.0]
        ok = d is not None and len(a) == 2 and a[1] > a[0]
        return {'kind': 'reparam', 'valid': ok, 'targets': {d: (a[0], a[1])} if ok else {}, 'partial': False}
    targets = {}
    ok = True
    for d in range(pardim):
        a = op['args'][d] if d < len(op['args']) else [0.0, 1.0]
        if len(a) != 2 or not a[1] > a[0]:
            ok = False
            break
        targets[d] = (a[0], a[1])
    return {'kind': 'reparam', 'valid': ok, 'targets': targets if ok else {}, 'partial': (not ok) and len(targets) > 0}


def _same_state(a, b, knot_tol=1e-12):
    """Knots equal to rounding (relative to the domain scale), control points exactly, flags equal."""
    msgs = []
    for d, (x, y) in enumerate(zip(a.bases, b.bases)):
        if x.order != y.order or x.periodic != y.periodic or len(x.knots) != len(y.knots):
            msgs.append('basis %d changed order/periodicity/length' % d)
            continue
        kx = np.asarray(x.knots, dtype=float)
        ky = np.asarray(y.knots, dtype=float)
        scale = max(1.0, float(np.max(np.abs(ky))))
        if float(np.max(np.abs(kx - ky))) > knot_tol * scale:
            msgs.append('knots of direction %d differ by %.3g' % (d, float(np.max(np.abs(kx - ky)))))
    if a.controlpoints.shape != b.controlpoints.shape or not np.array_equal(a.controlpoints, b.controlpoints):
        msgs.append('control points differ')
    if a.rational != b.rational:
        msgs.append('rational flag differs')
    return msgs


def oracle(sp, s):
    fails = []
    user_bases = []
    obj = _mk_object(sp, s, keep=user_bases)
    orig = obj.clone()
    pd = obj.pardim
    # composed map: current direction j shows original direction track[j][0] with t_cur = al*t_orig + be
    track = [[d, F(1), F(0)] for d in range(pd)]
    track_ok = True
    for i, op in enumerate(s['ops']):
        sem = _semantics(op, pd)
        old = obj.clone()
        where = 'call %d %s' % (i, _describe(op))
        try:
            ret = _call(obj, op)
            raised = None
        except Exception as e:  # noqa: BLE001
            ret = None
            raised = e
        if raised is not None:
            if sem['valid']:
                fails.append('%s raised %s on valid arguments: %s' % (where, exc_kind(raised), str(raised)[:80]))
                track_ok = False
            elif _same_state(obj, old):
                track_ok = False        # partially applied (not constrained by the property)
            continue
        if not sem['valid']:
            # accepted an argument outside the documented convention: nothing to relate
            if _same_state(obj, old):
                track_ok = False
            continue
        # ---- return value convention
        if ret is not obj:
            tag = '[%s] ' % CLASS_SWAP_CURVE if (sem['kind'] == 'swap' and pd == 1 and ret is None) else ''
            fails.append('%s%s returned %s instead of the receiver' % (tag, where, type(ret).__name__))
        # ---- the reparametrisation relation
        step_fail = []
        if sem['kind'] == 'reverse':
            d = sem['d']
            a, b = float(old.start(d)), float(old.end(d))
            per = old.bases[d].periodic >= 0
            tag = '[%s] ' % CLASS_REVERSE_PERIODIC if per else ''
            step_fail += _check_relation(old, obj, {d: (d, lambda t, a=a, b=b: a + b - t, True)}, tag, where)
            na, nb = float(obj.start(d)), float(obj.end(d))
            sc = max(abs(a), abs(b))
            if _ulp_excess(na, a, sc) > 4 or _ulp_excess(nb, b, sc) > 4:
                step_fail.append('%s: domain changed from [%r,%r] to [%r,%r]' % (where, a, b, na, nb))
            if obj.bases[d].periodic != old.bases[d].periodic or obj.bases[d].order != old.bases[d].order:
                step_fail.append('%s: periodicity or order changed' % where)
            kk = np.asarray(obj.bases[d].knots, dtype=float)
            if np.any(np.diff(kk) < 0):
                step_fail.append('%s: reversed knot vector is not sorted' % where)
            # involution
            twice = obj.clone()
            twice.reverse(d)
            m = _same_state(twice, old)
            if m:
                step_fail.append('%s: reverse∘reverse is not the identity (%s)' % (where, '; '.join(m)))
            be = F(a) + F(b)
            track[d] = [track[d][0], -track[d][1], be - track[d][2]]
        elif sem['kind'] == 'swap':
            if sem['noop']:
                m = _same_state(obj, old, knot_tol=0.0)
                if m:
                    step_fail.append('%s: swap on a curve changed it (%s)' % (where, '; '.join(m)))
            else:
                d1, d2 = sem['d1'], sem['d2']
                # dense point set (knots + span interiors) in the two swapped directions
                ident = (lambda t: t)
                maps = {d1: (d2, ident, False), d2: (d1, ident, False)} if d1 != d2 else {d1: (d1, ident, False)}
                step_fail += _check_relation(old, obj, maps, '', where)
                for dn in range(pd):
                    do = d2 if dn == d1 else d1 if dn == d2 else dn
                    x, y = obj.bases[dn], old.bases[do]
                    if x.order != y.order or x.periodic != y.periodic or not np.array_equal(np.asarray(x.knots), np.asarray(y.knots)):
                        step_fail.append('%s: basis of new direction %d is not the old basis of direction %d' % (where, dn, do))
                twice = obj.clone()
                twice.swap(d1, d2)
                m = _same_state(twice, old, knot_tol=0.0)
                if m:
                    step_fail.append('%s: swap∘swap is not the identity (%s)' % (where, '; '.join(m)))
                track[d1], track[d2] = track[d2], track[d1]
        else:
            maps = {}
            for d, (ns, ne) in sem['targets'].items():
                a, b = float(old.start(d)), float(old.end(d))
                maps[d] = (d, (lambda t, a=a, b=b, ns=ns, ne=ne: ns + (t - a) * (ne - ns) / (b - a)), False)
            # directions not named keep their basis
            for d in range(pd):
                if d not in sem['targets']:
                    if not np.array_equal(np.asarray(obj.bases[d].knots), np.asarray(old.bases[d].knots)):
                        step_fail.append('%s: direction %d was not named but its knots changed' % (where, d))
            tiny = any(float(o_.end(d)) - float(o_.start(d)) < TINY_WIDTH for o_ in (old, obj) for d in range(pd))
            step_fail += _check_relation(old, obj, maps, '[%s] ' % CLASS_TINY if tiny else '', where)
            for d, (ns, ne) in sem['targets'].items():
                sc = max(abs(ns), abs(ne))
                xs, xe = _ulp_excess(obj.start(d), ns, sc), _ulp_excess(obj.end(d), ne, sc)
                if xs > 4 or xe > 4:
                    step_fail.append('%s: new domain of direction %d is [%r,%r], requested [%r,%r] (%.3g / %.3g ulp)'
                                     % (where, d, float(obj.start(d)), float(obj.end(d)), ns, ne, xs, xe))
                if obj.bases[d].periodic != old.bases[d].periodic or obj.bases[d].order != old.bases[d].order:
                    step_fail.append('%s: periodicity or order changed' % where)
                if np.any(np.diff(np.asarray(obj.bases[d].knots, dtype=float)) < 0):
                    step_fail.append('%s: new knot vector is not sorted' % where)
            if not np.array_equal(obj.controlpoints, old.controlpoints):
                step_fail.append('%s: reparam changed the control points' % where)
            # invertible: back to the old intervals
            back = obj.clone()
            for d in sem['targets']:
                back.reparam((float(old.start(d)), float(old.end(d))), direction=d)
            kappa = max([1.0] + [max(abs(ns), abs(ne)) / (ne - ns) for ns, ne in sem['targets'].values()]
                        + [max(abs(float(old.start(d))), abs(float(old.end(d)))) / (float(old.end(d)) - float(old.start(d))) for d in sem['targets']])
            m = _same_state(back, old, knot_tol=1e-14 * kappa + 1e-13)
            if m:
                step_fail.append('%s: reparam back to the old interval does not restore the object (%s)' % (where, '; '.join(m)))
            for d, (ns, ne) in sem['targets'].items():
                a, b = F(float(old.start(d))), F(float(old.end(d)))
                r = (F(ne) - F(ns)) / (b - a)
                track[d] = [track[d][0], track[d][1] * r, F(ns) + (track[d][2] - a) * r]
        if step_fail:
            track_ok = False
        fails += step_fail
    # ---- the basis objects the caller constructed the object from are the caller's: no operation may touch them
    for d, ub in enumerate(user_bases):
        want = s['obj']['bases'][d]
        kn = [float(x) for x in ub.knots]
        if kn != [float(x) for x in want['knots']] or int(ub.order) != want['order'] or int(ub.periodic) != want['periodic']:
            fails.append("whole history: the caller's basis object passed for direction %d was modified (knots now %s...)"
                         % (d, ', '.join('%g' % x for x in kn[:4])))
            break
    # ---- end-to-end: the composed parameter map relates the final to the initial object
    if track_ok and not fails:
        P_orig = [_interior(b, 2) for b in orig.bases]
        P_fin = [None] * pd
        for j in range(pd):
            do, al, be = track[j]
            P_fin[j] = [float(al * F(t) + be) for t in P_orig[do]]
        perm = [track[j][0] for j in range(pd)]
        G0 = _grid(orig, P_orig)
        G1 = np.transpose(_grid(obj, P_fin), [perm.index(k) for k in range(pd)] + [pd])
        ok, err = _close(G1, G0, tol=1e-8)
        if not ok:
            fails.append('whole history: final object at the composed parameter map differs from the initial object (max |diff| %.3g)' % err)
    return fails


def _describe(op):
    k = op['op']
    if k == 'reverse':
        return 'reverse(%s)' % ('' if op.get('dir') is None else repr(op['dir']))
    if k == 'swap':
        return 'swap(%s)' % ', '.join(repr(t) for t in op['dirs'])
    a = ', '.join(repr(tuple(x)) for x in op['args'])
    if 'direction' in op:
        return 'reparam(%s%sdirection=%r)' % (a, ', ' if a else '', op['direction'])
    return 'reparam(%s)' % a


# ---------------------------------------------------------------------------------------------
# classification, tags

def classify(s, res=None):
    """Label of the known defect class when EVERY oracle message of the case belongs to one."""
    msgs = (res or {}).get('oracle') or []
    if not msgs:
        # no oracle verdict available (e.g. called on a bare spec): structural guess
        return None
    found = []
    for m in msgs:
        cls = [c for c in _CLASSES if m.startswith('[%s]' % c)]
        if not cls:
            return None
        if cls[0] not in found:
            found.append(cls[0])
    for c in _CLASSES:
        if c in found:
            return c
    return None


def _interval_tags(a):
    out = []
    if len(a) != 2:
        return ['interval=bad-arity']
    s, e = a
    if not e > s:
        return ['interval=invalid']
    if e <= 0:
        out.append('interval=negative')
    if e - s >= 2.0 ** 20:
        out.append('interval=huge')
    if e - s < TINY_WIDTH:
        out.append('interval=tiny')
    elif e - s <= 2.0 ** -4:
        out.append('interval=small')
    if max(abs(s), abs(e)) / (e - s) >= 2.0 ** 6:
        out.append('interval=shifted')
    return out


def tags(s, res):
    o = s['obj']
    pd = len(o['bases'])
    out = {'pardim=%d' % pd, 'family=' + s['family']}
    if o['rational']:
        out.add('rational')
    if any(b['periodic'] >= 0 for b in o['bases']):
        out.add('periodic-dir')
    if any(b['periodic'] < 0 and not _is_open(b) for b in o['bases']):
        out.add('nonopen-dir')
    if len(s['ops']) >= 4:
        out.add('len>=4')
    if s.get('share'):
        out.add('shared-basis')
        out.add('shared-basis:pardim=%d' % pd)
        out.add('shared-basis:rational' if o['rational'] else 'shared-basis:polynomial')
        out.add('shared-basis:clone' if s.get('share_clone') else 'shared-basis:same-instance')
        seen = set()
        for op in s['ops']:
            if op['op'] == 'reparam':
                out.add('shared-basis:reparam-direction' if 'direction' in op else 'shared-basis:reparam-per-direction')
                if 'swap' in seen:
                    out.add('shared-basis:reparam-after-swap')
                if 'reverse' in seen:
                    out.add('shared-basis:reparam-after-reverse')
                break
            seen.add(op['op'])
    for op in s['ops']:
        k = op['op']
        out.add('op=' + k)
        if k == 'reverse':
            out.add(_spell_tag(op.get('dir'), pd))
            if op.get('kw'):
                out.add('spell=keyword')
        elif k == 'swap':
            if pd == 1:
                out.add('swap-curve')
            if len(op['dirs']) < 2:
                out.add('spell=default')
            for t in op['dirs']:
                out.add(_spell_tag(t, pd))
            ds = list(op['dirs']) + [0, 1][len(op['dirs']):]
            d1, d2 = _valid_dir(ds[0], pd), _valid_dir(ds[1], pd)
            if pd > 1 and d1 is not None and d1 == d2:
                out.add('swap-same-dir')
            if op.get('kw'):
                out.add('spell=keyword')
        else:
            if 'direction' in op:
                out.add('conv=B' if op['args'] else 'conv=B-noargs')
                if len(op['args']) > 1:
                    out.add('conv=B-extra')
                out.add(_spell_tag(op['direction'], pd))
                out.add('spell=keyword')
                for a in op['args'][:1]:
                    out.update(_interval_tags(a))
            else:
                n = len(op['args'])
                out.add('conv=A-none' if n == 0 else 'conv=A-short' if n < pd else 'conv=A' if n == pd else 'conv=A-long')
                for a in op['args'][:pd]:
                    out.update(_interval_tags(a))
    impl = (res or {}).get('impl')
    if isinstance(impl, list):
        prev_knots = [list(b['knots']) for b in o['bases']]
        prev_per = [b['periodic'] for b in o['bases']]
        prev_open = [_is_open(b) for b in o['bases']]
        for op, st in zip(s['ops'], impl):
            if isinstance(st, list) and st and isinstance(st[0], Err):
                out.add('err:' + st[0].kind)
                now = [list(b[1]) for b in st[2][0]]
                if now != prev_knots:
                    out.add('partial-mutation')
            if isinstance(st, list) and st and st[0] == 'ok' and op['op'] == 'reverse':
                d = _valid_dir(0 if op.get('dir') is None else op['dir'], pd)
                if d is not None and prev_per[d] >= 0:
                    out.add('reverse-periodic')
                if d is not None and prev_per[d] < 0 and not prev_open[d]:
                    out.add('reverse-nonopen')
            if isinstance(st, list) and len(st) == 3:
                prev_knots = [list(b[1]) for b in st[2][0]]
                prev_per = [b[2] for b in st[2][0]]
                prev_open = [_is_open({'order': b[0], 'knots': b[1], 'periodic': b[2]}) for b in st[2][0]]
    return sorted(out)


def nontrivial(s, res):
    impl = (res or {}).get('impl')
    if not isinstance(impl, list):
        return False
    for op, st in zip(s['ops'], impl):
        if isinstance(st, list) and st and st[0] == 'ok' and not (op['op'] == 'swap' and len(s['obj']['bases']) == 1):
            return True
    return False
