"""C08 — periodic objects are genuinely periodic and convert losslessly.

Correspondence: `SplineObject.make_periodic` (argument checks, weighted merge, truncation),
`lower_periodic` (insert at start, roll, decrement, drop last knot), the round trip
`split(start).make_periodic(k)`, the periodic validation of `BSplineBasis.__init__`, and evaluation
at seam / shifted parameters (`obj_eval` of the C02 driver: the wrap in `basis_eval`) versus the Lean
model (`Model/Periodic.lean`, `Model/BasisOps.lean`).
Oracle (model independent): obj(t) = obj(t + mT) incl. the seam and start + mT ± small offsets;
one-sided derivatives of order 0..k at the seam (real `derivative` with above=True at start against
above=False at end, and the exact definition on the object's own knots / control points); literal
knot / control-point comparison after open-at-the-seam + close; evaluated map unchanged by
`lower_periodic` to every k' < k, raising rejected; every periodic basis the constructor accepts
(incl. vectors whose seam multiplicity does not match the declared continuity) is put through the
periodicity and seam oracles with fixed control points.
"""
from fractions import Fraction as F
import itertools

import numpy as np

from vlib import gen, exact
from vlib.val import line, Word
from vlib.compare import diff, Err
from props.C07 import ExactObj, span_points, check_piece

ID = 'C08'
PYOBJECT_METHODS = ['lower_periodic', 'make_periodic', 'make_periodic_c', 'split']   # splineobject.py methods re-translated and proved equal to the hand model each run
PYBASIS_METHODS = ['make_periodic', 'roll']   # basis.py methods re-translated and proved equal to the hand model each run
RTOL = 1e-9
ATOL = 1e-11
RULE = ('periodic bases of every (order 2..6, continuity 0..p-2), minimum sizes, uniform and non-uniform, affine placement; curves, '
        'surfaces and volumes periodic in any subset of directions, rational or not; parameters: knots, span interiors, seam, '
        'start + mT ± 2^-20 T for m in -3..5; round trip split(start)+make_periodic(k) for every (p,k); lower_periodic to every '
        'k\' in -1..k and raising; from-LEFT rows / derivatives (above=False) at seam and interior knots shifted by m in {-2,-1,2,3} periods; make_periodic error branches; constructor: valid, mismatching, and accepted-but-not-periodic '
        'vectors.  non-trivial = the property makes a claim (everything but pure error branches).')
REQUIRED_TAGS = ['eval', 'eval:shifted', 'eval:seam', 'eval:offset', 'seam', 'seam:k>=2', 'roundtrip', 'roundtrip:k>=2', 'roundtrip:k<=1',
                 'roundtrip:dir>0', 'lower', 'lower:to-open', 'lower:raise', 'make_periodic', 'make_periodic:error', 'ctor',
                 'ctor:rejected', 'ctor:accepted-invalid', 'rational', 'pardim=2', 'pardim=3', 'periodic-small', 'p=6',
                 'leftshift', 'leftshift:seam-start', 'leftshift:seam-end', 'leftshift:interior-knot', 'leftshift:m<0', 'leftshift:m>=2',
                 'leftshift:d>=1', 'leftshift:pardim>1']


# ---------------------------------------------------------------------------------------------
# generation

def _periodic_object(rng, pardim, per_dirs, pk=None, pmax=4, small=False, rational=None, uniform=False):
    bases = []
    for d in range(pardim):
        if d in per_dirs:
            if pk is not None:
                p, k = pk
            else:
                p = rng.randint(2, pmax)
                k = rng.randint(0, p - 2)
            ni = rng.choice([0, 0, 1]) if small else rng.randint(max(1, p + k - (p - 1 - k) - 1), p + k + 2)
            b = gen.periodic_basis(rng, p, k, n_interior=ni, max_mult=1 if (uniform or rng.random() < 0.5) else None)
            if uniform:
                info = gen.basis_info(b)
                n = info['n']
                m0 = p - 1 - k
                # rebuild truly uniform: distinct knots 0..L-1, seam multiplicity m0
                L = max(1, n - m0 + 1)
                pattern = [0.0] * m0 + [float(i) for i in range(1, L)]
                T = float(L)
                Lp = len(pattern)
                kn = [pattern[j % Lp] + T * (j // Lp) for j in range(-(k + 1), Lp + m0 + k + 1)]
                b = {'order': p, 'knots': kn, 'periodic': k}
            bases.append(b)
        else:
            bases.append(gen.open_basis(rng, rng.randint(1, min(3, pmax)), n_interior=rng.randint(0, 1)))
    shape = [gen.basis_info(b)['n'] for b in bases]
    if rational is None:
        rational = rng.random() < 0.35
    dim = rng.choice([2, 3]) if pardim < 3 else 3
    return {'bases': bases, 'cps': gen.rand_cps(rng, shape, dim + rational, rational), 'rational': bool(rational)}


def _fixed_cps(n, dim=2):
    return [[float((3 * i * i + i) % 7) - 2.0, float((5 * i + 1) % 4) * 0.5] for i in range(n)]


def _eval_spec(rng, o):
    params, base, what = [], [], set()
    for d, b in enumerate(o['bases']):
        info = gen.basis_info(b)
        T = info['end'] - info['start']
        pts = gen.eval_points(rng, b, per_span=1, outside=False)
        rng.shuffle(pts)
        pts = pts[:3]
        if b['periodic'] >= 0:
            pts += [info['start'], info['end']]
            bs, ps = [], []
            for t in pts:
                m = rng.choice([-3, -2, -1, 0, 1, 2, 5])
                eps = rng.choice([0.0, 0.0, T * 2.0 ** -20, -T * 2.0 ** -20]) if t in (info['start'], info['end']) else 0.0
                if eps:
                    what.add('eval:offset')
                if m:
                    what.add('eval:shifted')
                if t in (info['start'], info['end']):
                    what.add('eval:seam')
                bs.append(t + eps)
                ps.append(t + eps + m * T)
            base.append(bs)
            params.append(ps)
        else:
            base.append(pts[:2])
            params.append(pts[:2])
    return {'kind': 'eval', 'obj': o, 'params': params, 'base': base, 'what': sorted(what)}


def _leftshift_specs(rng, o, d, count):
    """From-LEFT evaluation at seam / interior knots shifted by whole periods (one (t, m, order) per
    spec for the basis-row correspondence; the oracle sweeps all of them)."""
    b = o['bases'][d]
    info = gen.basis_info(b)
    inner = [x for x in gen.distinct_knots(b) if info['start'] < x < info['end']]
    out = []
    whats = ['start', 'end'] + (['inner'] if inner else [])
    for i in range(count):
        w = whats[i % len(whats)]
        t = {'start': info['start'], 'end': info['end']}.get(w) if w != 'inner' else rng.choice(inner)
        out.append({'kind': 'leftshift', 'obj': o, 'dir': d, 't': t, 'at': w, 'm': rng.choice([-2, -1, 2, 3]),
                    'd': rng.randint(0, max(0, min(info['k'], info['p'] - 1)))})
    return out


def _invalid_periodic(rng):
    """Knot vectors the constructor accepts (it compares only p+k-1 spacings) although the seam
    multiplicity does not fit the declared continuity / the ghost knots do not repeat the period."""
    fam = rng.randrange(4)
    if fam == 0:
        return {'order': 3, 'knots': [-1.0, 0.0, 1.0, 2.0, 3.0, 4.0, 5.0], 'periodic': 0}
    if fam == 1:
        p = rng.randint(3, 5)
        k = rng.randint(0, p - 3)
        n = rng.randint(p, p + 3)
        kn = [float(i) for i in range(-(k + 1), n + p)]      # all simple knots: real continuity p-2 > k declared
        return {'order': p, 'knots': kn, 'periodic': k}
    if fam == 2:
        # right spacings checked by the constructor, one unchecked ghost knot moved
        p = rng.randint(3, 5)
        k = rng.randint(1, p - 2)
        b = gen.periodic_basis(rng, p, k, n_interior=rng.randint(2, 4), max_mult=1)
        kn = list(b['knots'])
        kn[-1] = kn[-1] + rng.choice([0.25, 0.5])
        return {'order': p, 'knots': kn, 'periodic': k}
    p = rng.randint(2, 4)
    k = rng.randint(0, p - 2)
    b = gen.periodic_basis(rng, p, k, n_interior=rng.randint(1, 3))
    kn = list(b['knots'])
    kn[0] = kn[0] - rng.choice([0.0, 0.25, 1.0])
    return {'order': p, 'knots': kn, 'periodic': k}


def generate(rng, tier):
    specs = []
    quick = tier == 'quick'
    # --- the concrete objects of the Lean theorems C08_roundtrip_fails_k2 / C08_roundtrip_ok_k1 /
    #     C08_exK2_lower, replayed on the real code
    exk2 = {'bases': [{'order': 4, 'knots': [float(i) for i in range(-3, 10)], 'periodic': 2}],
            'cps': [[0.0], [1.0], [4.0], [9.0], [16.0], [25.0]], 'rational': False}
    exk1 = {'bases': [{'order': 3, 'knots': [-3.0, -2.0, 0.0, 1.0, 3.0, 4.0, 6.0, 7.0, 9.0], 'periodic': 1}],
            'cps': [[0.0, 1.0], [4.0, -2.0], [9.0, 5.0], [-3.0, 7.0]], 'rational': False}
    specs.append({'kind': 'roundtrip', 'obj': exk2, 'dir': 0, 'k': 2, 'lean': 'C08_roundtrip_fails_k2'})
    specs.append({'kind': 'roundtrip', 'obj': exk1, 'dir': 0, 'k': 1, 'lean': 'C08_roundtrip_ok_k1'})
    specs.append({'kind': 'lower', 'obj': exk2, 'dir': 0, 'target': -1, 'lean': 'C08_exK2_lower'})
    pks = [(p, k) for p in range(2, 7) for k in range(0, p - 1)]
    reps = 2 if quick else 25
    # --- every (p,k): curves, uniform / non-uniform, minimum sizes
    for (p, k) in pks:
        for r in range(reps):
            for small in (False, True):
                o = _periodic_object(rng, 1, [0], pk=(p, k), small=small, uniform=(r % 2 == 1 and not small))
                specs.append(_eval_spec(rng, o))
                specs.append({'kind': 'seam', 'obj': o, 'dir': 0})
                if not small or r == 0:
                    specs += _leftshift_specs(rng, o, 0, 3 if not small else 2)
                specs.append({'kind': 'roundtrip', 'obj': o, 'dir': 0, 'k': k})
                for target in ([-1, k - 1] if quick else range(-1, k)):
                    if target < k:
                        specs.append({'kind': 'lower', 'obj': o, 'dir': 0, 'target': target})
                if r == 0 and not small:
                    specs.append({'kind': 'lower', 'obj': o, 'dir': 0, 'target': k})
                    specs.append({'kind': 'lower', 'obj': o, 'dir': 0, 'target': k + 1})
    # --- surfaces / volumes periodic in any subset of directions
    for i in range(26 if quick else 300):
        pardim = 2 if i % 3 else 3
        sub = [d for d in range(pardim) if rng.random() < 0.6] or [pardim - 1]
        if i % 5 == 0:
            sub = [pardim - 1]
        o = _periodic_object(rng, pardim, sub, pmax=4 if pardim == 2 else 3)
        specs.append(_eval_spec(rng, o))
        d = rng.choice(sub)
        kk = o['bases'][d]['periodic']
        specs.append({'kind': 'seam', 'obj': o, 'dir': d})
        specs += _leftshift_specs(rng, o, d, 2)
        specs.append({'kind': 'roundtrip', 'obj': o, 'dir': d, 'k': kk})
        specs.append({'kind': 'lower', 'obj': o, 'dir': d, 'target': rng.randint(-1, max(-1, kk - 1))})
    # --- make_periodic on arbitrary open objects + error branches
    for i in range(40 if quick else 400):
        pardim = [1, 1, 2, 3][i % 4]
        o = gen.rand_object(rng, pardim=pardim, pmax=4 if pardim < 3 else 3, periodic_prob=0.15, max_interior=3, pmin=1)
        d = rng.randrange(pardim)
        p = o['bases'][d]['order']
        c = rng.choice([None, None, -1, p - 1, p - 2, 0, 1, rng.randint(-2, p)])
        if rng.random() < 0.1:
            d = pardim
        specs.append({'kind': 'make_periodic', 'obj': o, 'dir': d, 'continuity': c})
    # --- constructor
    for i in range(60 if quick else 600):
        r = i % 4
        if r == 0:
            p = rng.randint(2, 6)
            b = gen.periodic_basis(rng, p, rng.randint(0, p - 2))
        elif r == 1:
            b = _invalid_periodic(rng)
        elif r == 2:
            p = rng.randint(2, 5)
            b = gen.periodic_basis(rng, p, rng.randint(0, p - 2), n_interior=rng.randint(1, 4))
            kn = list(b['knots'])
            j = rng.randrange(len(kn))
            kn[j] = kn[j] + rng.choice([0.125, -0.125, 0.5])    # usually a mismatch or a decreasing vector
            b = {'order': p, 'knots': kn, 'periodic': b['periodic']}
        else:
            p = rng.randint(1, 4)
            b = gen.open_basis(rng, p)
            b = {'order': rng.choice([p, 0, p + 3]), 'knots': b['knots'], 'periodic': rng.choice([-1, -3, 0])}
        specs.append({'kind': 'ctor', 'basis': b})
    return specs


# ---------------------------------------------------------------------------------------------
# model / implementation

def model_line(s):
    k = s['kind']
    if k == 'eval':
        return line('obj_eval', gen.enc_object(s['obj']), gen.TOL, s['params'], True)
    if k == 'seam':
        b = s['obj']['bases'][s['dir']]
        return line('c08_basis', b['order'], b['knots'], b['periodic'], gen.TOL)
    if k == 'leftshift':
        b = s['obj']['bases'][s['dir']]
        info = gen.basis_info(b)
        return line('basis_eval', gen.enc_basis(b), gen.TOL, s['t'] + s['m'] * (info['end'] - info['start']), s['d'], False)
    if k == 'roundtrip':
        return line('c08_roundtrip', gen.enc_object(s['obj']), gen.TOL, s['k'], s['dir'])
    if k == 'lower':
        return line('c08_lower_periodic', gen.enc_object(s['obj']), gen.TOL, s['target'], s['dir'])
    if k == 'make_periodic':
        c = s['continuity']
        return line('c08_make_periodic', gen.enc_object(s['obj']), gen.TOL, Word('none') if c is None else c, s['dir'])
    if k == 'ctor':
        b = s['basis']
        return line('c08_basis', b['order'], b['knots'], b['periodic'], gen.TOL)
    raise AssertionError(k)


def _roundtrip(sp, s):
    o = gen.mk_object(sp, s['obj'])
    d = s['dir']
    return o.split(o.start(d), d).make_periodic(s['k'], d)


def run_impl(sp, s):
    k = s['kind']
    if k == 'eval':
        o = gen.mk_object(sp, s['obj'])
        a = np.asarray(o.evaluate(*s['params']), dtype=float)
        a = a.reshape(tuple(len(p) for p in s['params']) + (o.dimension,))
        return [list(a.shape), a.reshape(-1).tolist()]
    if k == 'seam':
        b = gen.mk_basis(sp, s['obj']['bases'][s['dir']])
        return [int(b.order), [float(x) for x in b.knots], int(b.periodic)]
    if k == 'leftshift':
        bs = s['obj']['bases'][s['dir']]
        info = gen.basis_info(bs)
        b = gen.mk_basis(sp, bs)
        t = s['t'] + s['m'] * (info['end'] - info['start'])
        dense = b.evaluate(t, s['d'], False)
        if s['d'] >= bs['order']:
            return [dense[0].tolist(), [], []]
        N = b.evaluate(t, s['d'], False, sparse=True)
        return [dense[0].tolist(), N.data.tolist(), [int(i) for i in N.indices]]
    if k == 'roundtrip':
        return gen.obj_observables(_roundtrip(sp, s))
    if k == 'lower':
        o = gen.mk_object(sp, s['obj'])
        return gen.obj_observables(o.lower_periodic(s['target'], s['dir']))
    if k == 'make_periodic':
        o = gen.mk_object(sp, s['obj'])
        return gen.obj_observables(o.make_periodic(s['continuity'], s['dir']))
    if k == 'ctor':
        b = gen.mk_basis(sp, s['basis'])
        return [int(b.order), [float(x) for x in b.knots], int(b.periodic)]
    raise AssertionError(k)


# ---------------------------------------------------------------------------------------------
# the property

def _mid_params(o, skip):
    """One interior parameter per direction (None for `skip`)."""
    out = []
    for d, b in enumerate(o['bases']):
        if d == skip:
            out.append(None)
            continue
        info = gen.basis_info(b)
        ks = [x for x in gen.distinct_knots(b) if info['start'] <= x <= info['end']]
        out.append(ks[0] + (ks[1] - ks[0]) * 0.375)
    return out


def check_periodicity(sp, ospec, d, obj=None):
    """obj(t) == obj(t + mT) along direction d: knots, span interiors, the seam and small offsets."""
    o = obj if obj is not None else gen.mk_object(sp, ospec)
    info = gen.basis_info(ospec['bases'][d])
    T = info['end'] - info['start']
    others = _mid_params(ospec, d)
    pts = [t for t, _ in span_points(ospec['bases'][d]['knots'], info['start'], info['end'], 1)]
    pts += [info['start'] + T * 2.0 ** -20, info['end'] - T * 2.0 ** -20]
    fails = []
    for t in pts:
        vals = []
        for m in (0, 1, -2, 3):
            u = list(others)
            u[d] = t + m * T
            try:
                vals.append(np.asarray(o.evaluate(*u), dtype=float).reshape(-1))
            except Exception as e:  # noqa: BLE001
                return ['evaluate at %r raised %s: %s' % (u, type(e).__name__, e)]
        sc = max(1.0, float(np.max(np.abs(vals[0]))))
        for m, v in zip((1, -2, 3), vals[1:]):
            if np.max(np.abs(v - vals[0])) > 1e-8 * sc:
                fails.append('direction %d: value at t=%r is %r but at t%+d periods it is %r' % (d, t, vals[0].tolist(), m, v.tolist()))
                return fails
    return fails


def check_seam(sp, ospec, d, obj=None):
    """Value and derivatives of order 0..k agree at the seam of direction d when approached from the
    two sides: real `derivative` (above=True at start, above=False at end) and the exact definition."""
    o = obj if obj is not None else gen.mk_object(sp, ospec)
    pd = len(ospec['bases'])
    info = gen.basis_info(ospec['bases'][d])
    k = info['k']
    others = _mid_params(ospec, d)
    fails = []
    rational = ospec['rational']
    jmax = k
    if rational:
        jmax = min(k, 3) if pd == 1 else min(k, 1)
    for j in range(0, jmax + 1):
        ua, ub = list(others), list(others)
        ua[d], ub[d] = info['start'], info['end']
        dd = tuple(j if i == d else 0 for i in range(pd))
        try:
            if j == 0:
                a = np.asarray(o.evaluate(*ua), dtype=float).reshape(-1)
                b = np.asarray(o.evaluate(*ub), dtype=float).reshape(-1)
            elif pd == 1:
                a = np.asarray(o.derivative(ua[0], d=j, above=True), dtype=float).reshape(-1)
                b = np.asarray(o.derivative(ub[0], d=j, above=False), dtype=float).reshape(-1)
            else:
                a = np.asarray(o.derivative(*ua, d=dd, above=[True] * pd), dtype=float).reshape(-1)
                b = np.asarray(o.derivative(*ub, d=dd, above=[i != d for i in range(pd)]), dtype=float).reshape(-1)
        except Exception as e:  # noqa: BLE001
            fails.append('derivative of order %d at the seam raised %s: %s' % (j, type(e).__name__, e))
            break
        sc = max(1.0, float(np.max(np.abs(a))), float(np.max(np.abs(b))))
        if a.shape != b.shape or np.max(np.abs(a - b)) > 1e-7 * sc:
            fails.append('direction %d: derivative of order %d is %r at start (from above) but %r at end (from below)' % (d, j, a.tolist(), b.tolist()))
            break
    # exact definition on the object's own knots and control points (homogeneous coordinates; for
    # rational objects only the value, smooth homogeneous coordinates being sufficient, not necessary)
    ex = ExactObj(ospec)
    for j in range(0, (0 if rational else k) + 1):
        ua, ub = list(others), list(others)
        ua[d], ub[d] = info['start'], info['end']
        der = [j if i == d else 0 for i in range(pd)]
        ra = [True] * pd
        rb = [i != d for i in range(pd)]
        # evaluate the defining sum of the un-wrapped basis functions on both sides of the seam
        va = _raw_hom(ex, ua, der, ra)
        vb = _raw_hom(ex, ub, der, rb)
        if rational:
            va = [x / va[-1] for x in va[:-1]]
            vb = [x / vb[-1] for x in vb[:-1]]
        if any(abs(x - y) > F(1, 10 ** 9) * max(1, abs(x), abs(y)) for x, y in zip(va, vb)):
            fails.append('direction %d: by the definition on its own knots the derivative of order %d jumps at the seam: %r vs %r' % (
                d, j, [float(x) for x in va], [float(x) for x in vb]))
            break
    return fails


def _raw_hom(ex, u, der, rights):
    """Defining sum with the side taken literally (no 'left of start = left of end' rule): rows of
    `exact.dB` over all functions, wrapped modulo n."""
    pd = len(ex.bases)
    rows = []
    for kdir in range(pd):
        b = ex.bases[kdir]
        tau = ex.taus[kdir]
        p, per = b['order'], b['periodic']
        n_all = len(tau) - p
        n = n_all - (per + 1)
        t = exact.fr(u[kdir])
        right = rights[kdir]
        if t == tau[n_all] and per < 0:
            right = False
        row = [F(0)] * n
        for i in range(n_all):
            if tau[i] <= t <= tau[i + p] and der[kdir] < p:
                v = exact.dB(tau, p - 1, i, der[kdir], t, right)
                if v:
                    row[i % n] += v
        rows.append(row)
    nz = [[(i, v) for i, v in enumerate(r) if v] for r in rows]
    ncomp = ex.fc.shape[-1]
    out = [F(0)] * ncomp
    for combo in itertools.product(*nz):
        w = F(1)
        for _, v in combo:
            w *= v
        idx = tuple(i for i, _ in combo)
        for c in range(ncomp):
            out[c] += w * ex.fc[idx + (c,)]
    return out


def check_left_shift(sp, ospec, d):
    """From-left evaluation is invariant under shifts by whole periods: at the seam (start and end)
    and at every interior knot of direction d, for m in {-2,-1,2,3}: `basis.evaluate(t + mT, j,
    from_right=False)` and `obj.derivative(.., t + mT, .., d=j, above=False)` for j = 0..k equal the
    unshifted from-left result (the from-left value at `start` is the one at the domain end), and the
    basis rows equal the exact definition / sum to one."""
    o = gen.mk_object(sp, ospec)
    pd = len(ospec['bases'])
    bs = ospec['bases'][d]
    info = gen.basis_info(bs)
    T = info['end'] - info['start']
    k = info['k']
    b = gen.mk_basis(sp, bs)
    others = _mid_params(ospec, d)
    rational = ospec['rational']
    jmax = k
    if rational:
        jmax = min(k, 3) if pd == 1 else min(k, 1)
    pts = [info['start'], info['end']] + [x for x in gen.distinct_knots(bs) if info['start'] < x < info['end']]
    fails = []

    def deriv(t, j):
        u = list(others)
        u[d] = t
        if pd == 1:
            return np.asarray(o.derivative(u[0], d=j, above=False), dtype=float).reshape(-1)
        dd = tuple(j if i == d else 0 for i in range(pd))
        return np.asarray(o.derivative(*u, d=dd, above=[i != d for i in range(pd)]), dtype=float).reshape(-1)

    for t in pts:
        tref = info['end'] if t == info['start'] else t
        for j in range(0, k + 1):
            try:
                rref = np.asarray(b.evaluate(tref, j, False), dtype=float).reshape(-1)
            except Exception as e:  # noqa: BLE001
                return ['basis.evaluate(%r, %d, from_right=False) raised %s' % (tref, j, type(e).__name__)]
            want = exact.basis_row(bs, t, j, False)
            if not exact.close(rref, want, 1e-8, 1e-9 * max(1.0, float(np.max(np.abs(rref))))):
                return ['from-left basis row of order %d at %r differs from the definition' % (j, tref)]
            dref = None
            if j <= jmax:
                try:
                    dref = deriv(tref, j)
                except Exception as e:  # noqa: BLE001
                    return ['derivative(%r, d=%d, above=False) raised %s: %s' % (tref, j, type(e).__name__, e)]
            for m in (-2, -1, 2, 3):
                ts = t + m * T
                try:
                    row = np.asarray(b.evaluate(ts, j, False), dtype=float).reshape(-1)
                except Exception as e:  # noqa: BLE001
                    return ['basis.evaluate(%r, %d, from_right=False) raised %s' % (ts, j, type(e).__name__)]
                sc = max(1.0, float(np.max(np.abs(rref))))
                if row.shape != rref.shape or np.max(np.abs(row - rref)) > 1e-8 * sc:
                    return ['direction %d: from-left basis row (derivative order %d) at t=%r%+d periods is %r, at the unshifted parameter it is %r' % (
                        d, j, t, m, row.tolist(), rref.tolist())]
                if j == 0 and abs(row.sum() - 1.0) > 1e-9:
                    return ['from-left basis row at t=%r%+d periods sums to %r' % (t, m, float(row.sum()))]
                if dref is not None:
                    try:
                        dv = deriv(ts, j)
                    except Exception as e:  # noqa: BLE001
                        return ['derivative(%r, d=%d, above=False) raised %s: %s' % (ts, j, type(e).__name__, e)]
                    sc = max(1.0, float(np.max(np.abs(dref))))
                    if dv.shape != dref.shape or not np.all(np.isfinite(dv)) or np.max(np.abs(dv - dref)) > 1e-7 * sc:
                        return ['direction %d: derivative of order %d from below at t=%r%+d periods is %r, unshifted it is %r' % (
                            d, j, t, m, dv.tolist(), dref.tolist())]
    return fails


def _literal_same(obj, ospec, d):
    fails = []
    want_k = np.array(ospec['bases'][d]['knots'], dtype=float)
    got_k = np.asarray(obj.bases[d].knots, dtype=float)
    if got_k.shape != want_k.shape or not np.allclose(got_k, want_k, rtol=1e-9, atol=1e-9 * max(1.0, float(np.max(np.abs(want_k))))):
        fails.append('knot vector after the round trip is %r, the original is %r' % (got_k.tolist(), want_k.tolist()))
    if obj.bases[d].periodic != ospec['bases'][d]['periodic']:
        fails.append('periodicity after the round trip is %d' % obj.bases[d].periodic)
    want_c = np.array(ospec['cps'], dtype=float)
    got_c = np.asarray(obj.controlpoints, dtype=float)
    if got_c.shape != want_c.shape:
        fails.append('control net after the round trip has shape %s, the original %s' % (got_c.shape, want_c.shape))
    elif not np.allclose(got_c, want_c, rtol=1e-9, atol=1e-9 * max(1.0, float(np.max(np.abs(want_c))))):
        i = np.unravel_index(np.argmax(np.abs(got_c - want_c)), got_c.shape)
        fails.append('control points after the round trip differ: entry %r is %r, the original %r' % (tuple(int(x) for x in i), float(got_c[i]), float(want_c[i])))
    return fails


def _valid_periodic(b):
    """Semantic validity of a periodic basis spec (ghost knots repeat the period)."""
    if b['order'] < 1 or len(b['knots']) < 2 * b['order']:
        return False
    info = gen.basis_info(b)
    kn = b['knots']
    n = info['n']
    if n < 1:
        return False
    T = info['end'] - info['start']
    return all(abs(kn[i + n] - kn[i] - T) <= gen.TOL for i in range(len(kn) - n))


def oracle(sp, s):
    k = s['kind']
    if k == 'eval':
        o = gen.mk_object(sp, s['obj'])
        shape = tuple(len(p) for p in s['params']) + (o.dimension,)
        try:
            a = np.asarray(o.evaluate(*s['params']), dtype=float).reshape(shape)
            b = np.asarray(o.evaluate(*s['base']), dtype=float).reshape(shape)
        except Exception as e:  # noqa: BLE001
            return ['evaluate raised %s: %s' % (type(e).__name__, e)]
        sc = max(1.0, float(np.max(np.abs(b))))
        if np.max(np.abs(a - b)) > 1e-8 * sc:
            i = np.unravel_index(np.argmax(np.abs(a - b).max(axis=-1)), a.shape[:-1])
            return ['value at %r is %r, whole periods away (%r) it is %r' % (
                [s['base'][d][i[d]] for d in range(len(i))], b[i].tolist(), [s['params'][d][i[d]] for d in range(len(i))], a[i].tolist())]
        ex = ExactObj(s['obj'])
        for idx in itertools.product(*[range(len(p)) for p in s['base']]):
            want = ex.point([s['base'][d][idx[d]] for d in range(len(idx))])
            if not exact.close(b[idx], want, 1e-8, 1e-10):
                return ['value at %r differs from the definition' % ([s['base'][d][idx[d]] for d in range(len(idx))],)]
        return []
    if k == 'seam':
        return check_periodicity(sp, s['obj'], s['dir']) + check_seam(sp, s['obj'], s['dir'])
    if k == 'leftshift':
        return check_left_shift(sp, s['obj'], s['dir'])
    if k == 'roundtrip':
        if s['k'] != s['obj']['bases'][s['dir']]['periodic']:
            return []
        try:
            r = _roundtrip(sp, s)
        except Exception as e:  # noqa: BLE001
            return ['split(start) + make_periodic(%d) raised %s: %s' % (s['k'], type(e).__name__, e)]
        return _literal_same(r, s['obj'], s['dir'])
    if k == 'lower':
        b = s['obj']['bases'][s['dir']]
        if b['periodic'] < 0:
            return []
        o = gen.mk_object(sp, s['obj'])
        if s['target'] > b['periodic']:
            try:
                o.lower_periodic(s['target'], s['dir'])
            except ValueError:
                return []
            except Exception as e:  # noqa: BLE001
                return ['raising the periodicity raised %s instead of ValueError' % type(e).__name__]
            return ['raising the periodicity was not rejected']
        try:
            r = o.lower_periodic(s['target'], s['dir'])
        except Exception as e:  # noqa: BLE001
            return ['lower_periodic(%d) raised %s: %s' % (s['target'], type(e).__name__, e)]
        fails = check_piece(ExactObj(s['obj']), r, s['dir'], None, None, 'object lowered to periodicity %d' % s['target'],
                            thin=len(s['obj']['bases']) == 3, periodic=max(s['target'], -1))
        T = gen.basis_info(b)
        if abs((r.end(s['dir']) - r.start(s['dir'])) - (T['end'] - T['start'])) > 1e-9 * max(1.0, abs(T['end'] - T['start'])):
            fails.append('the period changed to %r' % (r.end(s['dir']) - r.start(s['dir'])))
        return fails
    if k == 'ctor':
        b = s['basis']
        try:
            gen.mk_basis(sp, b)
        except Exception:  # noqa: BLE001
            return []
        p, per = b['order'], max(b['periodic'], -1)
        if per < 0 or per > p - 2:
            return []
        info = gen.basis_info(b)
        if info['n'] < 1 or not info['start'] < info['end']:
            return []
        ospec = {'bases': [b], 'cps': _fixed_cps(info['n']), 'rational': False}
        try:
            obj = gen.mk_object(sp, ospec)
        except Exception as e:  # noqa: BLE001
            return ['a curve on the accepted periodic basis cannot be built: %s' % e]
        return check_periodicity(sp, ospec, 0, obj) + check_seam(sp, ospec, 0, obj)
    return []


def _small(b):
    info = gen.basis_info(b)
    return info['k'] >= 0 and info['n'] < info['p'] + info['k']


_CLASS_MESSAGES = {
    'constructor-accepts-non-periodic-knot-vector': ('periods it is', 'at start (from above) but', 'jumps at the seam', 'raised'),
    'make-periodic-weights-continuity>=2': ('control points after the round trip differ',),
    # split(start) of a periodic direction with n < p+k functions is correct since the periodic insert_knot fix; what
    # remains is make_periodic on the SHORT open object it returns (too-short knot vector / other control points)
    'make-periodic-short-direction': ('make_periodic(', 'control points after the round trip differ'),
}


def _spec_class(s):
    k = s['kind']
    if k == 'ctor':
        b = s['basis']
        if b['periodic'] >= 0 and not _valid_periodic(b):
            return 'constructor-accepts-non-periodic-knot-vector'
        return None
    if k == 'roundtrip':
        b = s['obj']['bases'][s['dir']]
        if _small(b):
            return 'make-periodic-short-direction'
        if s['k'] >= 2:
            return 'make-periodic-weights-continuity>=2'
        return None
    if k == 'lower':
        # (`periodic-insert-small-basis`: lower_periodic on small periodic bases is fixed with periodic insert_knot)
        return None
    return None


def classify(s, res=None):
    """Known-finding class: decided by the spec AND, when the oracle failed, by the failure message
    (a class only covers its own symptoms and cannot hide a new kind of failure)."""
    cls = _spec_class(s)
    if cls is None or not res or not res.get('oracle'):
        return cls
    msg = str(res['oracle'][0])
    if any(m in msg for m in _CLASS_MESSAGES.get(cls, ())):
        return cls
    return None


def compare(s, iv, mv):
    return diff(iv, mv, RTOL, ATOL)


def tags(s, res):
    k = s['kind']
    out = [k]
    o = s.get('obj')
    if o:
        out.append('pardim=%d' % len(o['bases']))
        if o['rational']:
            out.append('rational')
        for b in o['bases']:
            if b['periodic'] >= 0:
                out.append('p=%d' % b['order'])
                out.append('(p,k)=(%d,%d)' % (b['order'], b['periodic']))
                if _small(b):
                    out.append('periodic-small')
    if k == 'eval':
        out += s['what']
    elif k == 'leftshift':
        out.append({'start': 'leftshift:seam-start', 'end': 'leftshift:seam-end', 'inner': 'leftshift:interior-knot'}[s['at']])
        out.append('leftshift:m<0' if s['m'] < 0 else 'leftshift:m>=2')
        if s['d'] >= 1:
            out.append('leftshift:d>=1')
        if len(s['obj']['bases']) > 1:
            out.append('leftshift:pardim>1')
    elif k == 'seam':
        if s['obj']['bases'][s['dir']]['periodic'] >= 2:
            out.append('seam:k>=2')
        if s['dir'] > 0:
            out.append('seam:dir>0')
    elif k == 'roundtrip':
        out.append('roundtrip:k>=2' if s['k'] >= 2 else 'roundtrip:k<=1')
        if s['dir'] > 0:
            out.append('roundtrip:dir>0')
    elif k == 'lower':
        kk = s['obj']['bases'][s['dir']]['periodic']
        if s['target'] == -1 and kk >= 0:
            out.append('lower:to-open')
        if s['target'] > kk:
            out.append('lower:raise')
        if s['target'] == kk:
            out.append('lower:same')
    elif k == 'make_periodic':
        if isinstance(res['impl'], Err):
            out.append('make_periodic:error')
            out.append('make_periodic:' + res['impl'].kind)
        if s['continuity'] is None:
            out.append('make_periodic:default-continuity')
    elif k == 'ctor':
        b = s['basis']
        if isinstance(res['impl'], Err):
            out.append('ctor:rejected')
        elif b['periodic'] >= 0 and not _valid_periodic(b):
            out.append('ctor:accepted-invalid')
        elif b['periodic'] >= 0:
            out.append('ctor:accepted-valid')
    return out


def nontrivial(s, res):
    if s['kind'] in ('make_periodic',):
        return not isinstance(res['impl'], Err)
    if s['kind'] == 'ctor':
        return not isinstance(res['impl'], Err) and s['basis']['periodic'] >= 0
    return True
