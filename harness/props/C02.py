"""C02 — object evaluation equals the tensor-product NURBS definition on its domain.

Correspondence: SplineObject.evaluate / Curve.evaluate / __call__ in every calling form versus the
Lean model `Obj.evaluate` (snap + domain validation + basis rows + axis contraction + projective
division), the default-control-point constructor (`Obj.default`) and `bounding_box`.
Oracle: the defining sum evaluated in exact Fractions from the object's own knots/control points;
calling-form identities; ValueError outside non-periodic directions; periodic wrap; identity map;
bounding box.
"""
from fractions import Fraction as F

import numpy as np

from vlib import gen, exact
from vlib.val import line
from vlib.compare import diff, Err

ID = 'C02'
PYOVERRIDE_METHODS = ['Curve.evaluate']   # Curve/Surface overrides re-translated and proved equal to the hand model each run
PYOBJECT_METHODS = ['evaluate', 'start', 'end']   # splineobject.py methods re-translated and proved equal to the hand model each run
RTOL = 1e-9
ATOL = 1e-11
RULE = ('objects: pardim 1-3, dim 2-3(4), rational with positive weights, open/periodic bases per direction, non-square shapes; '
        'parameters: knots, ends, span interiors, outside (ValueError), periodic points periods away; forms: grid lists, scalars, '
        'tensor=False, __call__, default control points (identity map), bounding box.  non-trivial = parameters inside the domain.')
REQUIRED_TAGS = ['form=shared-argument', 'shared:grid', 'form=seq', 'seq:end-weight-not-one', 'seq:scalar-evaluate-then-more', 'form=mixed', 'mixed:pardim=3', 'equal-weights-not-one', 'form=grid', 'form=scalar', 'form=pointwise', 'form=default', 'outside', 'rational', 'periodic-dir', 'pardim=1', 'pardim=2', 'pardim=3', 'form=bbox']


def _params(rng, o, n_per_dir, outside=False):
    ps = []
    for b in o['bases']:
        pts = gen.eval_points(rng, b, per_span=1, outside=True)
        rng.shuffle(pts)
        ps.append(pts[:n_per_dir])
    if outside:
        nonper = [i for i, b in enumerate(o['bases']) if b['periodic'] < 0]
        if nonper:
            i = rng.choice(nonper)
            info = gen.basis_info(o['bases'][i])
            ps[i][rng.randrange(len(ps[i]))] = rng.choice([info['start'] - 0.25, info['end'] + 0.5, info['end'] + 1e-3])
    return ps


def generate(rng, tier):
    specs = []
    nobj = 60 if tier == 'quick' else 900
    for oi in range(nobj):
        pardim = [1, 2, 3, 1, 2][oi % 5]
        o = gen.rand_object(rng, pardim=pardim, pmax=4 if pardim < 3 else 3, max_interior=2 if pardim < 3 else 1,
                            dim=rng.choice([2, 3, 4]) if pardim < 3 and rng.random() < 0.2 else None,
                            wide=(tier == 'thorough' and rng.random() < 0.2))
        if oi % 6 == 4:
            # rational object whose weights are all EQUAL but not 1 (control points are stored
            # pre-multiplied, so the division by the weight is still needed)
            o = gen.rand_object(rng, pardim=pardim, pmax=3, max_interior=1, rational=True)
            wconst = rng.choice([2.0, 0.25, 3.0, 0.5])
            arr = np.array(o['cps'], dtype=float)
            arr[..., -1] = wconst
            o['cps'] = arr.tolist()
            o['_equal_weights'] = True
        n = {1: 4, 2: 3, 3: 2}[pardim]
        specs.append({'form': 'grid', 'obj': o, 'params': _params(rng, o, n)})
        specs.append({'form': 'call', 'obj': o, 'params': _params(rng, o, n)})
        specs.append({'form': 'scalar', 'obj': o, 'params': [p[:1] for p in _params(rng, o, 1)]})
        pw = _params(rng, o, n)
        m = min(len(p) for p in pw)
        specs.append({'form': 'pointwise', 'obj': o, 'params': [p[:m] for p in pw]})
        if pardim >= 2:
            # mixed scalar/list calling forms: every non-empty proper subset of directions scalar
            import itertools
            subsets = [c for r in range(1, pardim) for c in itertools.combinations(range(pardim), r)]
            rng.shuffle(subsets)
            for sc in subsets[:3 if pardim == 3 else 2]:
                ps = _params(rng, o, 3)
                for k in sc:
                    ps[k] = ps[k][:1]
                specs.append({'form': 'mixed', 'obj': o, 'params': ps, 'scalar_dirs': list(sc)})
        if rng.random() < 0.5:
            specs.append({'form': 'grid', 'obj': o, 'params': _params(rng, o, n, outside=True)})
        if rng.random() < 0.2:
            bad = _params(rng, o, 3)
            if pardim > 1 and len(bad[0]) > 1:
                bad[0] = bad[0][:-1]     # unequal lengths with tensor=False -> ValueError
                specs.append({'form': 'pointwise', 'obj': o, 'params': bad})
        specs.append({'form': 'bbox', 'obj': o})
        # several calls on ONE object: evaluation is a query, so every call must still agree with
        # the definition for the control points the object was built with, and the control points
        # must be bit-for-bit unchanged afterwards (a result that is a view of the control net and is
        # then divided by its weight in place shows up only in the SECOND call)
        if oi % 2 == 0:
            specs.append(_seq_spec(rng, o))
        # two directions whose bases are affine images of each other (same order, same normalised knot
        # pattern, different range - e.g. after reparam of one direction) evaluated with the SAME list
        # object for both directions: a cache keyed on `matches()`/identity of the argument shows here
        if pardim >= 2 and oi % 3 == 0:
            specs.append(_shared_param_spec(rng, pardim))
        # default control points: identity map
        if all(b['order'] >= 2 for b in o['bases']):
            specs.append({'form': 'default', 'bases': o['bases'], 'rational': bool(rng.random() < 0.3),
                          'params': _params(rng, o, n)})
    return specs


def _end_weight_object(rng, pardim):
    """Rational object whose corner/end weights are NOT 1."""
    o = gen.rand_object(rng, pardim=pardim, pmax=3, max_interior=1, rational=True, periodic_prob=0.0)
    arr = np.array(o['cps'], dtype=float)
    w_old = arr[..., -1:].copy()
    w_new = np.array([rng.choice([0.5, 2.0, 1.5, 0.25, 3.0]) for _ in range(w_old.size)]).reshape(w_old.shape)
    arr[..., :-1] = arr[..., :-1] / w_old * w_new      # keep the Cartesian points, change the weights
    arr[..., -1:] = w_new
    o['cps'] = arr.tolist()
    return o


def _shared_param_spec(rng, pardim):
    p = rng.randint(2, 4)
    b0 = gen.open_basis(rng, p, n_interior=rng.randint(0, 2))
    a = rng.choice([2.0, 0.5, 4.0])
    c = rng.choice([0.0, 1.0, -0.5])
    s0 = b0['knots'][0]
    b1 = {'order': p, 'periodic': -1, 'knots': [s0 + a * (t - s0) + c * 0 for t in b0['knots']]}   # same start, scaled range
    if pardim == 2:
        bases, shared = [b0, b1], [0, 1]
    else:
        mid = gen.open_basis(rng, rng.randint(2, 3), n_interior=rng.randint(0, 1))
        bases, shared = [b0, mid, b1], [0, 2]
    shape = [gen.basis_info(b)['n'] for b in bases]
    rational = rng.random() < 0.5
    dim = 3
    o = {'bases': bases, 'cps': gen.rand_cps(rng, shape, dim + (1 if rational else 0), rational), 'rational': rational}
    # points in the intersection of the two domains
    i0, i1 = gen.basis_info(b0), gen.basis_info(b1)
    lo, hi = max(i0['start'], i1['start']), min(i0['end'], i1['end'])
    pts = sorted({lo, hi, lo + (hi - lo) * 0.25, lo + (hi - lo) * 0.5, lo + (hi - lo) * 0.75})
    params = []
    for k, b in enumerate(bases):
        params.append(list(pts) if k in shared else _params(rng, {'bases': [b]}, 2)[0])
    tensor = rng.random() < 0.7
    if not tensor:
        m = len(pts)
        params = [(p_ if len(p_) == m else (p_ * m)[:m]) for p_ in params]
    return {'form': 'shared', 'obj': o, 'params': params, 'shared': shared, 'tensor': tensor,
            'array': rng.random() < 0.5}


def _shared_args(s):
    the = np.array(s['params'][s['shared'][0]], dtype=float) if s['array'] else list(s['params'][s['shared'][0]])
    return [the if k in s['shared'] else list(p_) for k, p_ in enumerate(s['params'])]


def _seq_spec(rng, o):
    pardim = len(o['bases'])
    if rng.random() < 0.6:
        o = _end_weight_object(rng, pardim)
    calls = []
    ends = [[gen.basis_info(b)['start'], gen.basis_info(b)['end']] for b in o['bases']]
    for j in range(rng.randint(2, 4)):
        kind = rng.choice(['scalar-end', 'scalar-end', 'scalar', 'grid', 'pointwise', 'list-end'])
        how = rng.choice(['evaluate', 'call'])
        if kind == 'scalar-end':
            ps = [[rng.choice(e)] if b['periodic'] < 0 else [gen.basis_info(b)['start']] for e, b in zip(ends, o['bases'])]
            calls.append({'how': how, 'scalar': True, 'params': ps, 'tensor': True})
        elif kind == 'list-end':
            ps = [[rng.choice(e)] for e in ends]
            calls.append({'how': how, 'scalar': False, 'params': ps, 'tensor': True})
        elif kind == 'scalar':
            calls.append({'how': how, 'scalar': True, 'params': [p[:1] for p in _params(rng, o, 1)], 'tensor': True})
        elif kind == 'grid':
            calls.append({'how': how, 'scalar': False, 'params': _params(rng, o, 2), 'tensor': True})
        else:
            pw = _params(rng, o, 2)
            m = min(len(p) for p in pw)
            calls.append({'how': 'evaluate', 'scalar': False, 'params': [p[:m] for p in pw], 'tensor': False})
    # always finish with a grid over both ends and an interior point
    last = []
    for e, b in zip(ends, o['bases']):
        last.append([e[0], (e[0] + e[1]) / 2, e[1]] if b['periodic'] < 0 else [e[0], (e[0] + e[1]) / 2])
    calls.append({'how': 'evaluate', 'scalar': False, 'params': last, 'tensor': True})
    return {'form': 'seq', 'obj': o, 'calls': calls}


def _do_call(o, c):
    args = [p[0] for p in c['params']] if c['scalar'] else [list(p) for p in c['params']]
    if c['how'] == 'call':
        r = o(*args) if c['tensor'] else o(*args, tensor=False)
    else:
        r = o.evaluate(*args) if c['tensor'] else o.evaluate(*args, tensor=False)
    return np.asarray(r)


def _seq_shape(o, c):
    if c['tensor']:
        return [len(p) for p in c['params']] + [o.dimension]
    return [len(c['params'][0]), o.dimension]


def model_line(s):
    f = s['form']
    if f == 'shared':
        return line('obj_eval', gen.enc_object(s['obj']), gen.TOL, s['params'], bool(s['tensor']))
    if f == 'seq':
        return line('obj_eval_seq', gen.enc_object(s['obj']), gen.TOL, [[c['params'], bool(c['tensor'])] for c in s['calls']])
    if f == 'bbox':
        return line('obj_bbox', gen.enc_object(s['obj']))
    if f == 'default':
        return line('obj_default', [gen.enc_basis(b) for b in s['bases']], s['rational'], gen.TOL, s['params'], True)
    return line('obj_eval', gen.enc_object(s['obj']), gen.TOL, s['params'], f != 'pointwise')


def _shape_flat(a):
    a = np.asarray(a, dtype=float)
    return [list(a.shape), a.reshape(-1).tolist()]


def run_impl(sp, s):
    f = s['form']
    if f == 'bbox':
        return [list(t) for t in gen.mk_object(sp, s['obj']).bounding_box()]
    if f == 'default':
        bases = [gen.mk_basis(sp, b) for b in s['bases']]
        cls = {1: sp.Curve, 2: sp.Surface, 3: sp.Volume}[len(bases)]
        o = cls(*bases, rational=s['rational'])
        return [gen.obj_observables(o), _shape_flat(o.evaluate(*s['params']))]
    o = gen.mk_object(sp, s['obj'])
    if f == 'shared':
        args = _shared_args(s)
        return _shape_flat(o.evaluate(*args) if s['tensor'] else o.evaluate(*args, tensor=False))
    if f == 'seq':
        out = []
        for c in s['calls']:
            r = _do_call(o, c)
            shp = _seq_shape(o, c)
            if int(np.prod(shp)) != r.size:
                out.append(['bad-shape', list(r.shape)])
            else:
                out.append([shp, r.reshape(-1).tolist()])
        out.append(gen.obj_observables(o))
        return out
    if f == 'grid':
        return _shape_flat(o.evaluate(*s['params']))
    if f == 'mixed':
        args = [p[0] if k in s['scalar_dirs'] else p for k, p in enumerate(s['params'])]
        return _shape_flat(o.evaluate(*args))
    if f == 'call':
        return _shape_flat(o(*s['params']))
    if f == 'pointwise':
        return _shape_flat(o.evaluate(*s['params'], tensor=False))
    if f == 'scalar':
        r = o.evaluate(*[p[0] for p in s['params']])
        # squeeze rule: a single point gives shape (dim,); re-wrap to the model's grid shape
        r = np.asarray(r)
        if r.shape != (o.dimension,):
            return ['bad-squeeze-shape', list(r.shape)]
        return [[1] * o.pardim + [o.dimension], r.reshape(-1).tolist()]
    raise AssertionError(f)


def _in_domain(o, params):
    for b, ps in zip(o['bases'], params):
        if b['periodic'] < 0:
            info = gen.basis_info(b)
            if any(t < info['start'] - gen.TOL or t > info['end'] + gen.TOL for t in ps):
                return False
    return True


def oracle(sp, s):
    f = s['form']
    fails = []
    if f == 'bbox':
        o = gen.mk_object(sp, s['obj'])
        if s['obj']['rational']:
            return []
        bb = o.bounding_box()
        cps = np.array(s['obj']['cps'])
        for c, (lo, hi) in enumerate(bb):
            if lo != cps[..., c].min() or hi != cps[..., c].max():
                fails.append('bounding box coordinate %d is not the control-point range' % c)
        # every evaluated point inside the box
        rngp = [np.linspace(gen.basis_info(b)['start'], gen.basis_info(b)['end'], 5) for b in s['obj']['bases']]
        pts = o.evaluate(*rngp).reshape(-1, o.dimension)
        for c, (lo, hi) in enumerate(bb):
            if pts[:, c].min() < lo - 1e-9 * max(1, abs(lo)) or pts[:, c].max() > hi + 1e-9 * max(1, abs(hi)):
                fails.append('evaluated point outside the reported bounding box (coordinate %d)' % c)
        return fails
    if f == 'default':
        bases = [gen.mk_basis(sp, b) for b in s['bases']]
        cls = {1: sp.Curve, 2: sp.Surface, 3: sp.Volume}[len(bases)]
        o = cls(*bases, rational=s['rational'])
        if any(b['periodic'] >= 0 for b in s['bases']):
            return []   # the identity-map clause is for non-periodic bases only
        ospec = {'bases': s['bases'], 'cps': None, 'rational': s['rational']}
        if not _in_domain(ospec, s['params']):
            return []
        import itertools
        res = o.evaluate(*s['params'])
        pd = len(bases)
        for idx in itertools.product(*[range(len(p)) for p in s['params']]):
            u = [s['params'][k][idx[k]] for k in range(pd)]
            want = u + ([0.0] if pd == 1 else [])
            got = res[idx]
            if not np.allclose(got, want, rtol=1e-9, atol=1e-9 * max(1.0, max(abs(x) for x in want))):
                fails.append('object without control points is not the identity map at %r: %r' % (u, got.tolist()))
                break
        return fails
    o = gen.mk_object(sp, s['obj'])
    if f == 'shared':
        import itertools
        args = _shared_args(s)
        res = np.asarray(o.evaluate(*args) if s['tensor'] else o.evaluate(*args, tensor=False))
        pdm = len(s['params'])
        idxs = list(itertools.product(*[range(len(p_)) for p_ in s['params']])) if s['tensor'] else [(i,) * pdm for i in range(len(s['params'][0]))]
        exp = tuple(len(p_) for p_ in s['params']) + (o.dimension,) if s['tensor'] else (len(s['params'][0]), o.dimension)
        if res.shape != exp:
            return ['shared-argument call returned shape %s, expected %s' % (res.shape, exp)]
        for idx in idxs:
            want = exact.nurbs_point(s['obj'], [s['params'][k][idx[k]] for k in range(pdm)])
            got = res[idx] if s['tensor'] else res[idx[0]]
            if not exact.close(got, want, RTOL, 1e-10):
                return ['the same parameter %s passed for directions %r: evaluation at %r differs from the NURBS definition: %r vs %r' % (
                    'array' if s['array'] else 'list', s['shared'], [s['params'][k][idx[k]] for k in range(pdm)],
                    np.asarray(got).tolist(), [float(x) for x in want])]
        return []
    if f == 'seq':
        import itertools
        before = np.array(o.controlpoints, copy=True)
        for ci, c in enumerate(s['calls']):
            r = _do_call(o, c)
            shp = _seq_shape(o, c)
            if int(np.prod(shp)) != r.size:
                return ['call %d returned shape %s' % (ci, r.shape)]
            r = r.reshape(shp)
            pdm = len(c['params'])
            idxs = itertools.product(*[range(len(p)) for p in c['params']]) if c['tensor'] else [(i,) * pdm for i in range(len(c['params'][0]))]
            for idx in idxs:
                want = exact.nurbs_point(s['obj'], [c['params'][k][idx[k]] for k in range(pdm)])   # from the SPEC, not from the live object
                got = r[idx] if c['tensor'] else r[idx[0]]
                if not exact.close(got, want, RTOL, 1e-10):
                    return ['call %d of a sequence on one object (%s, %s) differs from the NURBS definition of the object as built, at %r: %r vs %r' % (
                        ci, c['how'], 'scalar' if c['scalar'] else ('grid' if c['tensor'] else 'pointwise'),
                        [c['params'][k][idx[k]] for k in range(pdm)], np.asarray(got).tolist(), [float(x) for x in want])]
            if not np.array_equal(np.asarray(o.controlpoints), before):
                return ['evaluation call %d modified the control points of the object' % ci]
        return []
    params = s['params']
    pd = len(params)
    if f == 'pointwise' and len({len(p) for p in params}) != 1:
        try:
            o.evaluate(*params, tensor=False)
            return ['tensor=False with unequal lengths did not raise ValueError']
        except ValueError:
            return []
    if not _in_domain(s['obj'], params):
        try:
            if f == 'pointwise':
                o.evaluate(*params, tensor=False)
            else:
                o.evaluate(*params)
            return ['parameter outside a non-periodic direction did not raise ValueError']
        except ValueError:
            return []
    if f == 'scalar':
        res = np.asarray(o.evaluate(*[p[0] for p in params]))
        if res.shape != (o.dimension,):
            return ['scalar call returned shape %s' % (res.shape,)]
        want = exact.nurbs_point(s['obj'], [p[0] for p in params])
        if not exact.close(res, want, RTOL, 1e-10):
            fails.append('scalar evaluation differs from the NURBS definition: %r vs %r' % (res.tolist(), [float(x) for x in want]))
        return fails
    if f == 'pointwise':
        try:
            res = o.evaluate(*params, tensor=False)
        except TypeError as e:
            return ['evaluate(..., tensor=False) raised TypeError: %s' % e]
        m = len(params[0])
        if res.shape != (m, o.dimension):
            return ['tensor=False returned shape %s' % (res.shape,)]
        for i in range(m):
            want = exact.nurbs_point(s['obj'], [p[i] for p in params])
            if not exact.close(res[i], want, RTOL, 1e-10):
                fails.append('pointwise evaluation %d differs from the NURBS definition' % i)
                break
        grid = o.evaluate(*params)
        diag = np.array([grid[(i,) * pd] for i in range(m)])
        if not np.allclose(diag, res, rtol=1e-10, atol=1e-12):
            fails.append('tensor=False result is not the diagonal of the grid')
        return fails
    if f == 'mixed':
        args = [p[0] if k in s['scalar_dirs'] else p for k, p in enumerate(params)]
        res = o.evaluate(*args)
    else:
        res = o.evaluate(*params) if f == 'grid' else o(*params)
    exp_shape = tuple(len(p) for p in params) + (o.dimension,)
    if all(len(p) == 1 for p in params):
        pass
    elif res.shape != exp_shape:
        return ['grid evaluation returned shape %s, expected %s' % (res.shape, exp_shape)]
    res = res.reshape(exp_shape)
    import itertools
    for idx in itertools.product(*[range(len(p)) for p in params]):
        want = exact.nurbs_point(s['obj'], [params[k][idx[k]] for k in range(pd)])
        if not exact.close(res[idx], want, RTOL, 1e-10):
            fails.append('grid evaluation at %r differs from the NURBS definition: %r vs %r' % (
                [params[k][idx[k]] for k in range(pd)], res[idx].tolist(), [float(x) for x in want]))
            break
    # periodic directions wrap by the period
    per = [k for k, b in enumerate(s['obj']['bases']) if b['periodic'] >= 0]
    if per:
        k = per[0]
        info = gen.basis_info(s['obj']['bases'][k])
        T = info['end'] - info['start']
        shifted = [list(p) for p in params]
        shifted[k] = [t + 2 * T for t in shifted[k]]
        res2 = o.evaluate(*shifted).reshape(exp_shape)
        if not np.allclose(res, res2, rtol=1e-8, atol=1e-9):
            fails.append('evaluation not invariant under a shift by two periods in direction %d' % k)
    return fails


def classify(s, res=None):
    if s['form'] == 'pointwise' and len(s['params']) == 1:
        return 'curve-evaluate-rejects-tensor-keyword'
    return None


def compare(s, iv, mv):
    if s['form'] == 'default' and isinstance(mv, list) and not isinstance(iv, Err):
        d = diff(iv[0], mv[0], RTOL, ATOL)
        return d or diff(iv[1], mv[1], RTOL, ATOL)
    return diff(iv, mv, RTOL, ATOL)


def tags(s, res):
    if s['form'] == 'shared':
        return ['form=shared-argument', 'pardim=%d' % len(s['params']), 'shared:' + ('grid' if s['tensor'] else 'pointwise')] + (['rational'] if s['obj']['rational'] else [])
    if s['form'] == 'seq':
        out = ['form=seq', 'pardim=%d' % len(s['obj']['bases'])]
        if s['obj']['rational']:
            out.append('rational')
            cp = np.array(s['obj']['cps'])
            corner = cp[tuple([0] * (cp.ndim - 1))][-1]
            if corner != 1.0:
                out.append('seq:end-weight-not-one')
        if any(c['scalar'] and c['how'] == 'evaluate' for c in s['calls'][:-1]):
            out.append('seq:scalar-evaluate-then-more')
        return out
    out = ['form=' + ('grid' if s['form'] == 'call' else s['form'])]
    if s['form'] == 'mixed':
        out.append('mixed:pardim=%d' % len(s['params']))
    o = s.get('obj')
    bases = o['bases'] if o else s['bases']
    out.append('pardim=%d' % len(bases))
    if (o and o['rational']) or s.get('rational'):
        out.append('rational')
    if o and o.get('_equal_weights'):
        out.append('equal-weights-not-one')
    if any(b['periodic'] >= 0 for b in bases):
        out.append('periodic-dir')
    if 'params' in s and not _in_domain({'bases': bases}, s['params']):
        out.append('outside')
    return out


def nontrivial(s, res):
    if s['form'] in ('seq', 'shared'):
        return True
    if 'params' not in s:
        return True
    bases = s['obj']['bases'] if 'obj' in s else s['bases']
    return _in_domain({'bases': bases}, s['params'])
