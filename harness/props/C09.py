"""C09 — affine transformations commute with evaluation, weights untouched.

Correspondence: sequences of translate / scale / rotate / mirror / project / set_dimension /
force_rational and the operator forms (+=, -=, *=, /=, +, x+, -, *, x*, /) on generated objects versus
the Lean model `AffOp.step` (lean/Splipy/Model/AffineOps.lean over Obj.translate/scale/rotate/mirror/
projectPlane/setDimension/forceRational).  Observables after every op: control-point array (shape +
values), rationality, dimension, whether the expression returned the receiver, whether
`controlpoints` is still the same array object; exception classes.

Rotations use half-angles with rational (cos, sin) and axes with rational norm, mirrors use normals
with rational norm, so the exact model sees the same matrix as the code up to libm rounding.

Oracle (model independent): after every op the real object's evaluation at several parameters (incl.
knots) must equal the mathematically intended map applied to the evaluation before the op: translation,
per-axis scaling, right-handed rotation by +theta about the axis (Rodrigues, numpy), reflection in the
plane through the origin, zeroing of coordinates, padding/dropping of coordinates; weights of
rational objects bit-identical, knot vectors/orders/periodicity unchanged, in-place forms return the
receiver, infix forms return a new object and leave the receiver untouched.  Tolerances: control points must
be the exactly transformed ones to 64 ulp; evaluated points to 1e-6 of the size of the EXPECTED CHANGE plus
a 1e-12 rounding floor (never looser than 1e-9 of the magnitude), so a near-identity transform that is
silently dropped fails.
"""
from fractions import Fraction as F
import math
import operator

import numpy as np

from vlib import gen
from vlib.val import line
from vlib.compare import diff, Err, exc_kind

ID = 'C09'
PYOBJECT_METHODS = ['translate', 'scale', 'project', 'set_dimension', 'force_rational', '__iadd__', '__isub__', '__imul__', '__itruediv__', '__add__', '__radd__', '__sub__', '__mul__', '__rmul__', '__div__', 'scale_p', 'rotate', 'mirror', 'rotation_matrix']   # splineobject.py methods re-translated and proved equal to the hand model each run
# theorems of this property stated for the object evaluator `Obj.evaluate` (bridge through C02)
EXTRA_THEOREMS = [('Splipy.Properties.Bridge', 'Splipy/Properties/Bridge.lean', 'Bridge_C09_')]
RTOL = 1e-9
ATOL = 1e-11
RULE = ('objects: pardim 1-3 x dim 2-3, rational (positive weights) or not, open/periodic directions; sequences of 1-5 ops: '
        'translate (list/tuple/ndarray, longer than dim => promotion, shorter => IndexError), scale (scalar, per-axis, nested, '
        'short/long vectors, no args), rotate (rational half-angle cos/sin incl. 0 and > pi, axes = +-coordinate axes and '
        'Pythagorean directions in all octants, default normal, 2-D objects out of plane), mirror (unit and non-unit normals; '
        '2-D => RuntimeError), project (all planes/axes), set_dimension up/down, force_rational, operator forms in-place, infix '
        'and reflected with python and numpy operands; a seventh of the objects carry integer-dtype control-point arrays; near-identity transforms (scale factors 1 +- 1e-3..1e-7 scalar/per-axis via scale, *, /, *=, /=; tiny translations and rotations) singly and in repetitions of 10-40.  non-trivial = at least one op succeeded and changed the control points.')
REQUIRED_TAGS = ['op=translate', 'op=scale', 'op=rotate', 'op=mirror', 'op=project', 'op=set_dimension', 'op=force_rational',
                 'op=iadd', 'op=isub', 'op=imul', 'op=itruediv', 'op=add', 'op=radd', 'op=sub', 'op=mul', 'op=rmul', 'op=div',
                 'pardim=1', 'pardim=2', 'pardim=3', 'dim=2', 'dim=3', 'rational', 'periodic-dir',
                 'translate-promote', 'translate-promote-rational', 'scale-per-axis-rational', 'rotate-2d', 'rotate-3d',
                 'rotate-out-of-plane', 'rotate-neg-z-2d', 'mirror-3d', 'mirror-rational', 'err:RuntimeError', 'err:IndexError',
                 'numpy-left-operand', 'set_dimension-down-rational', 'seq>=3', 'int-dtype',
                 'near-identity:scale', 'near-identity:scale-per-axis', 'near-identity:scale-div', 'near-identity:translate',
                 'near-identity:rotate', 'near-identity:repeated']

TRANSLATE_OPS = ('translate', 'iadd', 'isub', 'add', 'radd', 'sub')
SCALE_OPS = ('imul', 'itruediv', 'mul', 'rmul', 'div')
INFIX = ('add', 'radd', 'sub', 'mul', 'rmul', 'div')

# integer directions with integer Euclidean norm (Pythagorean quadruples / triples / axes)
_DIRS = [((1, 0, 0), 1), ((0, 1, 0), 1), ((0, 0, 1), 1), ((1, 2, 2), 3), ((2, 3, 6), 7), ((1, 4, 8), 9), ((4, 4, 7), 9),
         ((2, 6, 9), 11), ((6, 6, 7), 11), ((3, 4, 12), 13), ((3, 4, 0), 5), ((0, 3, 4), 5), ((4, 0, 3), 5), ((5, 12, 0), 13),
         ((2, 10, 11), 15), ((8, 9, 12), 17)]
# rational points on the unit circle for (cos(theta/2), sin(theta/2)):  m -> ((1-m^2)/(1+m^2), 2m/(1+m^2))
_HALF = [F(0), F(1, 2), F(1, 3), F(2, 3), F(1), F(3, 4), F(1, 4), F(-1, 2), F(-1, 3), F(-1), F(2), F(-3), F(1, 5), F(3, 2), F(-2, 5)]


def _direction(rng, planar_ok=True):
    (a, b, c), n = rng.choice(_DIRS)
    v = [a, b, c]
    rng.shuffle(v)
    v = [x * rng.choice([1, -1]) for x in v]
    k = rng.choice([1, 1, 1, 2, 0.5, 4, 0.25])
    return [x * k for x in v], n * k


def _half_angle(rng):
    m = rng.choice(_HALF)
    ch, sh = (1 - m * m) / (1 + m * m), 2 * m / (1 + m * m)
    if rng.random() < 0.25:
        ch, sh = -ch, sh       # half angle in the second/third quadrant: |theta| > pi
    return [ch.numerator, ch.denominator], [sh.numerator, sh.denominator]


def _vec(rng, n, small=False):
    return [gen.dyadic(rng, -4, 4, 2) for _ in range(n)]


def _factor(rng, nonzero=False):
    c = [0.5, 2.0, -1.0, 3.0, 0.25, 1.5, -2.0, 1.0, 4.0, -0.5, 1.25]
    if not nonzero:
        c = c + [0.0]
    return rng.choice(c)


# relative offsets from the identity: decimal ones (non-dyadic floats) and dyadic ones (cheap exact rationals, used in
# long repetitions); all well below / around numpy's allclose tolerances 1e-5 / 1e-8
_OFFSETS = [1e-3, 1e-4, 1e-5, 5e-6, 4e-6, 1e-6, 3e-7, 1e-7, 2.0 ** -10, 2.0 ** -13, 2.0 ** -17, 2.0 ** -20, 2.0 ** -23]


def _near_one(rng):
    return 1.0 + rng.choice([1, -1]) * rng.choice(_OFFSETS)


def _gen_near(rng, dim, rational):
    """A near-identity op: scale factors 1 +- 1e-3..1e-7, tiny translations, tiny rotations."""
    r = rng.random()
    if r < 0.6:
        form = rng.choice(['scale1', 'scaleN', 'scaleL', 'imul', 'itruediv', 'mul', 'div', 'rmul', 'imulN', 'divN'])
        if form == 'scale1':
            return {'op': 'scale', 'args': [_near_one(rng)], 'as': 'list'}
        if form == 'scaleN':
            return {'op': 'scale', 'args': [_near_one(rng) for _ in range(dim)], 'as': 'list'}
        if form == 'scaleL':
            return {'op': 'scale', 'args': [[_near_one(rng) for _ in range(dim)]], 'as': _seq_as(rng)}
        if form in ('imul', 'itruediv', 'mul', 'div', 'rmul'):
            return {'op': form, 'a': _near_one(rng), 'as': 'float'}
        if form == 'imulN':
            return {'op': rng.choice(['imul', 'mul']), 'a': [_near_one(rng) for _ in range(dim)], 'as': _seq_as(rng)}
        return {'op': rng.choice(['itruediv', 'div']), 'a': [_near_one(rng) for _ in range(dim)], 'as': 'ndarray'}
    if r < 0.8:
        name = rng.choice(['translate', 'iadd', 'isub', 'add', 'sub'])
        x = [rng.choice([1, -1, 3, 0]) * rng.choice(_OFFSETS) for _ in range(dim)]
        if not any(x):
            x[0] = 2.0 ** -20
        return {'op': name, 'x': x, 'as': _seq_as(rng)}
    # tiny rotation: half-angle parameter m = +-2^-k, theta ~ 4 m
    m = F(rng.choice([1, -1]), 2 ** rng.choice([10, 12, 15, 18, 20, 22]))
    ch, sh = (1 - m * m) / (1 + m * m), 2 * m / (1 + m * m)
    if rng.random() < 0.5:
        normal, norm = ([0, 0, 1], 1) if rng.random() < 0.5 else (None, 1)
    else:
        normal, norm = _direction(rng)
    return {'op': 'rotate', 'ch': [ch.numerator, ch.denominator], 'sh': [sh.numerator, sh.denominator], 'normal': normal, 'norm': norm}


def _seq_as(rng):
    return rng.choice(['list', 'tuple', 'ndarray'])


def _gen_op(rng, dim, rational, want=None):
    """One op for an object of the given current dimension.  Returns (op, new_dim, new_rational, ok)."""
    fam = want or rng.choice(['translate', 'translate', 'scale', 'scale', 'rotate', 'rotate', 'rotate', 'mirror', 'mirror',
                              'project', 'set_dimension', 'force_rational', 'optr', 'optr', 'opsc', 'opsc', 'near', 'near'])
    if fam == 'near':
        return _gen_near(rng, dim, rational), dim, rational, True
    if fam in ('translate', 'optr'):
        name = 'translate' if fam == 'translate' else rng.choice(['iadd', 'isub', 'add', 'radd', 'sub'])
        r = rng.random()
        if r < 0.62:
            n = dim
        elif r < 0.9:
            n = dim + 1 if dim < 3 or rng.random() < 0.8 else dim + 2
        else:
            n = dim - 1          # IndexError
        how = _seq_as(rng)
        if name == 'radd' and rng.random() < 0.6:
            how = rng.choice(['list', 'tuple'])
        op = {'op': name, 'x': _vec(rng, max(n, 0)), 'as': how}
        return op, max(dim, n), rational, n >= dim
    if fam == 'scale':
        r = rng.random()
        if r < 0.3:
            a = _factor(rng)
            args = [rng.choice([a, int(a)]) if a == int(a) else a]
        elif r < 0.55:
            args = [_factor(rng) for _ in range(dim)]
        elif r < 0.75:
            args = [[_factor(rng) for _ in range(dim)]]
        elif r < 0.83:
            args = [[_factor(rng) for _ in range(3 if dim < 3 else 4)]] if rng.random() < 0.5 else [_factor(rng) for _ in range(dim + 1)]
        elif r < 0.9:
            args = [_factor(rng) for _ in range(2)] if rng.random() < 0.5 else [[_factor(rng) for _ in range(2)]]   # (a,b) -> [a,b,b]
        elif r < 0.94:
            args = [[_factor(rng) for _ in range(dim)], 7.0]       # trailing args are dropped
        elif r < 0.97:
            args = []                                             # IndexError
        else:
            args = [_factor(rng), [_factor(rng), _factor(rng)]]   # ValueError (sequence into a matrix entry)
        ok = not (args == [] or (len(args) == 2 and isinstance(args[1], list) and not isinstance(args[0], list)))
        return {'op': 'scale', 'args': args, 'as': _seq_as(rng)}, dim, rational, ok
    if fam == 'opsc':
        name = rng.choice(SCALE_OPS)
        r = rng.random()
        nz = name in ('itruediv', 'div')
        if r < 0.55:
            a = _factor(rng, nonzero=nz)
            how = rng.choice(['float', 'int', 'npfloat']) if a == int(a) else rng.choice(['float', 'npfloat'])
            if name == 'rmul' and how == 'npfloat' and rng.random() < 0.7:
                how = 'float'
        else:
            a = [_factor(rng, nonzero=nz) for _ in range(dim)]
            how = 'ndarray' if nz else _seq_as(rng)      # `1.0 / list` is a Python TypeError, not Splipy's business
            if name == 'rmul' and how == 'ndarray' and rng.random() < 0.7:
                how = rng.choice(['list', 'tuple'])
        return {'op': name, 'a': a, 'as': how}, dim, rational, True
    if fam == 'rotate':
        ch, sh = _half_angle(rng)
        r = rng.random()
        if r < 0.2:
            normal, norm = None, 1
        elif r < 0.4:
            k = rng.choice([1, -1, 2, -0.5])
            normal, norm = [0, 0, k], abs(k)
        else:
            normal, norm = _direction(rng)
        op = {'op': 'rotate', 'ch': ch, 'sh': sh, 'normal': normal, 'norm': norm}
        inplane = normal is None or (normal[0] == 0 and normal[1] == 0)
        nd = dim if inplane else 3
        return op, nd, rational, nd in (2, 3)
    if fam == 'mirror':
        normal, norm = _direction(rng)
        return {'op': 'mirror', 'normal': normal, 'norm': norm, 'as': _seq_as(rng)}, dim, rational, dim == 3
    if fam == 'project':
        plane = rng.choice(['xy', 'xz', 'yz', 'x', 'y', 'z', 'XY', 'zx', 'xyz', 'Yz', ''])
        return {'op': 'project', 'plane': plane}, dim, rational, dim <= 3
    if fam == 'set_dimension':
        n = rng.choice([2, 3, 3, 2, 4, 1]) if rng.random() < 0.85 else dim
        return {'op': 'set_dimension', 'n': n}, n, rational, True
    if fam == 'force_rational':
        return {'op': 'force_rational'}, dim, True, True
    raise AssertionError(fam)


def _params(rng, o, n):
    ps = []
    for b in o['bases']:
        pts = gen.eval_points(rng, b, per_span=1, outside=False)
        knots = [t for t in gen.distinct_knots(b)]
        rng.shuffle(pts)
        sel = pts[:n]
        info = gen.basis_info(b)
        if rng.random() < 0.5 and info['start'] not in sel:
            sel[0] = info['start']
        if rng.random() < 0.5 and b['periodic'] < 0 and info['end'] not in sel:
            sel[-1] = info['end']
        ps.append(sorted(set(sel)))
    return ps


_FOCUS = [
    ['rotate'], ['mirror'], ['translate'], ['scale'], ['project'], ['optr'], ['opsc'], ['set_dimension', 'rotate'],
    ['force_rational', 'scale'], ['force_rational', 'translate'], ['set_dimension', 'mirror'], ['rotate', 'rotate'],
    ['mirror', 'mirror'], ['translate', 'rotate', 'scale'], ['opsc', 'optr', 'rotate'], ['set_dimension', 'set_dimension'],
    ['near'], ['near'], ['near', 'near', 'near'], ['force_rational', 'near'], ['scale', 'near', 'translate'], ['near', 'optr', 'near'],
]


def generate(rng, tier):
    specs = []
    # the documented corner stones, always present
    o2 = gen.rand_object(rng, pardim=1, dim=2, rational=False, pmax=3, max_interior=1, periodic_prob=0.0)
    o2r = gen.rand_object(rng, pardim=2, dim=2, rational=True, pmax=3, max_interior=1, periodic_prob=0.0)
    o3r = gen.rand_object(rng, pardim=1, dim=3, rational=True, pmax=3, max_interior=1, periodic_prob=0.5)
    fixed = [
        (o2, [{'op': 'rotate', 'ch': [3, 5], 'sh': [4, 5], 'normal': [0, 0, -1], 'norm': 1}]),
        (o2r, [{'op': 'rotate', 'ch': [3, 5], 'sh': [4, 5], 'normal': [0, 0, -2], 'norm': 2}]),
        (o2, [{'op': 'rotate', 'ch': [4, 5], 'sh': [3, 5], 'normal': [1, 0, 0], 'norm': 1}]),
        (o2r, [{'op': 'rotate', 'ch': [4, 5], 'sh': [3, 5], 'normal': [0, -2, 0], 'norm': 2}]),
        (o2, [{'op': 'div', 'a': 2.0, 'as': 'float'}]),
        (o3r, [{'op': 'div', 'a': [2.0, 4.0, 0.5], 'as': 'ndarray'}]),
        (o2, [{'op': 'radd', 'x': [1.0, 2.0], 'as': 'ndarray'}]),
        (o2r, [{'op': 'rmul', 'a': 2.0, 'as': 'npfloat'}]),
        (o2r, [{'op': 'translate', 'x': [1.0, -2.0, 0.5], 'as': 'tuple'}]),
        (o3r, [{'op': 'scale', 'args': [2.0, -0.5, 3.0], 'as': 'list'}]),
        (o3r, [{'op': 'mirror', 'normal': [2, 4, 4], 'norm': 6, 'as': 'tuple'}, {'op': 'mirror', 'normal': [1, 2, 2], 'norm': 3, 'as': 'list'}]),
        (o3r, [{'op': 'set_dimension', 'n': 2}, {'op': 'set_dimension', 'n': 4}, {'op': 'rotate', 'ch': [3, 5], 'sh': [4, 5], 'normal': None, 'norm': 1}]),
        (o2, [{'op': 'set_dimension', 'n': 1}, {'op': 'rotate', 'ch': [3, 5], 'sh': [4, 5], 'normal': None, 'norm': 1}]),
        (o2, [{'op': 'mirror', 'normal': [1, 0, 0], 'norm': 1, 'as': 'list'}]),
        (o2, [{'op': 'itruediv', 'a': 0.0, 'as': 'float'}]),
        (o2, [{'op': 'force_rational'}, {'op': 'force_rational'}, {'op': 'set_dimension', 'n': 2}, {'op': 'project', 'plane': 'y'}]),
    ]
    for o, ops in fixed:
        specs.append({'obj': o, 'ops': ops, 'params': _params(rng, o, 3)})
    # integer control-point arrays (dtype int64) moved by non-integer amounts
    i2, i2r, i3r = _int_object(o2), _int_object(o2r), _int_object(o3r)
    for o, ops in [
        (i2, [{'op': 'translate', 'x': [0.5, 0.25], 'as': 'list'}]),
        (i2, [{'op': 'scale', 'args': [1.5], 'as': 'list'}]),
        (i2, [{'op': 'itruediv', 'a': 4.0, 'as': 'float'}, {'op': 'isub', 'x': [0.5, 0.25], 'as': 'tuple'}]),
        (i2, [{'op': 'translate', 'x': [0.5, 0.5, 0.5], 'as': 'ndarray'}]),
        (i2r, [{'op': 'add', 'x': [0.25, 0.75], 'as': 'list'}, {'op': 'mul', 'a': 0.5, 'as': 'float'}]),
        (i3r, [{'op': 'div', 'a': [2.0, 4.0, 8.0], 'as': 'ndarray'}, {'op': 'imul', 'a': [0.5, 1.5, 2.5], 'as': 'list'}]),
        (i3r, [{'op': 'project', 'plane': 'xy'}, {'op': 'set_dimension', 'n': 2}, {'op': 'force_rational'}, {'op': 'iadd', 'x': [0.5, 0.5], 'as': 'list'}]),
    ]:
        specs.append({'obj': o, 'ops': ops, 'params': _params(rng, o, 3), 'int_cps': True})
    # near-identity transforms whose individual effect is far below the coordinate magnitude but accumulates
    h17, h20 = 1.0 + 2.0 ** -17, 1.0 - 2.0 ** -20
    m18 = F(1, 2 ** 18)
    tiny_rot = {'op': 'rotate', 'ch': [((1 - m18 * m18) / (1 + m18 * m18)).numerator, ((1 - m18 * m18) / (1 + m18 * m18)).denominator],
                'sh': [(2 * m18 / (1 + m18 * m18)).numerator, (2 * m18 / (1 + m18 * m18)).denominator], 'normal': None, 'norm': 1}
    for o, ops in [
        (o2, [{'op': 'scale', 'args': [1.0 + 5e-6], 'as': 'list'}]),
        (o2, [{'op': 'div', 'a': 1.0 - 4e-6, 'as': 'float'}]),
        (o3r, [{'op': 'scale', 'args': [1.0 + 4e-6, 1.0 - 3e-6, 1.0 + 8e-6], 'as': 'list'}]),
        (o2r, [{'op': 'imul', 'a': h17, 'as': 'float'}] * 40),
        (o2, [{'op': 'itruediv', 'a': h20, 'as': 'float'}] * 30),
        (o3r, [{'op': 'mul', 'a': [h17, h20, h17], 'as': 'tuple'}] * 12),
        (o2, [{'op': 'imul', 'a': 1.0 + 1e-6, 'as': 'float'}, {'op': 'iadd', 'x': [0.5, -0.25], 'as': 'list'}, {'op': 'itruediv', 'a': 1.0 + 1e-6, 'as': 'float'}]),
        (o2r, [{'op': 'iadd', 'x': [2.0 ** -20, -2.0 ** -22], 'as': 'list'}] * 25),
        (o2, [{'op': 'translate', 'x': [1e-6, 0.0], 'as': 'tuple'}, {'op': 'sub', 'x': [0.0, 3e-7], 'as': 'ndarray'}]),
        (o2r, [tiny_rot] * 20),
        (o3r, [dict(tiny_rot, normal=[2, -4, 4], norm=6)] * 10),
    ]:
        specs.append({'obj': o, 'ops': ops, 'params': _params(rng, o, 3)})
    nobj = 130 if tier == 'quick' else 1300
    for oi in range(nobj):
        pardim = [1, 2, 3, 1, 2, 1][oi % 6]
        dim = [2, 3][(oi // 2) % 2]
        rational = (oi % 5) in (1, 3)
        o = gen.rand_object(rng, pardim=pardim, dim=dim, rational=rational, pmax=4 if pardim < 3 else 3,
                            max_interior=2 if pardim < 3 else 1, periodic_prob=0.3)
        npar = {1: 4, 2: 3, 3: 2}[pardim]
        int_cps = (oi % 7 == 3)
        if int_cps:
            o = _int_object(o)
        for si in range(6):
            if si < 2:
                fams = list(rng.choice(_FOCUS))
            else:
                fams = [None] * rng.choice([1, 2, 3, 3, 4, 5])
            ops = []
            d, rat = dim, rational
            for fam in fams:
                op, _, rat, _ = _gen_op(rng, d, rat, fam)
                ops.append(op)
                want = _intended(op, d)
                if want is None or want == 'RuntimeError':
                    if _defect(op, d):
                        ops.pop()    # a known-defect form on an input the property does not cover: nothing to learn
                        if not ops:
                            ops.append({'op': 'force_rational'})
                    break            # nothing follows an op whose outcome the property does not define
                d = want[0]
            spec = {'obj': o, 'ops': ops, 'params': _params(rng, o, npar)}
            if int_cps:
                spec['int_cps'] = True
            specs.append(spec)
    return specs


# ---------------------------------------------------------------------------------------------
# model side

def _fr(p):
    return F(p[0], p[1])


def _unit(normal, norm):
    return [F(float(x)) / F(float(norm)) for x in normal]


def _enc_op(op):
    k = op['op']
    if k in TRANSLATE_OPS:
        return [k, list(op['x'])]
    if k == 'scale':
        return [k, [list(a) if isinstance(a, list) else a for a in op['args']]]
    if k in SCALE_OPS:
        return [k, list(op['a']) if isinstance(op['a'], list) else op['a']]
    if k == 'rotate':
        normal = op['normal'] if op['normal'] is not None else [0, 0, 1]
        return [k, _fr(op['ch']), _fr(op['sh']), list(normal), _unit(normal, op['norm'])]
    if k == 'mirror':
        return [k, _unit(op['normal'], op['norm'])]
    if k == 'project':
        return [k, [c in op['plane'].lower() for c in 'xyz']]
    if k == 'set_dimension':
        return [k, op['n']]
    if k == 'force_rational':
        return [k]
    raise AssertionError(k)


def model_line(s):
    return line('affine_seq', gen.enc_object(s['obj']), [_enc_op(op) for op in s['ops']])


# ---------------------------------------------------------------------------------------------
# implementation side

def _theta(op):
    return 2.0 * math.atan2(float(_fr(op['sh'])), float(_fr(op['ch'])))


def _seq(x, how):
    if how == 'list':
        return list(x)
    if how == 'tuple':
        return tuple(x)
    if how == 'ndarray':
        return np.array(x, dtype=float)
    raise AssertionError(how)


def _scalar_or_seq(a, how):
    if isinstance(a, list):
        return _seq(a, how)
    if how == 'int':
        return int(a)
    if how == 'npfloat':
        return np.float64(a)
    return float(a)


def _apply(o, op):
    """Evaluate the Python expression the op stands for; returns its value."""
    k = op['op']
    if k == 'translate':
        return o.translate(_seq(op['x'], op['as']))
    if k == 'scale':
        args = [_seq(a, op['as']) if isinstance(a, list) else a for a in op['args']]
        return o.scale(*args)
    if k == 'rotate':
        if op['normal'] is None:
            return o.rotate(_theta(op))
        return o.rotate(_theta(op), tuple(op['normal']))
    if k == 'mirror':
        return o.mirror(_seq(op['normal'], op['as']))
    if k == 'project':
        return o.project(op['plane'])
    if k == 'set_dimension':
        return o.set_dimension(op['n'])
    if k == 'force_rational':
        return o.force_rational()
    if k in TRANSLATE_OPS:
        x = _seq(op['x'], op['as'])
        return {'iadd': lambda: operator.iadd(o, x), 'isub': lambda: operator.isub(o, x), 'add': lambda: o + x,
                'radd': lambda: x + o, 'sub': lambda: o - x}[k]()
    if k in SCALE_OPS:
        a = _scalar_or_seq(op['a'], op['as'])
        return {'imul': lambda: operator.imul(o, a), 'itruediv': lambda: operator.itruediv(o, a), 'mul': lambda: o * a,
                'rmul': lambda: a * o, 'div': lambda: o / a}[k]()
    raise AssertionError(k)


def _mk(sp, s):
    """The real object of a spec.  `int_cps`: the control points are integers and are handed to the
    constructor as an integer array (numpy keeps dtype int64, as for `Curve(basis, [[0, 0], [1, 2]])`)."""
    if not s.get('int_cps'):
        return gen.mk_object(sp, s['obj'])
    o = s['obj']
    bases = [gen.mk_basis(sp, b) for b in o['bases']]
    cps = np.array(o['cps'], dtype=float)
    icps = cps.astype(np.int64)
    assert np.array_equal(icps, cps)
    cls = {1: sp.Curve, 2: sp.Surface, 3: sp.Volume}[len(bases)]
    return cls(*bases, icps, o['rational'], raw=True)


def _int_object(o):
    """Same object with every control point (and weight) scaled to an integer (dyadic quarter steps x 4)."""
    cps = np.array(o['cps'], dtype=float) * 4.0
    assert np.array_equal(cps, np.round(cps))
    return {'bases': o['bases'], 'cps': cps.tolist(), 'rational': o['rational']}


def _is_obj(sp, x):
    return isinstance(x, sp.SplineObject)


def run_impl(sp, s):
    o = _mk(sp, s)
    out = []
    with np.errstate(all='ignore'):
        for op in s['ops']:
            before = o.controlpoints
            try:
                res = _apply(o, op)
            except Exception as e:  # noqa: BLE001 - the class is the observable
                out.append(Err(exc_kind(e), str(e)[:200]))
                break
            if not _is_obj(sp, res):
                out.append(['not-a-spline-object', type(res).__name__])
                break
            cps = np.asarray(res.controlpoints, dtype=float)
            out.append([list(cps.shape), cps.reshape(-1).tolist(), bool(res.rational), int(res.dimension),
                        res is o, res.controlpoints is before])
            o = res
    return out


def compare(s, iv, mv):
    return diff(iv, mv, RTOL, ATOL)


# ---------------------------------------------------------------------------------------------
# oracle: transform-of-evaluation on the real code

def _pad(pts, n):
    """Embed / truncate the last axis to n coordinates (zeros appended, last ones dropped)."""
    d = pts.shape[-1]
    if n == d:
        return pts.copy()
    if n < d:
        return pts[..., :n].copy()
    out = np.zeros(pts.shape[:-1] + (n,))
    out[..., :d] = pts
    return out


def _rodrigues(p, axis, theta):
    k = np.asarray(axis, dtype=float)
    k = k / math.sqrt(float(np.dot(k, k)))
    c, s = math.cos(theta), math.sin(theta)
    return p * c + np.cross(k, p) * s + np.multiply.outer(p @ k, k) * (1 - c)


def _scale_vector(args, dim):
    """Intended per-axis factors, or None when the documentation does not say (fewer than dim factors)."""
    if len(args) == 0:
        return None
    if isinstance(args[0], list):
        s = list(args[0])
    else:
        if any(isinstance(a, list) for a in args):
            return None
        s = list(args)
    if len(s) == 1:
        if dim > 3:
            return None      # outside the property's quantifier (dimension 2-3); the code raises IndexError
        return np.array([s[0]] * dim, dtype=float)
    if len(s) < dim:
        return None
    return np.array(s[:dim], dtype=float)


def _intended(op, dim):
    """(new_dim, T, Lipschitz constant of T) for the op on an object of dimension `dim`; T maps an array of evaluated points
    (..., dim) to (..., new_dim).  None: the property does not define the outcome (the documented
    exceptions and malformed arguments); 'RuntimeError': the documented exception is demanded."""
    k = op['op']
    if k in TRANSLATE_OPS:
        x = np.array(op['x'], dtype=float)
        if k in ('isub', 'sub'):
            x = -x
        if len(x) < dim:
            return None
        n = len(x)
        return n, (lambda p: _pad(p, n) + x), 1.0
    if k == 'scale' or k in SCALE_OPS:
        if k == 'scale':
            sv = _scale_vector(op['args'], dim)
        else:
            a = op['a']
            if k in ('itruediv', 'div'):
                if (isinstance(a, list) and any(x == 0 for x in a)) or (not isinstance(a, list) and a == 0):
                    return None
                a = [1.0 / x for x in a] if isinstance(a, list) else 1.0 / a
            sv = _scale_vector([a], dim)
        if sv is None:
            return None
        return dim, (lambda p: p * sv), float(np.max(np.abs(sv), initial=0.0))
    if k == 'rotate':
        theta = _theta(op)
        normal = op['normal'] if op['normal'] is not None else [0, 0, 1]
        inplane = normal[0] == 0 and normal[1] == 0
        if inplane and dim == 2:
            # rotation about +-e_z restricted to the xy-plane: by +theta seen from the tip of the axis
            th = theta if normal[2] > 0 else -theta
            c, s_ = math.cos(th), math.sin(th)
            return 2, (lambda p: np.stack([p[..., 0] * c - p[..., 1] * s_, p[..., 0] * s_ + p[..., 1] * c], axis=-1)), 1.0
        if inplane and dim != 3:
            return 'RuntimeError'
        if dim <= 3:
            return 3, (lambda p: _rodrigues(_pad(p, 3), normal, theta)), 1.0
        return None      # dimension > 3 is outside the property's quantifier (the code silently drops coordinates)
    if k == 'mirror':
        if dim != 3:
            return 'RuntimeError'
        n = np.array(op['normal'], dtype=float)
        n = n / math.sqrt(float(np.dot(n, n)))
        return 3, (lambda p: p - 2 * np.multiply.outer(p @ n, n)), 1.0
    if k == 'project':
        if dim > 3:
            return None
        keep = np.array([1.0 if c in op['plane'].lower() else 0.0 for c in 'xyz'][:dim])
        return dim, (lambda p: p * keep), 1.0
    if k == 'set_dimension':
        n = op['n']
        return n, (lambda p: _pad(p, n)), 1.0
    if k == 'force_rational':
        return dim, (lambda p: p.copy()), 1.0
    raise AssertionError(k)


def _snapshot(o):
    return (np.array(o.controlpoints, dtype=float, copy=True), int(o.dimension), bool(o.rational),
            [(int(b.order), np.array(b.knots, dtype=float, copy=True), int(b.periodic)) for b in o.bases])


def _same_bases(a, b):
    return len(a) == len(b) and all(x[0] == y[0] and x[2] == y[2] and np.array_equal(x[1], y[1]) for x, y in zip(a, b))


def oracle(sp, s):
    o = _mk(sp, s)
    params = s['params']
    fails = []
    with np.errstate(all='ignore'):
        cum = o.evaluate(*params).reshape(tuple(len(p) for p in params) + (o.dimension,))
        cum_tol = 0.0
        for i, op in enumerate(s['ops']):
            tag = 'step %d [%s]: ' % (i, op['op'])
            dim = int(o.dimension)
            want = _intended(op, dim)
            grid = tuple(len(p) for p in params)
            old_pts = o.evaluate(*params).reshape(grid + (dim,))
            cps0, dim0, rat0, bases0 = _snapshot(o)
            try:
                res = _apply(o, op)
            except Exception as e:  # noqa: BLE001
                kind = exc_kind(e)
                if want is None:
                    return fails          # outcome not constrained by the property
                if want == 'RuntimeError':
                    if kind != 'RuntimeError':
                        fails.append(tag + 'raised %s instead of the documented RuntimeError' % kind)
                    return fails
                fails.append(tag + 'raised %s: %s' % (kind, str(e)[:120]))
                return fails
            if want == 'RuntimeError':
                fails.append(tag + 'did not raise the documented RuntimeError (dimension %d)' % dim)
                return fails
            if not _is_obj(sp, res):
                fails.append(tag + 'the expression evaluated to a %s, not a spline object' % type(res).__name__)
                return fails
            if want is None:
                return fails
            new_dim, T, lip = want
            # identity of the result
            if op['op'] in INFIX:
                if res is o:
                    fails.append(tag + 'infix operator returned the receiver')
                c1, d1, r1, b1 = _snapshot(o)
                if not (np.array_equal(c1, cps0) and d1 == dim0 and r1 == rat0 and _same_bases(b1, bases0)):
                    fails.append(tag + 'infix operator modified the receiver')
            elif res is not o:
                fails.append(tag + 'in-place form did not return the receiver')
            if type(res) is not type(o):
                fails.append(tag + 'result type %s differs from %s' % (type(res).__name__, type(o).__name__))
            # parametrisation untouched
            _, d1, r1, b1 = _snapshot(res)
            if not _same_bases(b1, bases0):
                fails.append(tag + 'knot vectors / orders / periodicity changed')
            if d1 != new_dim:
                fails.append(tag + 'dimension is %d, expected %d' % (d1, new_dim))
                return fails
            exp_rat = rat0 or op['op'] == 'force_rational'
            if r1 != exp_rat:
                fails.append(tag + 'rational flag is %r, expected %r' % (r1, exp_rat))
                return fails
            ncp = np.asarray(res.controlpoints, dtype=float)
            if ncp.shape != cps0.shape[:-1] + (new_dim + (1 if exp_rat else 0),):
                fails.append(tag + 'control-point array has shape %s' % (ncp.shape,))
                return fails
            # weights literally unchanged
            if rat0 and not np.array_equal(ncp[..., -1], cps0[..., -1]):
                fails.append(tag + 'weights of the rational object changed')
            if not rat0 and exp_rat and not np.all(ncp[..., -1] == 1.0):
                fails.append(tag + 'force_rational did not give unit weights')
            # control points: the homogeneous map  P -> L P + w T(0)  applied exactly (to rounding: a few ulp)
            eps = np.finfo(float).eps
            phys0 = cps0[..., :dim0]
            wts0 = cps0[..., -1:] if rat0 else np.ones(cps0.shape[:-1] + (1,))
            t0 = T(np.zeros(cps0.shape[:-1] + (dim0,)))
            exp_cp = T(phys0) + (wts0 - 1.0) * t0
            got_cp = ncp[..., :new_dim]
            cp_mag = float(np.max(np.abs(phys0), initial=0.0)) * max(1.0, lip) + float(np.max(np.abs(wts0 * t0), initial=0.0))
            cp_err = float(np.max(np.abs(got_cp - exp_cp), initial=0.0))
            if not (cp_err <= 64 * eps * cp_mag):
                j = np.unravel_index(int(np.argmax(np.abs(got_cp - exp_cp).reshape(-1))), got_cp.shape)
                fails.append(tag + 'control points are not the exactly transformed ones: |new - T(old)| = %.3g (allowed %.3g, expected change %.3g) at %s; new %r, expected %r, before %r'
                             % (cp_err, 64 * eps * cp_mag, float(np.max(np.abs(exp_cp - _pad(phys0, new_dim)), initial=0.0)), j[:-1],
                                got_cp[j[:-1]].tolist(), exp_cp[j[:-1]].tolist(), phys0[j[:-1]].tolist()))
                return fails
            # evaluation commutes; the tolerance is relative to the size of the EXPECTED CHANGE (plus a rounding floor), so a
            # near-identity transform that is silently dropped fails although the points barely move
            exp = T(old_pts)
            new_pts = res.evaluate(*params).reshape(grid + (new_dim,))
            scale = 1.0 + float(np.max(np.abs(exp), initial=0.0)) + float(np.max(np.abs(old_pts), initial=0.0))
            change = float(np.max(np.abs(exp - _pad(old_pts, new_dim)), initial=0.0))
            floor = 1e-12 * (scale + cp_mag)
            tol = min(1e-9 * scale, 1e-6 * change + floor)
            err = float(np.max(np.abs(new_pts - exp), initial=0.0))
            if not (err <= tol):
                j = np.unravel_index(int(np.argmax(np.abs(new_pts - exp).reshape(-1))), new_pts.shape) if new_pts.size else ()
                fails.append(tag + 'evaluation does not commute with the map: |new - T(old)| = %.3g (allowed %.3g; expected change %.3g, scale %.3g) at grid index %s; new %s, T(old) %s'
                             % (err, tol, change, scale, j[:-1], np.round(new_pts[j[:-1]], 12).tolist(), np.round(exp[j[:-1]], 12).tolist()))
                return fails
            # composition: the map accumulated from the first object
            cum = T(cum)
            cum_tol = lip * cum_tol + 2.0 * floor
            o = res
        if s['ops'] and not fails:
            final = o.evaluate(*params).reshape(cum.shape)
            sc = 1.0 + float(np.max(np.abs(cum), initial=0.0))
            if not float(np.max(np.abs(final - cum), initial=0.0)) <= 1e-12 * sc + 4.0 * cum_tol:
                fails.append('composition: final evaluation differs from the composed map applied to the first evaluation by %.3g'
                             % float(np.max(np.abs(final - cum))))
    return fails


# ---------------------------------------------------------------------------------------------
# classification, tags

def _walk(s):
    """Yield (index, op, dim_before, rational_before) following the intended semantics."""
    cps = np.array(s['obj']['cps'], dtype=float)
    rat = bool(s['obj']['rational'])
    dim = cps.shape[-1] - (1 if rat else 0)
    for i, op in enumerate(s['ops']):
        yield i, op, dim, rat
        want = _intended(op, dim)
        if want is None or want == 'RuntimeError':
            return
        dim = want[0]
        if op['op'] == 'force_rational':
            rat = True


def _defect(op, dim):
    """Known-finding class an op belongs to (still open in the pinned code)."""
    k = op['op']
    if k in ('radd', 'rmul') and op['as'] in ('ndarray', 'npfloat'):
        return 'numpy-left-operand-returns-ndarray'
    if k == 'rotate' and dim == 2 and op['normal'] is not None and op['normal'][0] == 0 and op['normal'][1] == 0 \
            and op['normal'][2] < 0 and _fr(op['sh']) != 0 and _fr(op['ch']) != 0:
        return 'rotate-2d-ignores-axis-sign'
    return None


def _regression(op, msg):
    """Label of a repaired class when its symptom is seen again (not suppressed by known_findings)."""
    if op['op'] == 'div' and ('TypeError' in msg or 'not a spline object' in msg or 'broadcast' in msg):
        return 'infix-truediv-undefined'
    return None


def classify(s, res=None):
    """Label of the known-defect class of the FIRST failing step (the oracle stops there)."""
    step = None
    msg = ''
    if res is not None and res.get('oracle'):
        msg = res['oracle'][0]
        if msg.startswith('step '):
            step = int(msg.split(' ')[1])
    for i, op, dim, rat in _walk(s):
        d = _defect(op, dim)
        if step is None:
            if d:
                return d
        elif i == step:
            return d or _regression(op, msg)
    return None


def _near_identity(op, dim):
    """Tag suffix when the op is a non-trivial transform within 2e-3 (relative) of the identity."""
    k = op['op']
    if k == 'scale' or k in SCALE_OPS:
        want = _intended(op, dim) if dim <= 3 else None
        if not isinstance(want, tuple):
            return None
        sv = want[1](np.ones(dim))
        if np.all(np.abs(sv - 1.0) <= 2e-3) and np.any(sv != 1.0):
            per_axis = len(set(sv.tolist())) > 1
            return 'scale-per-axis' if per_axis else ('scale-div' if k in ('itruediv', 'div') else 'scale')
        return None
    if k in TRANSLATE_OPS:
        x = np.array(op['x'], dtype=float)
        return 'translate' if len(x) and np.any(x != 0) and np.all(np.abs(x) <= 2e-3) else None
    if k == 'rotate':
        sh = abs(float(_fr(op['sh'])))
        return 'rotate' if 0 < sh <= 1e-3 and _fr(op['ch']) > 0 else None
    return None


def tags(s, res):
    out = set()
    nrep = 0
    o = s['obj']
    out.add('pardim=%d' % len(o['bases']))
    if o['rational']:
        out.add('rational')
    if any(b['periodic'] >= 0 for b in o['bases']):
        out.add('periodic-dir')
    if len(s['ops']) >= 3:
        out.add('seq>=3')
    if s.get('int_cps'):
        out.add('int-dtype')
    first = True
    for i, op, dim, rat in _walk(s):
        if first:
            out.add('dim=%d' % dim)
            first = False
        k = op['op']
        out.add('op=' + k)
        ni = _near_identity(op, dim)
        if ni:
            out.add('near-identity:' + ni)
            nrep += 1
            if nrep >= 10:
                out.add('near-identity:repeated')
        if k in TRANSLATE_OPS and len(op['x']) > dim:
            out.add('translate-promote')
            if rat:
                out.add('translate-promote-rational')
        if k in TRANSLATE_OPS or k == 'mirror' or k == 'scale':
            out.add('vec-as=' + op['as'])
        if k == 'scale':
            sv = _scale_vector(op['args'], dim)
            if sv is not None and len(set(sv.tolist())) > 1:
                out.add('scale-per-axis')
                if rat:
                    out.add('scale-per-axis-rational')
            if len(op['args']) >= 1 and not isinstance(op['args'][0], list) and len(op['args']) < dim and len(op['args']) > 1:
                out.add('scale-short-vector')
        if k in SCALE_OPS and isinstance(op['a'], list) and rat:
            out.add('scale-per-axis-rational')
        if k in ('radd', 'rmul') and op['as'] in ('ndarray', 'npfloat'):
            out.add('numpy-left-operand')
        if k == 'rotate':
            normal = op['normal'] if op['normal'] is not None else [0, 0, 1]
            inplane = normal[0] == 0 and normal[1] == 0
            if dim == 2 and inplane:
                out.add('rotate-2d')
                if normal[2] < 0:
                    out.add('rotate-neg-z-2d')
            elif dim == 2:
                out.add('rotate-out-of-plane')
            elif dim == 3:
                out.add('rotate-3d')
                if sum(1 for x in normal if x != 0) == 3:
                    out.add('rotate-3d-generic-axis')
            if op['normal'] is None:
                out.add('rotate-default-normal')
            if _fr(op['ch']) < 0:
                out.add('rotate-angle>pi')
        if k == 'mirror' and dim == 3:
            out.add('mirror-3d')
            if rat:
                out.add('mirror-rational')
        if k == 'set_dimension':
            if op['n'] < dim:
                out.add('set_dimension-down')
                if rat:
                    out.add('set_dimension-down-rational')
            elif op['n'] > dim:
                out.add('set_dimension-up')
        if k == 'force_rational' and not rat:
            out.add('force_rational-nonrational')
    if res is not None:
        iv = res.get('impl')
        if isinstance(iv, list) and iv and isinstance(iv[-1], Err):
            out.add('err:' + iv[-1].kind)
        d = classify(s, res) if res.get('oracle') else None
        if d:
            out.add('defect:' + d)
    return sorted(out)


def nontrivial(s, res):
    iv = res.get('impl') if res else None
    if not isinstance(iv, list) or not iv or not isinstance(iv[0], list) or len(iv[0]) < 2:
        return False
    cps0 = np.array(s['obj']['cps'], dtype=float).reshape(-1).tolist()
    last = [x for x in iv if isinstance(x, list) and len(x) == 6]
    return bool(last) and last[-1][1] != cps0
