"""C01 — basis evaluation equals the Cox–de Boor definition.

Correspondence: BSplineBasis.evaluate(t, d, from_right, sparse) of the rebuilt implementation
(Cython extension recompiled from the working tree) versus the Lean model `Basis.evaluate` /
`evalRow` run at Q, whole rows, dense and sparse triples.
Oracle (failing-input search): exact Fraction Cox–de Boor with the effective point/side rules the
property states, plus the consequences (non-negativity, partition of unity, zero high derivatives,
sparse = dense).
"""
from fractions import Fraction as F

import numpy as np

from vlib import gen, exact
from vlib.val import line

ID = 'C01'
PYBASIS_METHODS = ['snap', 'num_functions', 'start', 'end']   # basis.py methods re-translated and proved equal to the hand model each run
RTOL = 1e-9
ATOL = 1e-11
RULE = ('bases: orders 1..6 (8 thorough), open / non-open / periodic with every continuity, interior multiplicities 1..p, '
        'minimum sizes, random affine placement; points: every knot from both sides, both ends, span interiors, periodic '
        'points several periods away; d = 0..p+1.  distinct = distinct (basis, t, d, side); non-trivial = t in the domain '
        '(after wrapping) so that a non-zero row is demanded.')
REQUIRED_TAGS = ['free-multiplicities', 'end-knot-repeated-inside@end:right', 'far-from-origin', 'far:left@interior-knot', 'multi-point-call', 'multi-point:left', 'periodic', 'open', 'left@interior-knot-mult>=2', 'periodic-wrap-n<p', 'd>=p', 'left@start', 'at-end', 'outside-periodic']
TOLF = F(1, 10 ** 10)


def _free_basis(rng, p):
    """Arbitrary non-decreasing (non-open) knot vector: multiplicities 1..p ANYWHERE, in particular the
    domain-end knot repeated inside the function range (knots[n_all-1] == knots[n_all]) and the
    domain-start knot repeated (knots[p-1] == knots[p])."""
    while True:
        vals = gen.increasing(rng, rng.randint(3, 7))
        knots = []
        for v in vals:
            knots += [v] * rng.randint(1, p)
        if len(knots) < 2 * p:
            continue
        n_all = len(knots) - p
        if knots[p - 1] < knots[n_all]:
            return {'order': p, 'knots': knots, 'periodic': -1}


def _repeated_end_basis(rng, p):
    """Non-open vector whose domain-end value occupies positions n_all-1 and n_all (and possibly more)."""
    assert p >= 2
    left = gen.increasing(rng, rng.randint(p, p + 3))
    e = left[-1] + 1.0
    m = rng.randint(2, p)                      # multiplicity of the end value
    tail = [e + 0.5 * (j + 1) for j in range(p - 1)]   # p-1 knots strictly after: end index = n_all
    # place the m copies so that the LAST copy sits at index n_all
    knots = left + [e] * m + tail
    # n_all = len(knots) - p must be the index of the last copy of e
    n_all = len(knots) - p
    assert knots[n_all] == e and knots[n_all - 1] == e, (knots, n_all)
    return {'order': p, 'knots': knots, 'periodic': -1}


def generate(rng, tier):
    specs = []
    # non-open vectors with repeated domain-end / arbitrary multiplicities (every point, all d, both sides)
    for bi in range(10 if tier == 'quick' else 120):
        p = rng.randint(2, 5)
        b = _repeated_end_basis(rng, p) if bi % 2 == 0 else _free_basis(rng, p)
        info = gen.basis_info(b)
        pts = [x for x in gen.distinct_knots(b) if info['start'] <= x <= info['end']]
        pts += [(x + y) / 2 for x, y in zip(pts[:-1], pts[1:])]
        for t in pts:
            for d in range(0, p):
                for right in (True, False):
                    specs.append({'basis': b, 't': t, 'd': d, 'right': right, 'free': True})
    nb = 70 if tier == 'quick' else 1200
    pmax = 6 if tier == 'quick' else 8
    for bi in range(nb):
        r = rng.random()
        p = rng.randint(1, pmax)
        if bi % 7 == 3 and p >= 3:
            # minimum-size periodic bases (n < p wraps several images into one row)
            k = rng.randint(0, p - 2)
            b = gen.periodic_basis(rng, p, k, n_interior=rng.choice([0, 0, 1]))
        elif r < 0.35 and p >= 2:
            b = gen.periodic_basis(rng, p, rng.randint(0, p - 2), wide=(tier == 'thorough'))
        elif r < 0.5:
            b = gen.open_basis(rng, p, clamped=False)
        else:
            b = gen.open_basis(rng, p, wide=(tier == 'thorough'))
        far = False
        if bi % 9 == 5:
            # parametrisations far from the origin (|knots| >= 2^21: half an ulp exceeds the knot
            # tolerance there, so any "t - tol" style shortcut in the kernel loses its effect); all
            # numbers stay dyadic with < 53 significant bits, so they are exact in double precision
            off = float(2 ** rng.randint(21, 30)) * rng.choice([1, -1])
            b = dict(b, knots=[t + off for t in b['knots']])
            far = True
        pts = gen.eval_points(rng, b, per_span=1 if tier == 'quick' else 2)
        if b['periodic'] < 0:
            info = gen.basis_info(b)
            pts += [info['start'] - 1.0, info['end'] + 0.5]   # outside: zero row at the basis level
        ds = list(range(0, p + 2))
        if tier == 'quick' and len(pts) * len(ds) > 40:
            pts = [t for i, t in enumerate(pts) if i % 2 == 0 or rng.random() < 0.3]
        for t in pts:
            for d in (ds if rng.random() < 0.5 else rng.sample(ds, min(3, len(ds)))):
                for right in (True, False):
                    specs.append({'basis': b, 't': t, 'd': d, 'right': right, **({'far': True} if far else {})})
        # several points in ONE call, in shuffled (unsorted) order: the rows must not depend on
        # each other (a kernel that carries state from one point to the next shows up only here)
        if len(pts) >= 2:
            for _ in range(2):
                ts = list(pts)
                rng.shuffle(ts)
                ts = ts[:6]
                specs.append({'basis': b, 'ts': ts, 'd': rng.randint(0, max(0, p - 1)), 'right': rng.random() < 0.4})
    return specs


def model_line(s):
    if 'ts' in s:
        return line('basis_eval_batch', gen.enc_basis(s['basis']), gen.TOL, s['ts'], s['d'], s['right'])
    return line('basis_eval', gen.enc_basis(s['basis']), gen.TOL, s['t'], s['d'], s['right'])


def run_impl(sp, s):
    b = gen.mk_basis(sp, s['basis'])
    if 'ts' in s:
        return b.evaluate(list(s['ts']), s['d'], s['right']).tolist()
    dense = b.evaluate(s['t'], s['d'], s['right'])
    if s['d'] >= s['basis']['order']:
        return [dense[0].tolist(), [], []]
    N = b.evaluate(s['t'], s['d'], s['right'], sparse=True)
    return [dense[0].tolist(), N.data.tolist(), [int(i) for i in N.indices]]


def oracle(sp, s):
    """Property C01 stated directly against the real code."""
    b = gen.mk_basis(sp, s['basis'])
    fails = []
    if 'ts' in s:
        N = b.evaluate(list(s['ts']), s['d'], s['right'])
        Ns = b.evaluate(list(s['ts']), s['d'], s['right'], sparse=True).toarray()
        for i, t in enumerate(s['ts']):
            want = exact.basis_row(s['basis'], t, s['d'], s['right'])
            if not exact.close(N[i], want, RTOL, ATOL + 64 * 2.3e-16 * exact.basis_row_mag(s['basis'], t, s['d'], s['right'])):
                fails.append('row %d of a multi-point call (t=%r) differs from Cox-de Boor: got %s want %s' % (i, t, N[i].tolist(), [float(x) for x in want]))
                break
        if not np.allclose(N, Ns, rtol=1e-12, atol=1e-13):
            fails.append('sparse and dense forms differ in a multi-point call')
        return fails
    want = exact.basis_row(s['basis'], s['t'], s['d'], s['right'])
    dense = b.evaluate(s['t'], s['d'], s['right'])
    if dense.shape != (1, len(want)):
        return ['shape %s, expected (1,%d)' % (dense.shape, len(want))]
    # wrapped images of high derivatives on tiny periodic bases cancel: the tolerance is relative to the
    # magnitude of the summed terms, not only to the (possibly zero) exact result
    mag = exact.basis_row_mag(s['basis'], s['t'], s['d'], s['right'])
    if not exact.close(dense[0], want, RTOL, ATOL + 64 * 2.3e-16 * mag):
        fails.append('row differs from Cox-de Boor: got %s want %s' % (dense[0].tolist(), [float(x) for x in want]))
    sparse = b.evaluate(s['t'], s['d'], s['right'], sparse=True)
    sd = sparse.toarray() if hasattr(sparse, 'toarray') else np.asarray(sparse)
    if not np.allclose(sd, dense, rtol=1e-12, atol=1e-13):
        fails.append('sparse and dense forms differ')
    if s['d'] == 0:
        if np.any(dense < -1e-12):
            fails.append('negative basis value')
        if any(x != 0 for x in want) and abs(dense.sum() - 1) > 1e-9:
            fails.append('row sum %r != 1 inside the domain' % dense.sum())
    if s['d'] >= s['basis']['order'] and np.any(dense != 0):
        fails.append('derivative of order >= spline order is not zero')
    return fails


def _effective(s):
    b = s['basis']
    info = gen.basis_info(b)
    return info


def tags(s, res):
    if 'ts' in s:
        return ['multi-point-call', 'multi-point:' + ('right' if s['right'] else 'left')]
    b = s['basis']
    info = gen.basis_info(b)
    t, d, right = s['t'], s['d'], s['right']
    out = ['p=%d' % info['p'], 'periodic' if info['k'] >= 0 else 'open', 'd=%d' % min(d, 9)]
    if s.get('free'):
        out.append('free-multiplicities')
        n_all = len(b['knots']) - info['p']
        if t == info['end'] and b['knots'][n_all - 1] == b['knots'][n_all]:
            out.append('end-knot-repeated-inside@end:' + ('right' if right else 'left'))
    if s.get('far'):
        out.append('far-from-origin')
        if not right and info['start'] < t < info['end'] and any(x == t for x in b['knots']):
            out.append('far:left@interior-knot')
    if d >= info['p']:
        out.append('d>=p')
    inside = info['start'] <= t <= info['end']
    if info['k'] >= 0:
        if not inside:
            out.append('outside-periodic')
        if info['n'] < info['p']:
            out.append('periodic-wrap-n<p')
    elif not inside:
        out.append('outside-open')
    if t == info['end']:
        out.append('at-end')
    if t == info['start'] and not right:
        out.append('left@start')
    mult = sum(1 for x in b['knots'] if x == t)
    if mult and info['start'] < t < info['end']:
        out.append('%s@interior-knot' % ('right' if right else 'left'))
        if mult >= 2 and not right:
            out.append('left@interior-knot-mult>=2')
    return out


def nontrivial(s, res):
    if 'ts' in s:
        return True
    info = gen.basis_info(s['basis'])
    return info['k'] >= 0 or info['start'] <= s['t'] <= info['end']


# --- source-derived tie: basis_eval.pyx is re-translated on every run and proved equal to the model
from props import _pyx  # noqa: E402


def regenerate(sp, lean_dir):
    return {'source': 'splipy/basis_eval.pyx', 'obligations': _pyx.regenerate_pyx(sp, lean_dir)}
