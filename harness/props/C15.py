"""C15 — boundary extraction and boundary-filling constructions agree with evaluation.

Correspondence (real code vs the Lean model `Splipy/Model/Sections.lean` run at Q):
  check_section / sections / section_to_index / section_from_index; SplineObject.section for all
  3^pardim selectors (positional, keyword, mixed, unwrap_points, interior and out-of-range indices);
  corners('C'|'F'); Surface.edges, Volume.edges, Volume.faces (None for periodic directions);
  Surface.const_par_curve at knots, between knots, outside, both directions, periodic directions;
  edge_curves with 2 curves and with 4 curves *having identical bases* in every rotation /
  permutation / reversal pattern; coons_patch called directly; edge_surfaces with 2 and 6 faces;
  extrude (curve and surface).  Knot vectors are compared to 1e-12, control nets numerically,
  exception classes exactly.  Factory inputs whose bases differ are outside the model
  (make_splines_identical is C12's model): the model answers `unsupported`, accepted only for specs
  generated as oracle-only.
Source-derived Lean: `regenerate` re-translates `sections`, `section_from_index`, `section_to_index`,
  `check_section`, `check_direction` from the Python AST (harness/translate/sections_translate.py) into
  lean/Splipy/Generated/C15.lean on every run; `C15_translated_*` prove them equal to the hand model.
Oracle (model independent, real code, exact Fraction definitions from vlib/exact.py for the
  restriction of the object): section / corner / edge / face evaluates to the object restricted to
  that boundary (clamped, non-periodic fixed directions); const_par_curve(knot) evaluates to the
  object along the parameter line; edge_curves / edge_surfaces results have the inputs as boundary
  sections (inputs with DIFFERENT orders / knots / rationality / dimension; four-curve loops in any
  rotation or with reversed members must be accepted); extrude contains the profile as the min
  section and profile + amount as the max section; thicken (2-D, constant amount) contains the curve
  as the v = 1/2 line at the Greville points.
"""
import itertools
import os
from fractions import Fraction as F

import numpy as np

from vlib import gen, exact
from vlib.val import line, Word, is_err
from vlib.compare import diff, Err

ID = 'C15'
PYOBJECT_METHODS = ['section', 'corners']   # splineobject.py methods re-translated and proved equal to the hand model each run
PYOVERRIDE_METHODS = ['Surface.const_par_curve']   # Curve/Surface overrides re-translated and proved equal to the hand model each run
RTOL = 1e-9
ATOL = 1e-10
KTOL = 1e-12
RULE = ('objects pardim 1-3, dim 2-3, rational with positive weights, open/periodic/non-clamped bases; all 3^pardim '
        'selectors in positional, keyword and mixed form, unwrap_points both ways, interior/out-of-range indices; corners '
        'both orders; edges/faces; const_par_curve at every distinct knot, span interiors, outside, both directions, string '
        'directions; closed loops of four curves (identical bases for the model, differing orders/knots/rationality for the '
        'oracle) in sampled (thorough: all) of the 4!*2^4 arrangements; ruled surfaces/volumes; six-face volumes cut from a '
        'random trivariate; extrude; thicken.  non-trivial = the call does not raise.')
REQUIRED_TAGS = ['form=check', 'form=sections', 'form=to_index', 'form=from_index', 'form=section', 'form=corners',
                 'form=edges', 'form=faces', 'form=cpc', 'form=edge_curves2', 'form=edge_curves4', 'form=coons',
                 'form=edge_surfaces2', 'form=edge_surfaces6', 'form=extrude', 'form=thicken', 'sel=keyword',
                 'sel=mixed', 'unwrap=false', 'pardim=1', 'pardim=2', 'pardim=3', 'rational', 'periodic-dir',
                 'loop=asgiven', 'loop=reordered', 'loop=reversed-member', 'loop=open', 'cpc=knot', 'cpc=between',
                 'cpc=outside', 'different-bases', 'raises', 'corners=F', 'faces=None',
                 'same-distinct-knots-different-mult', 'same-distinct-knots-different-mult/2',
                 'same-distinct-knots-different-mult/4']
KNOWN_LABELS = ['edge-curves-homogeneous-endpoint-test', 'coons-rational-unequal-corner-weights',
                'edge-surfaces-6-rational-refused', 'const-par-curve-periodic-end']
# ('const-par-curve-periodic-few-functions' is fixed with periodic insert_knot)

ASSUMPTIONS = [
    'factories (edge_curves, coons_patch, edge_surfaces) are modelled for inputs whose bases are identical after '
    'reparametrisation to [0,1] (open knot vectors, order >= 2); for them make_splines_identical only has to express the '
    'linear blends in the target basis, which the model does with the Greville abscissae (justified by C15_coons_net_eval); '
    'inputs with differing bases are checked by the model-independent oracle only (make_splines_identical is C12)',
    'thicken is not modelled (square root); oracle only',
    'section() with more positional selectors than parametric directions is outside the model (never generated)',
    'the oracle claims nothing for sections of periodic or non-clamped directions, for parameter lines through knots of '
    'multiplicity >= order (discontinuous surface), and for const_par_curve parameters outside [start, end]',
]

CP_RTOL = 0.0      # splipy.state.controlpoint_relative_tolerance
CP_ATOL = 1e-8     # splipy.state.controlpoint_absolute_tolerance


# ---------------------------------------------------------------------------------------------
# small helpers

def _sel(x):
    return Word('none') if x is None else int(x)


def _kw(kw):
    return [['uvw'.index(k), _sel(v)] for k, v in sorted(kw.items())]


def _ends(b):
    info = gen.basis_info(b)
    return info['start'], info['end']


def _clamped(b, at_end):
    """Is the (non-periodic) basis clamped (knot multiplicity >= order) at that end?"""
    p, kn = b['order'], b['knots']
    if b['periodic'] >= 0:
        return False
    if at_end:
        return all(kn[-1 - i] == kn[-p] for i in range(p)) and kn[-p - 1] < kn[-p]
    return all(kn[i] == kn[p - 1] for i in range(p)) and kn[p] > kn[p - 1]


def _enc_res(r):
    """Observable of a `section` result."""
    if r is None:
        return 'none'
    if isinstance(r, np.generic):
        return ['ndarray', [1], [float(r)]]
    if isinstance(r, np.ndarray):
        return ['ndarray', list(r.shape), np.asarray(r, dtype=float).reshape(-1).tolist()]
    return [type(r).__name__, gen.obj_observables(r)]


def _cmp_obj(iv, mv, path='$'):
    """impl observables vs model encoding of an object: orders/periodicity/shape exact, knots to KTOL,
    control points numerically."""
    if not isinstance(mv, list) or len(mv) != 4 or not isinstance(iv, list):
        return '%s: impl %r vs model %r' % (path, str(iv)[:80], str(mv)[:80])
    ib, mb = iv[0], mv[0]
    if len(ib) != len(mb):
        return '%s: number of bases impl %d vs model %d' % (path, len(ib), len(mb))
    for k, (x, y) in enumerate(zip(ib, mb)):
        if x[0] != y[0] or x[2] != y[2]:
            return '%s: basis %d order/periodic impl %r vs model %r' % (path, k, (x[0], x[2]), (y[0], y[2]))
        if len(x[1]) != len(y[1]):
            return '%s: basis %d knot count impl %d vs model %d' % (path, k, len(x[1]), len(y[1]))
        sc = max(1.0, max(abs(float(t)) for t in y[1]))
        for a, b in zip(x[1], y[1]):
            if abs(a - float(b)) > KTOL * sc:
                return '%s: basis %d knots impl %r vs model %r' % (path, k, x[1], [float(t) for t in y[1]])
    if [int(t) for t in mv[1]] != list(iv[1]):
        return '%s: control net shape impl %r vs model %r' % (path, iv[1], mv[1])
    d = diff(iv[2], mv[2], RTOL, ATOL, path=path + '.cps')
    if d:
        return d
    return diff(iv[3], mv[3], path=path + '.rational')


def _cmp_res(iv, mv, path='$'):
    if isinstance(mv, str) or isinstance(iv, str):
        return None if str(iv) == str(mv) else '%s: impl %r vs model %r' % (path, str(iv)[:60], str(mv)[:60])
    if not isinstance(mv, list) or not mv or not isinstance(iv, list):
        return '%s: impl %r vs model %r' % (path, str(iv)[:60], str(mv)[:60])
    if str(iv[0]) != str(mv[0]):
        return '%s: class impl %s vs model %s' % (path, iv[0], mv[0])
    if str(mv[0]) == 'ndarray':
        return diff(iv[1:], mv[1:], RTOL, ATOL, path=path)
    return _cmp_obj(iv[1], mv[1], path)


def _pad(a, d):
    a = np.asarray(a, dtype=float)
    if a.shape[-1] < d:
        a = np.concatenate([a, np.zeros(a.shape[:-1] + (d - a.shape[-1],))], axis=-1)
    return a


def _same_pts(a, b, tol=1e-8):
    d = max(np.shape(a)[-1], np.shape(b)[-1])
    a, b = _pad(a, d), _pad(b, d)
    if a.shape != b.shape:
        return False
    sc = max(1.0, float(np.max(np.abs(b))) if b.size else 1.0)
    return bool(np.all(np.abs(a - b) <= tol * sc))


UNIT = [0.0, 0.125, 0.3125, 0.5, 0.6875, 0.875, 1.0]      # symmetric: reversal maps samples to samples


def _as_map(obj, samples=UNIT):
    """The object as a map on the unit cube: evaluated on the tensor grid of rescaled parameters."""
    ps = [[s + t * (e - s) for t in samples] for s, e in zip(obj.start(), obj.end())]
    r = np.asarray(obj.evaluate(*ps))
    return r.reshape(tuple(len(p) for p in ps) + (obj.dimension,))


def _reverse_spec(o, d=0):
    """Spec of the object with direction d reversed (exact for dyadic knots)."""
    b = o['bases'][d]
    a, e = _ends(b)
    nb = dict(b, knots=[a + e - k for k in reversed(b['knots'])])
    cps = np.flip(np.array(o['cps'], dtype=float), axis=d)
    return {'bases': o['bases'][:d] + [nb] + o['bases'][d + 1:], 'cps': cps.tolist(), 'rational': o['rational']}


# ---------------------------------------------------------------------------------------------
# generators

def _cont_basis(rng, p, n_interior):
    """Open basis of order p >= 2 whose interior knots have multiplicity <= p-1 (continuous splines)."""
    return gen.open_basis(rng, p, n_interior=n_interior, max_mult=p - 1)


def _rand_obj(rng, pardim, periodic_prob=0.25, pmin=1, pmax=None, nonclamped=0.0, rational=None, dim=None,
              max_interior=2, max_mult=None, cont=False):
    pmax = pmax or (4 if pardim < 3 else 3)
    bases = []
    for _ in range(pardim):
        p = rng.randint(pmin, pmax)
        if p >= 2 and rng.random() < periodic_prob:
            bases.append(gen.periodic_basis(rng, p, rng.randint(0, p - 2), n_interior=rng.randint(0, max_interior)))
        else:
            bases.append(gen.open_basis(rng, p, n_interior=rng.randint(0, max_interior),
                                        max_mult=(max(1, p - 1) if cont else max_mult),
                                        clamped=not (rng.random() < nonclamped)))
    if dim is None:
        dim = rng.choice([2, 3, 3] if pardim < 3 else [3])
    if rational is None:
        rational = rng.random() < 0.4
    shape = [gen.basis_info(b)['n'] for b in bases]
    return {'bases': bases, 'cps': gen.rand_cps(rng, shape, dim + (1 if rational else 0), rational), 'rational': bool(rational)}


def _curve_between(rng, basis, P, Q, dim, rational, w0=1.0, w1=1.0):
    """Curve spec on `basis` from point P to point Q (clamped ends), random interior control points;
    homogeneous end weights w0, w1 when rational."""
    n = gen.basis_info(basis)['n']
    rows = []
    for i in range(n):
        t = i / (n - 1) if n > 1 else 0.0
        if i == 0:
            x = list(P)
        elif i == n - 1:
            x = list(Q)
        else:
            x = [(1 - t) * a + t * b + gen.dyadic(rng, -0.5, 0.5, 3) for a, b in zip(P, Q)]
        x = (x + [0.0] * dim)[:dim]
        if rational:
            w = w0 if i == 0 else w1 if i == n - 1 else rng.choice([0.5, 1.0, 1.5, 2.0])
            x = [c * w for c in x] + [w]
        rows.append(x)
    return {'bases': [basis], 'cps': rows, 'rational': bool(rational)}


def _mult_pair(rng):
    """Two open bases with the same order, the same number of functions and the same DISTINCT knot values but
    different multiplicity patterns, e.g. order 3: [0,0,0,1,1,2,3,3,3] and [0,0,0,1,2,2,3,3,3]
    (`knots(0)` of the two is identical; the bases are not)."""
    p = rng.choice([3, 3, 4])
    nint = rng.choice([2, 2, 3])
    step = rng.choice([0.5, 1.0, 2.0])
    start = rng.choice([0.0, 0.0, -1.0, 2.5])
    uniq = [start + step * i for i in range(nint + 2)]       # symmetric: reversal keeps the distinct values
    while True:
        ma = [rng.randint(1, p - 1) for _ in range(nint)]
        mb = list(ma)
        rng.shuffle(mb)
        if mb != ma:
            break

    def mk(ms):
        kn = [uniq[0]] * p
        for u, m in zip(uniq[1:-1], ms):
            kn += [u] * m
        return {'order': p, 'knots': kn + [uniq[-1]] * p, 'periodic': -1}
    return mk(ma), mk(mb)


def _same_distinct_diff_mult(b1, b2):
    """Equal order, equal size, equal distinct knots after reparametrisation to [0,1], different knot vectors."""
    def unit(b):
        a, e = _ends(b)
        return [(k - a) / (e - a) for k in b['knots']]
    k1, k2 = unit(b1), unit(b2)
    return (b1['order'] == b2['order'] and len(k1) == len(k2) and sorted(set(k1)) == sorted(set(k2)) and k1 != k2)


def _loop(rng, identical, wclass='none', multpair=False):
    """Four curves forming a directed closed loop bottom, right, top, left (as coons_patch wants them).
    identical: opposite curves share a basis (model scope).  wclass: 'none' (non-rational),
    'unit' (rational, corner weights 1), 'equal' (rational, a common weight per corner),
    'rescaled' (rational, the two curves meeting at a corner carry different weights there),
    'mixed' (some curves rational with unit corner weights, others not)."""
    dim = rng.choice([2, 2, 3])
    P = [[0.0, 0.0, 0.0], [4.0, 0.5, 1.0], [4.5, 3.0, 0.5], [-0.5, 3.5, -1.0]]
    P = [[c + gen.dyadic(rng, -0.5, 0.5, 2) for c in p][:dim] for p in P]

    def basis():
        return _cont_basis(rng, rng.randint(2, 4), rng.randint(0, 2))
    if identical:
        b1, b2 = basis(), basis()
        bs = [b1, b2, b1, b2]      # bottom, right', top', left' (all in the positive direction)
    elif multpair:
        (b1, b3), (b2, b4) = _mult_pair(rng), _mult_pair(rng)
        bs = [b1, b2, b3, b4]      # opposite curves: same order / size / distinct knots, other multiplicities
    else:
        bs = [basis() for _ in range(4)]
    cw = {'equal': [rng.choice([0.5, 1.0, 2.0, 1.5]) for _ in range(4)]}.get(wclass, [1.0] * 4)

    def wts(k0, k1, side):
        if wclass == 'rescaled':
            return rng.choice([0.5, 2.0, 1.5]) if side % 2 else 1.0, rng.choice([0.5, 2.0]) if side % 2 else 1.0
        return cw[k0], cw[k1]
    rat = [wclass in ('unit', 'equal', 'rescaled') or (wclass == 'mixed' and rng.random() < 0.5) for _ in range(4)]
    if wclass == 'mixed' and not any(rat):
        rat[rng.randrange(4)] = True
    if wclass == 'mixed' and all(rat):
        rat[rng.randrange(4)] = False
    dims = [dim] * 4
    if not identical and rng.random() < 0.3:
        dims[rng.randrange(4)] = 3
    bottom = _curve_between(rng, bs[0], P[0], P[1], dims[0], rat[0], *wts(0, 1, 0))
    right = _curve_between(rng, bs[1], P[1], P[2], dims[1], rat[1], *wts(1, 2, 1))
    top_pos = _curve_between(rng, bs[2], P[3], P[2], dims[2], rat[2], *wts(3, 2, 2))
    left_pos = _curve_between(rng, bs[3], P[0], P[3], dims[3], rat[3], *wts(0, 3, 3))
    return [bottom, right, _reverse_spec(top_pos), _reverse_spec(left_pos)]


def _arrange(loop, perm, flips):
    cs = [loop[i] for i in perm]
    return [(_reverse_spec(c) if f else c) for c, f in zip(cs, flips)]


ALL_ARR = [(list(p), list(f)) for p in itertools.permutations(range(4)) for f in itertools.product([0, 1], repeat=4)]
ROT_ARR = [([(r + i) % 4 for i in range(4)], list(f)) for r in range(4) for f in itertools.product([0, 1], repeat=4)]


def _vol_faces(rng, modify):
    """Six compatible faces cut from a random non-rational trivariate (exact slicing of its net)."""
    bases = [_cont_basis(rng, rng.randint(2, 3), rng.randint(0, 1)) for _ in range(3)]
    shape = [gen.basis_info(b)['n'] for b in bases]
    cps = np.array(gen.rand_cps(rng, shape, 3, False))
    faces = []
    for d in range(3):
        for idx in (0, -1):
            fb = [b for k, b in enumerate(bases) if k != d]
            faces.append({'bases': fb, 'cps': np.take(cps, idx, axis=d).tolist(), 'rational': False})
    return {'bases': bases, 'cps': cps.tolist(), 'rational': False}, faces, bool(modify)


def generate(rng, tier):
    quick = tier == 'quick'
    specs = []
    # --- check_section / sections tables -----------------------------------------------------
    for pardim in (1, 2, 3):
        for _ in range(6 if quick else 30):
            nargs = rng.randint(0, pardim)
            args = [rng.choice([None, 0, -1, 2]) for _ in range(nargs)]
            kw = {k: rng.choice([None, 0, -1]) for k in 'uvw' if rng.random() < 0.4}
            specs.append({'form': 'check', 'pardim': pardim, 'args': args, 'kw': kw})
    for src in range(0, 4):
        for tgt in range(0, src + 1):
            specs.append({'form': 'sections', 'src': src, 'tgt': tgt})
            n = len(list(itertools.combinations(range(src), src - tgt))) * 2 ** (src - tgt)
            for i in range(n + 1):
                specs.append({'form': 'from_index', 'src': src, 'tgt': tgt, 'i': i})
    specs.append({'form': 'sections', 'src': 1, 'tgt': 2})
    for src in range(0, 4):
        for sec in itertools.product([None, 0, -1], repeat=src):
            specs.append({'form': 'to_index', 'section': list(sec)})
    specs.append({'form': 'to_index', 'section': [0, 1, None]})
    specs.append({'form': 'to_index', 'section': [-2]})
    # --- sections / corners / edges / faces of random objects ------------------------------------
    nobj = 5 if quick else 40
    for pardim in (1, 2, 3):
        for oi in range(nobj):
            o = _rand_obj(rng, pardim, nonclamped=0.15, periodic_prob=0.25 if oi else 0.0)
            sels = list(itertools.product([None, 0, -1], repeat=pardim))
            if quick and pardim == 3:
                sels = rng.sample(sels, 14)
            for sel in sels:
                style = rng.choice(['pos', 'kw', 'mixed'])
                if style == 'pos':
                    args, kw = list(sel), {}
                    while args and args[-1] is None and rng.random() < 0.5:
                        args.pop()
                elif style == 'kw':
                    args, kw = [], {'uvw'[k]: s for k, s in enumerate(sel) if s is not None or rng.random() < 0.3}
                else:
                    cut = rng.randint(0, pardim)
                    args = list(sel[:cut])
                    kw = {'uvw'[k]: s for k, s in enumerate(sel) if k >= cut and (s is not None or rng.random() < 0.3)}
                unwrap = not (all(s is not None for s in sel) and rng.random() < 0.5)
                specs.append({'form': 'section', 'obj': o, 'args': args, 'kw': kw, 'unwrap': unwrap, 'sel': list(sel)})
            # interior / out-of-range indices, keyword for a direction that does not exist
            shape = [gen.basis_info(b)['n'] for b in o['bases']]
            specs.append({'form': 'section', 'obj': o, 'args': [rng.choice([1, -2, shape[0], -shape[0] - 1, shape[0] - 1])] + [None] * (pardim - 1),
                          'kw': {}, 'unwrap': True, 'sel': None})
            if pardim < 3 and rng.random() < 0.5:
                specs.append({'form': 'section', 'obj': o, 'args': [], 'kw': {'uvw'[pardim]: 0}, 'unwrap': True, 'sel': None})
            # more positional selectors than parametric directions: the component axis is indexed too / IndexError
            specs.append({'form': 'section', 'obj': o, 'args': [rng.choice([None, 0, -1]) for _ in range(pardim)] + [rng.choice([0, 1, None, 7])],
                          'kw': {}, 'unwrap': rng.random() < 0.7, 'sel': None})
            if rng.random() < 0.3:
                specs.append({'form': 'section', 'obj': o, 'args': [0] * (pardim + 2), 'kw': {}, 'unwrap': True, 'sel': None})
            specs.append({'form': 'corners', 'obj': o, 'order': 'C'})
            specs.append({'form': 'corners', 'obj': o, 'order': 'F'})
            if pardim >= 2:
                specs.append({'form': 'edges', 'obj': o})
            if pardim == 3:
                specs.append({'form': 'faces', 'obj': o})
    pv = _rand_obj(rng, 3, periodic_prob=0.0)
    pb = gen.periodic_basis(rng, 3, 1, n_interior=1)
    pv = {'bases': [pb] + pv['bases'][1:], 'rational': False,
          'cps': gen.rand_cps(rng, [gen.basis_info(b)['n'] for b in [pb] + pv['bases'][1:]], 3, False)}
    specs.append({'form': 'faces', 'obj': pv})
    specs.append({'form': 'edges', 'obj': pv})
    # --- const_par_curve ------------------------------------------------------------------------------
    for si in range(8 if quick else 60):
        o = _rand_obj(rng, 2, periodic_prob=0.2, max_mult=None if si % 3 else 1)
        for d in (0, 1):
            b = o['bases'][d]
            pts = gen.eval_points(rng, b, per_span=1, outside=False)
            rng.shuffle(pts)
            a, e = _ends(b)
            pts = [a, e] + [x for x in pts if x not in (a, e)][:3 if quick else 8]
            for x in pts:
                direction = rng.choice([d, d, 'uv'[d], 'UV'[d]])
                specs.append({'form': 'cpc', 'obj': o, 'knot': x, 'direction': direction, 'd': d})
            specs.append({'form': 'cpc', 'obj': o, 'knot': e + 0.5, 'direction': d, 'd': d})
        if si % 4 == 0:
            specs.append({'form': 'cpc', 'obj': o, 'knot': _ends(o['bases'][0])[0], 'direction': rng.choice([2, 'w', -1]), 'd': 0})
    # periodic directions: the end of the period, and a basis with fewer than p+k functions
    for pb, x in ((gen.periodic_basis(rng, 3, 1, n_interior=4, max_mult=1), 'end'),
                  (gen.periodic_basis(rng, 3, 0, n_interior=0), 'mid')):
        ob = gen.open_basis(rng, 2, n_interior=0)
        o = {'bases': [pb, ob], 'rational': False,
             'cps': gen.rand_cps(rng, [gen.basis_info(pb)['n'], gen.basis_info(ob)['n']], 2, False)}
        a, e = _ends(pb)
        specs.append({'form': 'cpc', 'obj': o, 'knot': e if x == 'end' else a + (e - a) * 0.25, 'direction': 0, 'd': 0})
        specs.append({'form': 'cpc', 'obj': o, 'knot': a + (e - a) * 0.625, 'direction': 'u', 'd': 0})
        specs.append({'form': 'cpc', 'obj': o, 'knot': a, 'direction': 0, 'd': 0})      # the seam of a smooth periodic direction
    # --- edge_curves, two curves -------------------------------------------------------------------------
    for i in range(8 if quick else 60):
        b = _cont_basis(rng, rng.randint(2, 4), rng.randint(0, 2))
        dim = rng.choice([2, 3])
        r1 = rng.random() < 0.4
        c1 = {'bases': [b], 'cps': gen.rand_cps(rng, [gen.basis_info(b)['n']], dim + r1, r1), 'rational': r1}
        r2 = rng.random() < 0.4
        d2 = rng.choice([2, 3])
        c2 = {'bases': [b], 'cps': gen.rand_cps(rng, [gen.basis_info(b)['n']], d2 + r2, r2), 'rational': r2}
        specs.append({'form': 'edge_curves', 'curves': [c1, c2], 'oracle_only': False})
        # differing bases: oracle only
        c3 = _rand_obj(rng, 1, periodic_prob=0.0, pmin=2, rational=rng.random() < 0.4, dim=rng.choice([2, 3]), cont=True)
        specs.append({'form': 'edge_curves', 'curves': [c1, c3], 'oracle_only': True})
    # same order, same number of control points, same distinct knots, different multiplicity patterns (both orders)
    for i in range(4 if quick else 30):
        ba, bb = _mult_pair(rng)
        dim = rng.choice([2, 3])
        ra, rb = rng.random() < 0.3, rng.random() < 0.3
        ca = {'bases': [ba], 'cps': gen.rand_cps(rng, [gen.basis_info(ba)['n']], dim + ra, ra), 'rational': ra}
        cb = {'bases': [bb], 'cps': gen.rand_cps(rng, [gen.basis_info(bb)['n']], dim + rb, rb), 'rational': rb}
        if i % 3 == 2:      # another domain, same distinct knots after reparam
            a0 = _ends(bb)[0]
            cb = dict(cb, bases=[dict(bb, knots=[2.0 * (k - a0) + 5.0 for k in bb['knots']])])
        specs.append({'form': 'edge_curves', 'curves': [ca, cb], 'oracle_only': True})
        specs.append({'form': 'edge_curves', 'curves': [cb, ca], 'oracle_only': True})
    specs.append({'form': 'edge_curves', 'curves': [_rand_obj(rng, 1, periodic_prob=0.0, pmin=2, cont=True) for _ in range(3)], 'oracle_only': False})
    # --- edge_curves, four curves -----------------------------------------------------------------------
    nloops = 2 if quick else 8
    for li in range(nloops):
        wclass = ['none', 'equal', 'unit', 'none'][li % 4]
        loop = _loop(rng, True, wclass)
        arrs = ALL_ARR if not quick else ROT_ARR[:16] + rng.sample(ALL_ARR, 28)
        for perm, flips in arrs:
            specs.append({'form': 'edge_curves', 'curves': _arrange(loop, perm, flips), 'oracle_only': False,
                          'perm': perm, 'flips': flips, 'wclass': wclass, 'closed': True})
        specs.append({'form': 'coons', 'curves': loop, 'wclass': wclass, 'oracle_only': False})
    for li in range(5 if quick else 30):
        wclass = ['none', 'unit', 'mixed', 'equal', 'none'][li % 5]
        loop = _loop(rng, False, wclass)
        arrs = rng.sample(ALL_ARR, 10 if quick else 60) + rng.sample(ROT_ARR, 4)
        for perm, flips in arrs:
            specs.append({'form': 'edge_curves', 'curves': _arrange(loop, perm, flips), 'oracle_only': True,
                          'perm': perm, 'flips': flips, 'wclass': wclass, 'closed': True})
    # loops whose opposite curves share order / size / distinct knots but not the multiplicities
    for li in range(2 if quick else 12):
        wclass = ['none', 'unit', 'equal'][li % 3]
        loop = _loop(rng, False, wclass, multpair=True)
        arrs = [ALL_ARR[0]] + rng.sample(ALL_ARR, 7 if quick else 40) + rng.sample(ROT_ARR, 4)
        for perm, flips in arrs:
            specs.append({'form': 'edge_curves', 'curves': _arrange(loop, perm, flips), 'oracle_only': True,
                          'perm': perm, 'flips': flips, 'wclass': wclass, 'closed': True})
        specs.append({'form': 'coons', 'curves': loop, 'wclass': wclass, 'oracle_only': True})
    # rational loops whose corner weights differ between the two curves meeting there (same geometry)
    for li in range(2 if quick else 10):
        loop = _loop(rng, li % 2 == 0, 'rescaled')
        for perm, flips in rng.sample(ALL_ARR, 3):
            specs.append({'form': 'edge_curves', 'curves': _arrange(loop, perm, flips), 'oracle_only': li % 2 == 1,
                          'perm': perm, 'flips': flips, 'wclass': 'rescaled', 'closed': True})
        specs.append({'form': 'coons', 'curves': loop, 'wclass': 'rescaled', 'oracle_only': li % 2 == 1})
    # open chains / unrelated curves: RuntimeError or an accepted open chain (mirrored, no oracle claim)
    for li in range(3 if quick else 12):
        loop = _loop(rng, True, 'none')
        broken = [dict(c) for c in loop]
        k = rng.randrange(4)
        cps = np.array(broken[k]['cps'], dtype=float)
        cps[-1 if rng.random() < 0.5 else 0] += 1.0
        broken[k] = dict(broken[k], cps=cps.tolist())
        perm, flips = rng.choice(ALL_ARR)
        specs.append({'form': 'edge_curves', 'curves': _arrange(broken, perm, flips), 'oracle_only': False,
                      'perm': perm, 'flips': flips, 'wclass': 'none', 'closed': False})
    # --- edge_surfaces ------------------------------------------------------------------------------------
    for i in range(4 if quick else 30):
        bs = [_cont_basis(rng, rng.randint(2, 3), rng.randint(0, 1)) for _ in range(2)]
        shape = [gen.basis_info(b)['n'] for b in bs]
        r1, r2 = rng.random() < 0.4, rng.random() < 0.4
        s1 = {'bases': bs, 'cps': gen.rand_cps(rng, shape, 3 + r1, r1), 'rational': r1}
        s2 = {'bases': bs, 'cps': gen.rand_cps(rng, shape, 3 + r2, r2), 'rational': r2}
        specs.append({'form': 'edge_surfaces', 'surfs': [s1, s2], 'oracle_only': False})
        s3 = _rand_obj(rng, 2, periodic_prob=0.0, pmin=2, pmax=3, dim=3, max_interior=1, cont=True)
        specs.append({'form': 'edge_surfaces', 'surfs': [s1, s3], 'oracle_only': True})
    for i in range(4 if quick else 24):
        vol, faces, modify = _vol_faces(rng, i % 2 == 1)
        specs.append({'form': 'edge_surfaces', 'surfs': faces, 'oracle_only': modify, 'modify': modify, 'seed': rng.randrange(1 << 30)})
    vol, faces, _ = _vol_faces(rng, False)
    rfaces = [dict(f, cps=np.concatenate([np.array(f['cps']), np.ones(np.array(f['cps']).shape[:-1] + (1,))], axis=-1).tolist(), rational=True) for f in faces]
    specs.append({'form': 'edge_surfaces', 'surfs': rfaces, 'oracle_only': False, 'modify': False})
    specs.append({'form': 'edge_surfaces', 'surfs': faces[:3], 'oracle_only': False, 'modify': False})
    # --- extrude / thicken ---------------------------------------------------------------------------------
    for i in range(10 if quick else 60):
        pd = 1 if i % 2 == 0 else 2
        o = _rand_obj(rng, pd, periodic_prob=0.2, max_interior=1)
        amount = [gen.dyadic(rng, -3, 3, 2) for _ in range(3)]
        if i % 7 == 5:
            amount = amount[:2]
        if i % 7 == 6:
            amount = amount + [1.0]
        specs.append({'form': 'extrude', 'obj': o, 'amount': amount})
    for i in range(6 if quick else 40):
        o = _rand_obj(rng, 1, periodic_prob=0.0, pmin=2, dim=2, rational=rng.random() < 0.3, cont=True)
        # a regular curve: control polygon advancing in x
        n = gen.basis_info(o['bases'][0])['n']
        cps = np.array(o['cps'], dtype=float)
        for k in range(n):
            w = cps[k, -1] if o['rational'] else 1.0
            cps[k, 0] = (2.0 * k + gen.dyadic(rng, -0.5, 0.5, 2)) * w
        o = dict(o, cps=cps.tolist())
        specs.append({'form': 'thicken', 'obj': o, 'amount': rng.choice([0.25, 0.5, 1.0])})
    return specs


# ---------------------------------------------------------------------------------------------
# source-derived Lean: the section utilities are re-translated from the Python AST on every run

def regenerate(sp, lean_dir):
    """Write lean/Splipy/Generated/C15.lean from the current `splipy/utils/__init__.py`.
    `Properties/C15.lean` (`C15_translated_*`) proves the generated definitions equal to the hand model,
    so a change of `sections` / `section_from_index` / `section_to_index` / `check_section` /
    `check_direction` that alters their behaviour (pardim <= 3) breaks the build of the property module."""
    from translate import sections_translate as T
    path = os.path.join(os.path.dirname(os.path.abspath(sp.__file__)), 'utils', '__init__.py')
    src = open(path, encoding='utf-8').read()
    info = {'source': 'splipy/utils/__init__.py::' + ','.join(T.ORDER), 'obligations': []}
    try:
        r = T.translate(src)
        text = r['lean']
        info.update(digest=r['digest'], notes=r['notes'])
        info['obligations'].append({'name': 'C15_translate', 'ok': True, 'detail': 'translated %d functions' % len(T.ORDER)})
    except T.Untranslatable as e:
        text = (T.HEADER % ', '.join(T.ORDER)) + '-- UNTRANSLATABLE: %s\n\nend Splipy.Generated.C15\n' % str(e).replace('-/', '- /')
        info['obligations'].append({'name': 'C15_translate', 'ok': False,
                                    'detail': 'the section utilities use a construct outside the translated subset: %s' % e})
    gdir = os.path.join(lean_dir, 'Splipy', 'Generated')
    os.makedirs(gdir, exist_ok=True)
    gpath = os.path.join(gdir, 'C15.lean')
    old = open(gpath, encoding='utf-8').read() if os.path.exists(gpath) else None
    if old != text:
        tmp = gpath + '.tmp%d' % os.getpid()
        with open(tmp, 'w', encoding='utf-8') as f:
            f.write(text)
        os.replace(tmp, gpath)
    return info


# ---------------------------------------------------------------------------------------------
# protocol

def model_line(s):
    f = s['form']
    if f == 'check':
        return line('sec_check', s['pardim'], [_sel(a) for a in s['args']], _kw(s['kw']))
    if f == 'sections':
        return line('sec_sections', s['src'], s['tgt'])
    if f == 'to_index':
        return line('sec_to_index', [_sel(a) for a in s['section']])
    if f == 'from_index':
        return line('sec_from_index', s['src'], s['tgt'], s['i'])
    if f == 'section':
        return line('sec_section', gen.enc_object(s['obj']), [_sel(a) for a in s['args']], _kw(s['kw']), s['unwrap'])
    if f == 'corners':
        return line('sec_corners', gen.enc_object(s['obj']), s['order'] == 'F')
    if f == 'edges':
        return line('sec_edges', gen.enc_object(s['obj']))
    if f == 'faces':
        return line('sec_faces', gen.enc_object(s['obj']))
    if f == 'cpc':
        d = s['direction']
        return line('sec_cpc', gen.enc_object(s['obj']), gen.TOL, s['knot'], Word(d) if isinstance(d, str) else d)
    if f == 'edge_curves':
        return line('sec_edge_curves', [gen.enc_object(c) for c in s['curves']], gen.TOL, CP_RTOL, CP_ATOL)
    if f == 'coons':
        return line('sec_coons', [gen.enc_object(c) for c in s['curves']], gen.TOL)
    if f == 'edge_surfaces':
        return line('sec_edge_surfaces', [gen.enc_object(c) for c in _surfs(None, s, spec_only=True)], gen.TOL)
    if f == 'extrude':
        return line('sec_extrude', gen.enc_object(s['obj']), s['amount'])
    if f == 'thicken':
        return line('sec_thicken', gen.enc_object(s['obj']), s['amount'])
    raise AssertionError(f)


def _none(x):
    return 'none' if x is None else x


def _surfs(sp, s, spec_only=False):
    """The input surfaces of an edge_surfaces spec (the `modify` variants are refined/raised/reparametrised
    with the library itself, keeping the geometry — checked — so that the faces have different bases)."""
    if spec_only or not s.get('modify'):
        return s['surfs'] if spec_only else [gen.mk_object(sp, f) for f in s['surfs']]
    import random
    rng = random.Random(s['seed'])
    out = []
    for f in s['surfs']:
        o = gen.mk_object(sp, f)
        ref = _as_map(o)
        m = o.clone()
        k = rng.randrange(4)
        if k == 0:
            m.raise_order(1, 0)
        elif k == 1:
            kn = m.knots(1)          # new knot strictly inside the first span: no multiplicity is raised
            m.insert_knot(kn[0] + (kn[1] - kn[0]) * rng.choice([0.25, 0.5, 0.625]), 1)
        elif k == 2:
            m.reparam((1.0, 3.0), (-2.0, 0.0))
        if not _same_pts(_as_map(m), ref, 1e-10):
            m = o          # the library's own refinement changed the geometry: not C15's business
        out.append(m)
    return out


def run_impl(sp, s):
    f = s['form']
    U = sp.utils if hasattr(sp, 'utils') else __import__('splipy.utils').utils
    if f == 'check':
        return [_none(x) for x in U.check_section(*s['args'], pardim=s['pardim'], **s['kw'])]
    if f == 'sections':
        return [[_none(x) for x in sec] for sec in U.sections(s['src'], s['tgt'])]
    if f == 'to_index':
        return _none(U.section_to_index(s['section']))
    if f == 'from_index':
        r = U.section_from_index(s['src'], s['tgt'], s['i'])
        return 'none' if r is None else [_none(x) for x in r]
    if f == 'section':
        o = gen.mk_object(sp, s['obj'])
        kw = dict(s['kw'])
        if not s['unwrap']:
            kw['unwrap_points'] = False
        return _enc_res(o.section(*s['args'], **kw))
    if f == 'corners':
        c = gen.mk_object(sp, s['obj']).corners(order=s['order'])
        return [list(c.shape), np.asarray(c, dtype=float).reshape(-1).tolist()]
    if f == 'edges':
        return [_enc_res(e) for e in gen.mk_object(sp, s['obj']).edges()]
    if f == 'faces':
        return [_enc_res(e) for e in gen.mk_object(sp, s['obj']).faces()]
    if f == 'cpc':
        return gen.obj_observables(gen.mk_object(sp, s['obj']).const_par_curve(s['knot'], s['direction']))
    if f == 'edge_curves':
        from splipy import surface_factory as sf
        return gen.obj_observables(sf.edge_curves(*[gen.mk_object(sp, c) for c in s['curves']]))
    if f == 'coons':
        from splipy import surface_factory as sf
        return gen.obj_observables(sf.coons_patch(*[gen.mk_object(sp, c) for c in s['curves']]))
    if f == 'edge_surfaces':
        from splipy import volume_factory as vf
        return gen.obj_observables(vf.edge_surfaces(*_surfs(sp, s)))
    if f == 'extrude':
        from splipy import surface_factory as sf, volume_factory as vf
        o = gen.mk_object(sp, s['obj'])
        return gen.obj_observables((sf if o.pardim == 1 else vf).extrude(o, s['amount']))
    if f == 'thicken':
        from splipy import surface_factory as sf
        return gen.obj_observables(sf.thicken(gen.mk_object(sp, s['obj']), s['amount']))
    raise AssertionError(f)


def compare(s, iv, mv):
    f = s['form']
    if f == 'thicken' or s.get('modify'):
        return None      # thicken (sqrt) is not modelled; `modify` faces are re-discretised by the library at run time
    if isinstance(mv, str) and mv == 'unsupported':
        return 'model answered `unsupported` for a case generated inside its scope (impl: %s)' % (str(iv)[:80],)
    if isinstance(iv, Err) or is_err(mv):
        return diff(iv, mv)
    if f in ('check', 'sections', 'to_index', 'from_index', 'corners'):
        return diff(iv, mv, RTOL, ATOL)
    if f == 'section':
        return _cmp_res(iv, mv)
    if f in ('edges', 'faces'):
        if not isinstance(mv, list) or len(mv) != len(iv):
            return 'number of sections impl %d vs model %r' % (len(iv), mv if not isinstance(mv, list) else len(mv))
        for k, (a, b) in enumerate(zip(iv, mv)):
            d = _cmp_res(a, b, '$[%d]' % k)
            if d:
                return d
        return None
    return _cmp_obj(iv, mv)


# ---------------------------------------------------------------------------------------------
# oracle

def _restriction(o, sel, free_params):
    """Exact value of the object at the boundary point selected by sel (0 -> start, -1 -> end)
    with the free directions at free_params (in order)."""
    it = iter(free_params)
    ps = []
    for b, s_ in zip(o['bases'], sel):
        a, e = _ends(b)
        ps.append(next(it) if s_ is None else (a if s_ == 0 else e))
    return exact.nurbs_point(o, ps)


def _sel_checkable(o, sel):
    return all(s_ is None or _clamped(b, s_ == -1) for b, s_ in zip(o['bases'], sel))


def _free_pts(o, sel, n=2):
    """n parameter tuples for the free directions (deterministic: span mid points / thirds)."""
    frees = [b for b, s_ in zip(o['bases'], sel) if s_ is None]
    out = []
    for k in range(n):
        tup = []
        for j, b in enumerate(frees):
            a, e = _ends(b)
            fr = [0.3125, 0.75, 0.0, 1.0][(k + j) % 4]
            tup.append(a + (e - a) * fr)
        out.append(tup)
    return out


def _project(o, row):
    row = np.asarray(row, dtype=float)
    return row[:-1] / row[-1] if o['rational'] else row


def _check_section_obj(o, sel, sec, what):
    """sec: real section result for selector sel (0/-1/None only)."""
    fails = []
    if not _sel_checkable(o, sel):
        return fails
    nfree = sum(1 for s_ in sel if s_ is None)
    if isinstance(sec, np.ndarray):
        want = _restriction(o, sel, [])
        if not exact.close(_project(o, sec), want, RTOL, 1e-9):
            fails.append('%s %r is not the object at that corner: %r vs %r' % (what, sel, _project(o, sec).tolist(), [float(x) for x in want]))
        return fails
    if nfree == 0:
        cp = np.asarray(sec.controlpoints, dtype=float).reshape(-1)
        want = _restriction(o, sel, [])
        if not exact.close(_project(o, cp), want, RTOL, 1e-9):
            fails.append('%s %r (unwrap_points=False) is not the object at that corner' % (what, sel))
        return fails
    if sec.pardim != nfree or type(sec).__name__ != {1: 'Curve', 2: 'Surface', 3: 'Volume'}[nfree]:
        fails.append('%s %r has class %s / pardim %d, expected pardim %d' % (what, sel, type(sec).__name__, sec.pardim, nfree))
        return fails
    for fp in _free_pts(o, sel):
        got = np.asarray(sec.evaluate(*fp)).reshape(-1)
        want = _restriction(o, sel, fp)
        if not exact.close(got, want, RTOL, 1e-9):
            fails.append('%s %r evaluated at %r differs from the object restricted to that boundary: %r vs %r' % (
                what, sel, fp, got.tolist(), [float(x) for x in want]))
            break
    return fails


# Surface.edges docstring: umin, umax, vmin, vmax.
# Volume.edges docstring: (umin,vmin) (umax,vmin) (umin,vmax) (umax,vmax) (umin,wmin) (umax,wmin) (umin,wmax)
# (umax,wmax) (vmin,wmin) (vmax,wmin) (vmin,wmax) (vmax,wmax).
EDGES_DOC = {2: [[0, None], [-1, None], [None, 0], [None, -1]],
             3: [[0, 0, None], [-1, 0, None], [0, -1, None], [-1, -1, None],
                 [0, None, 0], [-1, None, 0], [0, None, -1], [-1, None, -1],
                 [None, 0, 0], [None, -1, 0], [None, 0, -1], [None, -1, -1]]}
FACES_DOC = [[0, None, None], [-1, None, None], [None, 0, None], [None, -1, None], [None, None, 0], [None, None, -1]]


def _match_edge(result, curve):
    """Indices (edge number, reversed?) of the result's edges that are the given curve as a map."""
    want = _as_map(curve)
    out = []
    for k, e in enumerate(result.edges()):
        got = _as_map(e)
        if _same_pts(got, want):
            out.append((k, False))
        elif _same_pts(got[::-1], want):
            out.append((k, True))
    return out


def oracle(sp, s):
    f = s['form']
    fails = []
    if f in ('check', 'sections', 'to_index', 'from_index'):
        U = __import__('splipy.utils').utils
        if f == 'sections' and s['tgt'] <= s['src']:
            got = [list(x) for x in U.sections(s['src'], s['tgt'])]
            nf = s['src'] - s['tgt']
            want = []      # documented meaning: all choices of fixed directions x {0,-1}^nfixed, each exactly once
            for fixed in itertools.combinations(range(s['src']), nf):
                for ind in itertools.product([0, -1], repeat=nf):
                    a = [None] * s['src']
                    for d_, i_ in zip(fixed, ind):
                        a[d_] = i_
                    want.append(a)
            if sorted(map(str, got)) != sorted(map(str, want)) or len(got) != len(want):
                fails.append('sections(%d,%d) is not the set of all boundary sections' % (s['src'], s['tgt']))
            for i, sec in enumerate(got):
                if U.section_to_index(sec) != i or list(U.section_from_index(s['src'], s['tgt'], i)) != sec:
                    fails.append('section_to_index/section_from_index are not inverse at %d' % i)
                    break
        return fails
    if f == 'section':
        sel = s.get('sel')
        if sel is None:
            return []
        o = gen.mk_object(sp, s['obj'])
        kw = dict(s['kw'])
        if not s['unwrap']:
            kw['unwrap_points'] = False
        try:
            sec = o.section(*s['args'], **kw)
        except Exception as e:  # noqa: BLE001
            return ['section(%r, %r) raised %s' % (s['args'], s['kw'], type(e).__name__)]
        return _check_section_obj(s['obj'], sel, sec, 'section')
    if f == 'corners':
        o = gen.mk_object(sp, s['obj'])
        c = o.corners(order=s['order'])
        pd = o.pardim
        if c.shape[0] != 2 ** pd:
            return ['corners() returned %d rows' % c.shape[0]]
        for r in range(2 ** pd):
            bits = [(r >> k) & 1 for k in range(pd)]           # documented 'C': first direction fastest
            if s['order'] == 'F':
                bits = bits[::-1]                                 # documented 'F': last direction fastest
            sel = [-1 if b_ else 0 for b_ in bits]
            fails += _check_section_obj(s['obj'], sel, c[r], "corners('%s') row %d" % (s['order'], r))
            if fails:
                break
        return fails
    if f == 'edges':
        o = gen.mk_object(sp, s['obj'])
        es = o.edges()
        doc = EDGES_DOC[o.pardim]
        if len(es) != len(doc):
            return ['edges() returned %d curves' % len(es)]
        for k, (e, sel) in enumerate(zip(es, doc)):
            fails += _check_section_obj(s['obj'], sel, e, 'edges()[%d]' % k)
            if fails:
                break
        return fails
    if f == 'faces':
        o = gen.mk_object(sp, s['obj'])
        fs = o.faces()
        if len(fs) != 6:
            return ['faces() returned %d entries' % len(fs)]
        for k, (e, sel) in enumerate(zip(fs, FACES_DOC)):
            if e is None:
                if s['obj']['bases'][k // 2]['periodic'] < 0:
                    fails.append('faces()[%d] is None for a non-periodic direction' % k)
                continue
            fails += _check_section_obj(s['obj'], sel, e, 'faces()[%d]' % k)
            if fails:
                break
        return fails
    if f == 'cpc':
        d = s['d']
        if s['direction'] in (2, 'w', -1):
            return []
        b = s['obj']['bases'][d]
        a, e = _ends(b)
        x = s['knot']
        if not (a <= x <= e):
            return []      # outside the parametric domain [start, end] (ValueError, or periodic wrap: no claim)
        # a knot of multiplicity >= order: the surface is discontinuous across the line
        if b['periodic'] < 0 and a < x < e and sum(1 for k in b['knots'] if abs(k - x) < gen.TOL) >= b['order']:
            return []
        o = gen.mk_object(sp, s['obj'])
        try:
            c = o.const_par_curve(x, s['direction'])
        except Exception as ex:  # noqa: BLE001
            return ['const_par_curve(%r, %r) raised %s for a parameter inside the domain' % (x, s['direction'], type(ex).__name__)]
        ob = s['obj']['bases'][1 - d]
        oa, oe = _ends(ob)
        for fr in (0.0, 0.3125, 0.75, 1.0):
            v = oa + (oe - oa) * fr
            got = np.asarray(c.evaluate(v)).reshape(-1)
            want = exact.nurbs_point(s['obj'], [x, v] if d == 0 else [v, x])
            if not exact.close(got, want, 1e-8, 1e-9):
                fails.append('const_par_curve(%r, %d) at %r differs from the surface on that line: %r vs %r' % (
                    x, d, v, got.tolist(), [float(t) for t in want]))
                break
        return fails
    if f in ('edge_curves', 'coons'):
        from splipy import surface_factory as sf
        curves = [gen.mk_object(sp, c) for c in s['curves']]
        originals = [gen.mk_object(sp, c) for c in s['curves']]
        if f == 'edge_curves' and len(curves) == 2:
            r = sf.edge_curves(*curves)
            es = r.edges()
            for k, (c, e) in enumerate(zip(originals, (es[2], es[3]))):
                if not _same_pts(_as_map(e), _as_map(c)):
                    fails.append('edge_curves(c1, c2): the v=%s section is not input curve %d' % (['min', 'max'][k], k + 1))
            return fails
        if len(curves) != 4 or not s.get('closed', True):
            return []
        if f == 'coons' and (len({c.dimension for c in curves}) > 1 or len({bool(c.rational) for c in curves}) > 1):
            return []      # coons_patch itself expects compatible curves (edge_curves makes them so)
        try:
            r = sf.edge_curves(*curves) if f == 'edge_curves' else sf.coons_patch(*curves)
        except Exception as ex:  # noqa: BLE001
            return ['%s rejected a closed loop of four curves (%s: %s)' % (f, type(ex).__name__, str(ex)[:60])]
        used = set()
        for k, c in enumerate(originals):
            m = [x for x in _match_edge(r, c) if x[0] not in used]
            if not m:
                fails.append('input curve %d is not a boundary section of the result' % k)
                break
            if k == 0 and (2, False) not in m:
                fails.append('the first curve is not the vmin section in its given direction')
                break
            used.add(m[0][0])
        return fails
    if f == 'edge_surfaces':
        from splipy import volume_factory as vf
        surfs = _surfs(sp, s)
        originals = [x.clone() for x in surfs]
        if len(surfs) == 2:
            r = vf.edge_surfaces(*surfs)
            fs = r.faces()
            for k, (c, e) in enumerate(zip(originals, (fs[4], fs[5]))):
                if not _same_pts(_as_map(e), _as_map(c)):
                    fails.append('edge_surfaces(s1, s2): the w=%s face is not input surface %d' % (['min', 'max'][k], k + 1))
            return fails
        if len(surfs) != 6:
            return []
        try:
            r = vf.edge_surfaces(*surfs)
        except Exception as ex:  # noqa: BLE001
            return ['edge_surfaces rejected six compatible faces (%s: %s)' % (type(ex).__name__, str(ex)[:60])]
        for k, (c, e) in enumerate(zip(originals, r.faces())):
            if not _same_pts(_as_map(e), _as_map(c)):
                fails.append('edge_surfaces(6 faces): face %d of the result is not input %d' % (k, k))
                break
        return fails
    if f == 'extrude':
        from splipy import surface_factory as sf, volume_factory as vf
        if len(s['amount']) != 3:
            return []
        o = gen.mk_object(sp, s['obj'])
        ref = gen.mk_object(sp, s['obj'])
        r = (sf if o.pardim == 1 else vf).extrude(o, s['amount'])
        lo, hi = (r.edges()[2:4] if o.pardim == 1 else r.faces()[4:6])
        base = _pad(_as_map(ref), 3)
        if not _same_pts(_as_map(lo), base):
            fails.append('extrude: the min section is not the generating %s' % ('curve' if o.pardim == 1 else 'surface'))
        if not _same_pts(_as_map(hi), base + np.array(s['amount'])):
            fails.append('extrude: the max section is not the generating object moved by the amount')
        return fails
    if f == 'thicken':
        from splipy import surface_factory as sf
        c = gen.mk_object(sp, s['obj'])
        r = sf.thicken(c.clone(), s['amount'])
        t = np.asarray(c.bases[0].greville())
        a, e = c.start(0), c.end(0)
        ra, re_ = r.start(0), r.end(0)
        for ti in t:
            u = ra + (ti - a) / (e - a) * (re_ - ra)
            vm = (r.start(1) + r.end(1)) / 2
            if not _same_pts(np.asarray(r.evaluate(u, vm)).reshape(1, -1), np.asarray(c.evaluate(ti)).reshape(1, -1), 1e-8):
                fails.append('thicken: the centre line v=1/2 misses the curve at the Greville point %r' % float(ti))
                break
        return fails
    return fails


# ---------------------------------------------------------------------------------------------
# bookkeeping

def classify(s, res=None):
    f = s['form']
    if f == 'edge_curves' and s.get('wclass') == 'rescaled':
        return 'edge-curves-homogeneous-endpoint-test'
    if f == 'coons' and s.get('wclass') == 'rescaled':
        return 'coons-rational-unequal-corner-weights'
    if f == 'edge_surfaces' and len(s['surfs']) == 6 and any(x['rational'] for x in s['surfs']):
        return 'edge-surfaces-6-rational-refused'
    if f == 'cpc' and s['obj']['bases'][s['d']]['periodic'] >= 0:
        b = s['obj']['bases'][s['d']]
        info = gen.basis_info(b)
        if abs(s['knot'] - info['end']) < gen.TOL:
            # the known defect is the IndexError; any other failure at the seam is a new finding
            msgs = (res or {}).get('oracle') or []
            if res is None or any('raised IndexError' in m for m in msgs):
                return 'const-par-curve-periodic-end'
            return None
        # (`const-par-curve-periodic-few-functions`: fixed with periodic insert_knot)
    return None


def tags(s, res):
    f = s['form']
    out = []
    if f == 'edge_curves':
        out.append('form=edge_curves%d' % len(s['curves']) if len(s['curves']) in (2, 4) else 'form=edge_curves-bad')
    elif f == 'edge_surfaces':
        out.append('form=edge_surfaces%d' % len(s['surfs']) if len(s['surfs']) in (2, 6) else 'form=edge_surfaces-bad')
    else:
        out.append('form=' + f)
    o = s.get('obj')
    if o:
        out.append('pardim=%d' % len(o['bases']))
        if o['rational']:
            out.append('rational')
        if any(b['periodic'] >= 0 for b in o['bases']):
            out.append('periodic-dir')
    if f == 'section':
        out.append('sel=' + ('keyword' if s['kw'] and not s['args'] else 'mixed' if s['kw'] else 'positional'))
        if not s['unwrap']:
            out.append('unwrap=false')
        if s.get('sel') is not None and not _sel_checkable(s['obj'], s['sel']):
            out.append('section-of-unclamped-or-periodic-direction')
    if f == 'corners':
        out.append('corners=' + s['order'])
    if f == 'cpc':
        b = s['obj']['bases'][s['d']]
        a, e = _ends(b)
        x = s['knot']
        if not (a <= x <= e):
            out.append('cpc=outside')
        elif any(abs(k - x) < gen.TOL for k in b['knots']):
            out.append('cpc=knot')
        else:
            out.append('cpc=between')
    if f == 'edge_curves' and len(s['curves']) == 4:
        if not s.get('closed', True):
            out.append('loop=open')
        elif s['perm'] in ([0, 1, 2, 3], [1, 2, 3, 0], [2, 3, 0, 1], [3, 0, 1, 2]) and not any(s['flips']):
            out.append('loop=asgiven')
        else:
            out.append('loop=reordered')
        if any(s.get('flips', [])):
            out.append('loop=reversed-member')
        out.append('weights=' + s.get('wclass', 'none'))
    if s.get('oracle_only'):
        out.append('different-bases')       # inputs whose bases differ (make_splines_identical does real work)
    if f in ('edge_curves', 'coons') and len(s['curves']) in (2, 4):
        bs = [c['bases'][0] for c in s['curves']]
        def rv(b):
            a, e = _ends(b)
            return dict(b, knots=[a + e - k for k in reversed(b['knots'])])
        if any(_same_distinct_diff_mult(x, y) or _same_distinct_diff_mult(x, rv(y))
               for i, x in enumerate(bs) for y in bs[i + 1:]):
            out.append('same-distinct-knots-different-mult')
            out.append('same-distinct-knots-different-mult/%d' % len(bs))
    if f == 'faces' and any(b['periodic'] >= 0 for b in s['obj']['bases']):
        out.append('faces=None')
    if res is not None and isinstance(res.get('impl'), Err):
        out.append('raises')
        out.append('raises=' + res['impl'].kind)
    return out


def nontrivial(s, res):
    return not isinstance(res.get('impl'), Err)
