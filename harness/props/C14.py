"""C14 — interpolating and fitting factories reproduce their data.

Correspondence: the real factories (curve/surface/volume `interpolate`, `least_square_fit`,
`cubic_curve` with all six boundary types, `bezier`, `Curve.rebuild`, surface/volume `loft` after
`make_splines_identical`) versus the Lean model `Splipy.Interp.*` (Model/Interp.lean) run at Q:
resulting knot vectors, orders, periodicity and control nets (tolerance scaled with the measured
condition number of the collocation system).
Oracle (model independent, on the real objects): evaluate-at-data, end conditions of `cubic_curve`,
projection (data sampled from a spline of the target space returns its control points), loft passes
through every section in order (full `loft`, incompatible sections included), `manipulate`
interpolates the expression at the Greville points, `fit` meets its tolerance (dense sampling),
`Curve.error` against dense quadrature, `bezier` against de Casteljau.
"""
import math

import numpy as np

from vlib import gen
from vlib.val import line, Word, is_err
from vlib.compare import diff, Err

ID = 'C14'
ASSUMPTIONS = ['generated problems have a non-singular collocation (or normal) matrix with condition number <= 2e4 (the '
               "property's quantifier).  Non-singularity is PROVED (no hypothesis) for: clamped continuous non-periodic "
               'bases at Greville or nested user parameters (Schoenberg-Whitney: C14_interpolate_curve_greville/_nested, '
               'surfaces/volumes: C14_interpolate_surface/_volume_greville_succeeds); least squares whose sample points '
               'contain a nested subsequence, curves and surface grids (C14_lsq_exists/_reproduces, '
               'C14_lsq_surface_exists); cubic_curve FREE, NATURAL, TANGENT, TANGENTNATURAL and HERMITE on every strictly '
               'increasing parameter sequence with gaps >= tol (C14_cubic_FREE/NATURAL/TANGENT/TANGENTNATURAL/'
               'HERMITE_exists - Schoenberg-Whitney, energy argument, local Hermite uniqueness); cubic_curve PERIODIC on '
               'uniform parameters (C14_cubic_PERIODIC_uniform_exists_partial); lofting of n >= 3 curve or surface '
               'sections on common NON-PERIODIC clamped bases with centre distances >= tol (C14_loft_curves_partial, '
               'C14_loft_surfaces_partial); periodic bases with a dominant collocation diagonal, in particular uniform C2 '
               'periodic cubics at their Greville points (C14_interpolate_periodic_partial, '
               'C14_interpolate_periodic_uniform_cubic_partial).  It remains a hypothesis for: other periodic '
               'interpolation problems, cubic_curve PERIODIC on non-uniform parameters, lofting of periodic sections, '
               'volume least squares',
               'the model\'s solve is the raw Gauss-Jordan Mat.solve (proved sound and complete; C14_solve_is_gauss_jordan), '
               "numpy/scipy's LAPACK/SuperLU solves are trusted to approximate it within the stated tolerances",
               'loft: the section nets handed to the model are those produced by the REAL make_splines_identical '
               '(property C12); the oracle runs the full loft on the raw sections',
               'the rows of the theorems are Basis.evaluate rows; C14_interpolate_curve_spec/_splineVal/_evaluate convert '
               'them to the specification B (C01) and to Obj.evaluate (C02) for admissible (tolerance-exact) parameters']
RTOL = 1e-9
ATOL = 1e-11
KTOL = 1e-11          # knots (the model gets the float parameters; only rounding of sums differs)
COND_MAX = 2e4        # generated systems are kept well-conditioned (the property's quantifier: non-singular)
RULE = ('curve interpolate/least_square_fit: open and periodic bases of order 2-5, <=10 functions, default Greville or '
        'user parameters satisfying Schoenberg-Whitney (cond <= 2e4), 1-3 physical dimensions, random and projection '
        'data; cubic_curve: 4-9 points, all six boundary types, chord-length or user parameters, random tangents, '
        'closed/unclosed periodic input; bezier cubic/quadratic/relative; rebuild; surface/volume interpolate and '
        'least_square_fit on NON-SQUARE grids, tensor and flat layouts; loft of 2-6 curve sections / 2-5 surface '
        'sections, compatible and incompatible (orders, knots, rational, dimension, periodic); manipulate (scalar and '
        'vectorized, x/t/v/a expressions); fit (eight targets incl. hard region at start/middle, rtol 1e-2..1e-5, atol 0/1e-3/1e-2, '
        'and atol-binding / rtol-binding pairs); Curve.error with the error peak in the first/middle/last of >=3 spans.  distinct = distinct protocol '
        'lines + spec hash for oracle-only kinds; non-trivial = the factory returned an object.')
REQUIRED_TAGS = ['kind=interp_curve', 'kind=lsq_curve', 'kind=cubic', 'kind=bezier', 'kind=rebuild', 'kind=interp_grid',
                 'kind=lsq_grid', 'kind=loft', 'kind=manipulate', 'kind=fit', 'kind=error',
                 'bd=FREE', 'bd=NATURAL', 'bd=HERMITE', 'bd=PERIODIC', 'bd=TANGENT', 'bd=TANGENTNATURAL',
                 'params=default', 'params=user', 'layout=tensor', 'layout=flat', 'pardim=2', 'pardim=3', 'nonsquare',
                 'projection', 'dim=1', 'dim=2', 'dim=3', 'periodic-basis', 'loft=incompatible', 'loft=compatible',
                 'loft-sections=2', 'loft-sections=3', 'loft-sections>=4', 'loft=surfaces', 'loft:sections-periodic-v',
                 'loft:sections-periodic-u', 'loft:mixed-periodicity', 'loft:periodic-vs-open', 'lsq-overdetermined',
                 'fit=atol-binding', 'fit=rtol-binding', 'fit-hard=start', 'fit-hard=middle', 'error-peak=first',
                 'error-peak=middle', 'error-peak=last', 'error-spans>=3']
KNOWN_LABELS = ['manipulate-getargspec', 'manipulate-derivative-averaging', 'lsq-flat-layout-reshape',
                'volume-loft-two-sections']
NO_MODEL = ('manipulate', 'fit')

BOUNDARIES = {'FREE': 1, 'NATURAL': 2, 'HERMITE': 3, 'PERIODIC': 4, 'TANGENT': 5, 'TANGENTNATURAL': 6}


# ---------------------------------------------------------------------------------------------
# independent helpers (numpy/scipy only; never the library under test)

def _greville(b):
    p, kn = b['order'], b['knots']
    n = gen.basis_info(b)['n']
    return [float(np.sum(np.array(kn[i + 1:i + p]))) / (p - 1) for i in range(n)]


def _design(b, ts, d=0):
    """Collocation matrix of a basis spec from scipy's BSpline (used to measure conditioning and to
    sample projection data — independent of Splipy)."""
    from scipy.interpolate import BSpline
    p = b['order']
    # knots produced by the library may decrease by an ulp (accepted within knot_tolerance); scipy insists on order
    kn = np.maximum.accumulate(np.array(b['knots'], dtype=float))
    info = gen.basis_info(b)
    n_all, n = info['n_all'], info['n']
    ts = np.array(ts, dtype=float)
    if b['periodic'] >= 0:
        T = info['end'] - info['start']
        ts = (ts - info['start']) % T + info['start']
    M = np.zeros((len(ts), n))
    for i in range(n_all):
        c = np.zeros(n_all)
        c[i] = 1.0
        spl = BSpline(kn, c, p - 1, extrapolate=False)
        if d:
            spl = spl.derivative(d)
        M[:, i % n] += np.nan_to_num(spl(ts))
    return M


def _cond(M):
    M = np.asarray(M, dtype=float)
    if M.size == 0:
        return float('inf')
    try:
        c = float(np.linalg.cond(M))
    except Exception:  # noqa: BLE001
        return float('inf')
    return c if np.isfinite(c) else float('inf')


def _chord(x):
    t = [0.0]
    for a, b in zip(x[:-1], x[1:]):
        t.append(t[-1] + float(np.linalg.norm(np.array(b) - np.array(a))))
    return t


def _dy(rng, lo=-4.0, hi=4.0, bits=2):
    return gen.dyadic(rng, lo, hi, bits)


def _pts(rng, n, dim):
    return [[_dy(rng) for _ in range(dim)] for _ in range(n)]


def _distinct_pts(rng, n, dim):
    """n points, consecutive ones (cyclically) distinct: non-zero chord lengths, also for the closing chord."""
    while True:
        out = [[_dy(rng) for _ in range(dim)] for _ in range(n)]
        if all(out[i] != out[(i + 1) % n] for i in range(n)):
            return out


# ---------------------------------------------------------------------------------------------
# generators

def _curve_basis(rng, nmax=10, periodic_prob=0.3):
    for _ in range(100):
        p = rng.choice([2, 3, 3, 4, 4, 5])
        if rng.random() < periodic_prob:
            b = gen.periodic_basis(rng, p, rng.randint(0, p - 2), n_interior=rng.randint(1, 5), max_mult=max(1, p - 2))
        else:
            b = gen.open_basis(rng, p, n_interior=rng.randint(0, 4), max_mult=p - 1)
        n = gen.basis_info(b)['n']
        if 2 <= n <= nmax:
            return b
    raise AssertionError('no basis')


def _user_params(rng, b):
    """Parameters near the Greville points, strictly increasing, t_i inside supp B_i."""
    g = _greville(b)
    n = len(g)
    t = []
    for i in range(n):
        left = g[i] - g[i - 1] if i > 0 else 0.0
        right = g[i + 1] - g[i] if i + 1 < n else 0.0
        if b['periodic'] < 0 and i == 0:
            step = rng.choice([0.0, 0.0, 0.125]) * right
        elif b['periodic'] < 0 and i == n - 1:
            step = -rng.choice([0.0, 0.0, 0.125]) * left
        else:
            f = rng.choice([-0.25, -0.125, 0.0, 0.0, 0.125, 0.25])
            step = f * (left if f < 0 else right)
        t.append(float(g[i] + step))
    return t


def _well_posed(b, t):
    M = _design(b, t)
    return M.shape[0] == M.shape[1] and _cond(M) <= COND_MAX


def _interp_curve_spec(rng, want_periodic=None, dim=None, user=None, projection=None):
    for _ in range(200):
        b = _curve_basis(rng, periodic_prob=0.3 if want_periodic is None else (1.0 if want_periodic else 0.0))
        user_t = (rng.random() < 0.5) if user is None else user
        t = _user_params(rng, b) if user_t else None
        tt = t if t is not None else _greville(b)
        if not _well_posed(b, tt):
            continue
        n = gen.basis_info(b)['n']
        d = dim or rng.choice([1, 2, 3])
        s = {'kind': 'interp_curve', 'basis': b, 't': t, 'dim': d}
        if (rng.random() < 0.4) if projection is None else projection:
            c0 = _pts(rng, n, d)
            s['c0'] = c0
            s['x'] = (_design(b, tt) @ np.array(c0)).tolist()
        else:
            s['x'] = _pts(rng, n, d)
        return s
    raise AssertionError('no well-posed curve interpolation problem')


def _lsq_params(rng, b, extra):
    info = gen.basis_info(b)
    n = info['n']
    m = n + extra
    a, e = info['start'], info['end']
    if b['periodic'] >= 0:
        return [a + (e - a) * (i + rng.choice([0.0, 0.25, 0.5])) / m for i in range(m)]
    ts = sorted(set([a, e] + [a + (e - a) * (i + rng.choice([0.25, 0.5, 0.75])) / (m - 1) for i in range(m - 2)] + _greville(b)[1:-1]))
    return [float(x) for x in ts]


def _lsq_curve_spec(rng):
    for _ in range(200):
        b = _curve_basis(rng, nmax=8)
        t = _lsq_params(rng, b, rng.randint(1, 5))
        n = gen.basis_info(b)['n']
        N = _design(b, t)
        if len(t) <= n or _cond(N.T @ N) > COND_MAX:
            continue
        d = rng.choice([1, 2, 3])
        s = {'kind': 'lsq_curve', 'basis': b, 't': t, 'dim': d}
        if rng.random() < 0.6:
            c0 = _pts(rng, n, d)
            s['c0'] = c0
            s['x'] = (N @ np.array(c0)).tolist()
        else:
            s['x'] = _pts(rng, len(t), d)
        return s
    raise AssertionError('no lsq problem')


def _cubic_spec(rng, bd, tier):
    n = rng.randint(4, 5) if bd == 'HERMITE' else rng.randint(4, 9 if tier == 'thorough' else 8)
    dim = rng.choice([2, 3, 3, 1] if bd != 'PERIODIC' else [2, 3])
    x = _distinct_pts(rng, n, dim)
    closed = False
    if bd == 'PERIODIC' and rng.random() < 0.4:
        x = x + [list(x[0])]
        closed = True
    user = rng.random() < 0.45
    t = None
    if user:
        t = gen.increasing(rng, len(x), start=rng.choice([0.0, -1.0, 2.5]), uniform=rng.random() < 0.2)
    tang = None
    if bd == 'HERMITE':
        tang = _pts(rng, n, dim)
    elif bd == 'TANGENT':
        tang = _pts(rng, 2, dim)
    elif bd == 'TANGENTNATURAL':
        tang = _pts(rng, 1, dim)
    return {'kind': 'cubic', 'boundary': bd, 'x': x, 't': t, 'tangents': tang, 'closed': closed, 'dim': dim}


def _bezier_spec(rng):
    quad = rng.random() < 0.4
    p = 3 if quad else 4
    nseg = rng.randint(1, 3)
    dim = rng.choice([2, 3])
    npts = nseg * (p - 1) + 1
    if rng.random() < 0.1:
        npts += 1   # wrong count: ValueError
    return {'kind': 'bezier', 'pts': _pts(rng, npts, dim), 'quadratic': quad, 'relative': rng.random() < 0.4, 'dim': dim}


def _rebuild_spec(rng):
    o = gen.rand_object(rng, pardim=1, pmax=4, periodic_prob=0.0, max_interior=3, pmin=2)
    p = rng.choice([2, 3, 4])
    n = rng.randint(p + 1, 9)
    return {'kind': 'rebuild', 'obj': o, 'p': p, 'n': n, 'dim': len(o['cps'][0]) - (1 if o['rational'] else 0)}


def _grid_bases(rng, pardim, nmax):
    """Bases with pairwise different numbers of functions (non-square grids)."""
    for _ in range(500):
        bs = []
        for _k in range(pardim):
            p = rng.choice([2, 3, 3, 4])
            if rng.random() < 0.2:
                b = gen.periodic_basis(rng, p, rng.randint(0, p - 2), n_interior=rng.randint(1, 3), max_mult=1)
            else:
                b = gen.open_basis(rng, p, n_interior=rng.randint(0, 2), max_mult=p - 1)
            bs.append(b)
        ns = [gen.basis_info(b)['n'] for b in bs]
        if len(set(ns)) == pardim and all(2 <= n <= nmax for n in ns):
            return bs
    raise AssertionError('no bases')


def _interp_grid_spec(rng, pardim, layout=None, dim=None):
    for _ in range(200):
        bs = _grid_bases(rng, pardim, 7 if pardim == 2 else 4)
        user = rng.random() < 0.5
        u = [_user_params(rng, b) for b in bs] if user else None
        uu = u or [_greville(b) for b in bs]
        if not all(_well_posed(b, t) for b, t in zip(bs, uu)):
            continue
        ns = [gen.basis_info(b)['n'] for b in bs]
        d = dim or rng.choice([1, 2, 3, 3])
        s = {'kind': 'interp_grid', 'bases': bs, 'u': u, 'layout': layout or rng.choice(['tensor', 'flat']), 'dim': d}
        if rng.random() < 0.4:
            c0 = np.array(gen.rand_cps(rng, ns, d, False))
            s['c0'] = c0.tolist()
            x = c0
            for k, (b, t) in enumerate(zip(bs, uu)):
                x = np.moveaxis(np.tensordot(_design(b, t), x, axes=(1, k)), 0, k)
            s['x'] = x.tolist()
        else:
            s['x'] = gen.rand_cps(rng, ns, d, False)
        return s
    raise AssertionError('no grid problem')


def _lsq_grid_spec(rng, pardim, layout=None):
    for _ in range(200):
        bs = _grid_bases(rng, pardim, 5 if pardim == 2 else 4)
        u = [_lsq_params(rng, b, rng.randint(1, 3)) for b in bs]
        Ns = [_design(b, t) for b, t in zip(bs, u)]
        ns = [gen.basis_info(b)['n'] for b in bs]
        if any(len(t) <= n for t, n in zip(u, ns)) or any(_cond(N.T @ N) > COND_MAX for N in Ns):
            continue
        d = rng.choice([1, 2, 3])
        s = {'kind': 'lsq_grid', 'bases': bs, 'u': u, 'layout': layout or rng.choice(['tensor', 'tensor', 'flat']), 'dim': d}
        ms = [len(t) for t in u]
        if rng.random() < 0.6:
            c0 = np.array(gen.rand_cps(rng, ns, d, False))
            s['c0'] = c0.tolist()
            x = c0
            for k, N in enumerate(Ns):
                x = np.moveaxis(np.tensordot(N, x, axes=(1, k)), 0, k)
            s['x'] = x.tolist()
        else:
            s['x'] = gen.rand_cps(rng, ms, d, False)
        return s
    raise AssertionError('no lsq grid problem')


def _section(rng, pardim, variant, base=None):
    """One loft section (object spec).  variant: 'same' (basis of `base`), 'knots', 'order', 'rational',
    'dim2', 'periodic', 'domain'."""
    if variant == 'same' and base is not None:
        bases = base['bases']
        rational = base['rational']
        dim = len(np.array(base['cps']).shape) and np.array(base['cps']).shape[-1] - (1 if rational else 0)
    else:
        bases = []
        for _k in range(pardim):
            p = rng.choice([2, 3, 3, 4]) if pardim == 1 else rng.choice([2, 2, 3])
            if variant == 'periodic' and _k == 0:
                b = gen.periodic_basis(rng, max(p, 3), rng.randint(0, 1), n_interior=rng.randint(1, 2), max_mult=1)
            else:
                b = gen.open_basis(rng, p, n_interior=rng.randint(0, 2 if pardim == 1 else 1), max_mult=p - 1)
            bases.append(b)
        rational = variant == 'rational'
        dim = 2 if variant == 'dim2' else 3
    shape = [gen.basis_info(b)['n'] for b in bases]
    cps = gen.rand_cps(rng, shape, dim + (1 if rational else 0), rational)
    return {'bases': bases, 'cps': cps, 'rational': bool(rational)}


def _loft_periodic_spec(rng, nsec, pdir, mix):
    """Volume loft of SURFACE sections that are periodic in parametric direction `pdir` (1 = v, the
    second direction; 0 = u as control) and whose periodic continuity DIFFERS between the sections, so
    that make_splines_identical has to call lower_periodic(k, direction=pdir) on some of them.
    mix: 'continuity' (C0/C1/C2 periodic rings), 'rational' (the C0 rings are rational, circle-like),
    'open' (one section is not periodic at all)."""
    secs = []
    for i in range(nsec):
        if mix == 'open' and i == nsec - 1:
            bp = gen.open_basis(rng, rng.choice([2, 3]), n_interior=rng.randint(1, 2), max_mult=1)
            rational = False
        else:
            k = [0, 1, 2, 1][i % 4] if mix != 'open' else [1, 0, 1][i % 3]
            p = max(3, k + 2)
            bp = gen.periodic_basis(rng, p, k, n_interior=rng.randint(1, 2), max_mult=1)
            rational = (mix == 'rational' and k == 0)
        bo = gen.open_basis(rng, 2, n_interior=rng.randint(0, 1), max_mult=1)
        bases = [bo, bp] if pdir == 1 else [bp, bo]
        shape = [gen.basis_info(b)['n'] for b in bases]
        arr = np.array(gen.rand_cps(rng, shape, 3 + (1 if rational else 0), rational), dtype=float)
        off = [_dy(rng, -0.5, 0.5), _dy(rng, -0.5, 0.5), 3.0 * i + _dy(rng, 0.0, 0.5)]
        for c in range(3):
            if rational:
                arr[..., c] += off[c] * arr[..., -1]
            else:
                arr[..., c] += off[c]
        secs.append({'bases': bases, 'cps': arr.tolist(), 'rational': bool(rational)})
    return {'kind': 'loft', 'sections': secs, 'pardim': 2, 'compatible': False, 'dim': 3,
            'perdir': pdir, 'mix': mix}


def _loft_spec(rng, nsec, pardim, compatible):
    secs = []
    base = _section(rng, pardim, 'fresh')
    for i in range(nsec):
        if compatible:
            s = _section(rng, pardim, 'same', base)
        else:
            s = _section(rng, pardim, rng.choice(['knots', 'order', 'rational', 'dim2', 'knots', 'periodic' if pardim == 1 else 'order']))
        # move section i so that the centres are well separated and ordered
        off = [_dy(rng, -0.5, 0.5), _dy(rng, -0.5, 0.5), 2.0 * i + _dy(rng, 0.0, 0.5)]
        arr = np.array(s['cps'], dtype=float)
        nd = arr.shape[-1] - (1 if s['rational'] else 0)
        for c in range(nd):
            if s['rational']:
                arr[..., c] += off[c] * arr[..., -1]
            else:
                arr[..., c] += off[c]
        s['cps'] = arr.tolist()
        secs.append(s)
    return {'kind': 'loft', 'sections': secs, 'pardim': pardim, 'compatible': bool(compatible), 'dim': 3}


MANIP_FUNCS = ['double', 'shift_t', 'offset_v', 'offset_a', 'all']


def _manip_spec(rng):
    # curves with knots of every continuity class at Greville points (triple knot in a cubic, double in a quadratic)
    kind = rng.choice(['smooth', 'kink'])
    p = rng.choice([3, 4])
    if kind == 'kink':
        knots = [0.0] * p + [1.0] * (p - 1) + [2.0] + [3.0] * p
    else:
        b = gen.open_basis(rng, p, n_interior=rng.randint(0, 3), max_mult=1)
        knots = b['knots']
    b = {'order': p, 'knots': knots, 'periodic': -1}
    n = gen.basis_info(b)['n']
    dim = rng.choice([2, 3])
    return {'kind': 'manipulate', 'obj': {'bases': [b], 'cps': gen.rand_cps(rng, [n], dim, False), 'rational': False},
            'f': rng.choice(MANIP_FUNCS), 'normalized': rng.random() < 0.3, 'vectorized': rng.random() < 0.5, 'dim': dim}


FIT_FUNCS = {'arc': (0.0, 2 * math.pi), 'exp': (0.0, 2.0), 'cubic': (-1.0, 1.0), 'runge': (-1.0, 1.0), 'helix': (0.0, 4.0),
             # hard region at the START of the domain / in the MIDDLE (the last knot span is the easy one)
             'inv': (0.0, 1.0), 'layer': (2.0, 3.0), 'midstep': (0.0, 1.0)}
FIT_HARD = {'inv': 'start', 'layer': 'start', 'midstep': 'middle', 'runge': 'middle', 'exp': 'end'}


def _fit_spec(rng):
    f = rng.choice(['arc', 'exp', 'cubic', 'runge', 'helix'])
    rtol = rng.choice([1e-2, 1e-3, 1e-4, 1e-5])
    atol = rng.choice([0.0, 0.0, 1e-3, 1e-2])
    return {'kind': 'fit', 'f': f, 'rtol': rtol, 'atol': atol, 'dim': 3 if f == 'helix' else 2}


def _fit_binding_spec(rng, binding):
    """One of the two stopping criteria is the binding one (the other is far tighter), on targets whose
    hard region is at the start or in the middle of the domain."""
    f = rng.choice(['inv', 'layer', 'midstep', 'inv', 'layer', 'runge'])
    if binding == 'atol':
        rtol, atol = rng.choice([(1e-7, 1e-3), (1e-8, 1e-4), (1e-7, 1e-2), (1e-8, 3e-4)])
    else:
        rtol, atol = rng.choice([(1e-3, 1e-9), (1e-4, 1e-10), (3e-4, 1e-9)])
    return {'kind': 'fit', 'f': f, 'rtol': rtol, 'atol': atol, 'binding': binding, 'dim': 3 if f == 'layer' else 2}


def _error_spec(rng, peak=None):
    """Curve.error against a target on the same basis.  `peak` = where the largest pointwise error sits:
    'first' / 'middle' / 'last' knot span (>= 3 spans: the target differs strongly only in control points whose
    support avoids the other spans) or None (arbitrary target)."""
    if peak is None:
        o = gen.rand_object(rng, pardim=1, pmax=4, periodic_prob=0.0, max_interior=2, pmin=2, rational=False)
        n = len(o['cps'])
        dim = len(o['cps'][0])
        o2 = {'bases': o['bases'], 'cps': gen.rand_cps(rng, [n], dim, False), 'rational': False}
        return {'kind': 'error', 'obj': o, 'target': o2, 'dim': dim, 'peak': 'any'}
    p = rng.choice([2, 3, 4])
    b = gen.open_basis(rng, p, n_interior=rng.randint(3, 5), max_mult=1)
    n = gen.basis_info(b)['n']
    dim = rng.choice([2, 3])
    cps = np.array(gen.rand_cps(rng, [n], dim, False))
    tgt = cps + np.array([[gen.dyadic(rng, -0.0625, 0.0625, 6) for _ in range(dim)] for _ in range(n)])
    i = {'first': 0, 'last': n - 1, 'middle': rng.randint(1, n - p - 1)}[peak]
    tgt[i] += np.array([rng.choice([-4.0, 3.0, 5.0]) for _ in range(dim)])
    return {'kind': 'error', 'obj': {'bases': [b], 'cps': cps.tolist(), 'rational': False},
            'target': {'bases': [b], 'cps': tgt.tolist(), 'rational': False}, 'dim': dim, 'peak': peak}


def generate(rng, tier):
    q = tier == 'quick'
    specs = []
    rep = 3 if q else 24
    for _ in range(rep):
        for i in range(14):
            specs.append(_interp_curve_spec(rng, want_periodic=(i % 3 == 0), dim=[1, 2, 3][i % 3]))
        for _i in range(8):
            specs.append(_lsq_curve_spec(rng))
        for bd in BOUNDARIES:
            for _i in range(4):
                specs.append(_cubic_spec(rng, bd, tier))
        for _i in range(5):
            specs.append(_bezier_spec(rng))
        for _i in range(4):
            specs.append(_rebuild_spec(rng))
        for i in range(8):
            specs.append(_interp_grid_spec(rng, 2, layout=['tensor', 'flat'][i % 2], dim=[1, 2, 3, 3][i % 4]))
        for i in range(4):
            specs.append(_interp_grid_spec(rng, 3, layout=['tensor', 'flat'][i % 2]))
        for i in range(6):
            specs.append(_lsq_grid_spec(rng, 2, layout=['tensor', 'tensor', 'flat'][i % 3]))
        for i in range(3):
            specs.append(_lsq_grid_spec(rng, 3, layout=['tensor', 'tensor', 'flat'][i % 3]))
        for nsec in (2, 3, 4, 5, 6):
            specs.append(_loft_spec(rng, nsec, 1, True))
            specs.append(_loft_spec(rng, nsec, 1, False))
        for nsec in (2, 3, 4, 5):
            specs.append(_loft_spec(rng, nsec, 2, nsec % 2 == 0))
            if not q or nsec in (2, 4):
                specs.append(_loft_spec(rng, nsec, 2, nsec % 2 == 1))
        # sections periodic in the SECOND direction with differing periodic continuity (lower_periodic(k, 1))
        for nsec, pdir, mix in ((3, 1, 'continuity'), (4, 1, 'open'), (3, 1, 'rational'), (3, 0, 'continuity'),
                                (2, 1, 'rational'), (2, 1, 'open'), (4, 1, 'continuity')):
            if q and (nsec, pdir, mix) == (4, 1, 'continuity'):
                continue
            specs.append(_loft_periodic_spec(rng, nsec, pdir, mix))
        for _i in range(8):
            specs.append(_manip_spec(rng))
        for _i in range(6):
            specs.append(_fit_spec(rng))
        for b in ('atol', 'atol', 'rtol'):
            specs.append(_fit_binding_spec(rng, b))
        for pk in (None, 'first', 'middle', 'last', 'first', 'middle'):
            specs.append(_error_spec(rng, pk))
    return specs


# ---------------------------------------------------------------------------------------------
# model side

_sp_cache = None


def _sp():
    global _sp_cache
    if _sp_cache is None:
        from vlib import impl
        _sp_cache = impl.load()[0]
    return _sp_cache


def _enc_tensor(a):
    a = np.asarray(a, dtype=float)
    return [list(a.shape), a.reshape(-1).tolist()]


def _opt(v):
    return Word('none') if v is None else v


def _cubic_norms(s):
    """The only floating-point inputs of cubic_curve's parameter logic: the Euclidean norms between
    consecutive INPUT points and from the last point back to the first.  Closure of periodic input,
    the closing parameter and the cumulative chord-length sums are computed by the Lean model."""
    x = np.array(s['x'], dtype=float)
    chords = [float(np.linalg.norm(b - a)) for a, b in zip(x[:-1], x[1:])]
    closing = float(np.linalg.norm(x[0] - x[-1]))
    return chords, closing


def _cp_tols():
    try:
        st = _sp().state
        return float(st.controlpoint_relative_tolerance), float(st.controlpoint_absolute_tolerance)
    except Exception:  # noqa: BLE001
        return 0.0, 1e-8


def _loft_prologue(sp, s):
    """Inputs of the loft model that are other properties' subjects, taken from the REAL code: the
    sections after make_splines_identical (property C12) and the Euclidean distances between the
    centres of consecutive sections (center() is property C16; the norm is a float square root).  The
    cumulative sum of the distances, the lofting knot vector and all linear algebra are the model's."""
    objs = [gen.mk_object(sp, o).clone().set_dimension(3) for o in s['sections']]
    n = len(objs)
    cdists = []
    if n >= 4:
        x = [c.center() for c in objs]
        cdists = [float(np.linalg.norm(x1 - x0)) for x1, x0 in zip(x[1:], x[:-1])]
    cls = type(objs[0])
    for i in range(n):
        for j in range(i + 1, n):
            cls.make_splines_identical(objs[i], objs[j])
    return objs, cdists


def model_line(s):
    k = s['kind']
    if k in NO_MODEL:
        return line('c14_nop', _spec_hash(s))
    if k == 'interp_curve':
        return line('c14_interp_curve', gen.enc_basis(s['basis']), gen.TOL, _opt(s['t']), s['x'])
    if k == 'lsq_curve':
        return line('c14_lsq_curve', gen.enc_basis(s['basis']), gen.TOL, s['t'], s['x'])
    if k == 'cubic':
        rt, at = _cp_tols()
        chords, closing = _cubic_norms(s)
        return line('c14_cubic', BOUNDARIES[s['boundary']], gen.TOL, rt, at, s['x'], _opt(s['t']), chords, closing,
                    _opt(s['tangents']))
    if k == 'bezier':
        return line('c14_bezier', gen.TOL, s['pts'], s['quadratic'], s['relative'])
    if k == 'error':
        xg, wg = np.polynomial.legendre.leggauss(s['obj']['bases'][0]['order'] + 1)
        return line('c14_error', gen.enc_object(s['obj']), gen.enc_object(s['target']), gen.TOL, xg.tolist(), wg.tolist())
    if k == 'rebuild':
        return line('c14_rebuild', gen.enc_object(s['obj']), gen.TOL, s['p'], s['n'])
    if k in ('interp_grid', 'lsq_grid'):
        x = np.array(s['x'], dtype=float)
        if s['layout'] == 'flat':
            x = x.reshape(-1, x.shape[-1])
        op = 'c14_interp_grid' if k == 'interp_grid' else 'c14_lsq_grid'
        return line(op, [gen.enc_basis(b) for b in s['bases']], gen.TOL, _opt(s['u']), _enc_tensor(x))
    if k == 'loft':
        if len(s['sections']) < 3:
            return line('c14_nop', _spec_hash(s))
        try:
            objs, cdists = _loft_prologue(_sp(), s)
        except Exception:  # noqa: BLE001 - make_splines_identical failed: oracle-only case
            return line('c14_nop', _spec_hash(s))
        bases = [gen.spec_of_basis(b) for b in objs[0].bases]
        return line('c14_loft', [gen.enc_basis(b) for b in bases], gen.TOL,
                    [_enc_tensor(o.controlpoints) for o in objs], cdists)
    raise AssertionError(k)


def _spec_hash(s):
    import hashlib
    import json
    return Word('h' + hashlib.sha256(json.dumps(s, sort_keys=True).encode()).hexdigest()[:16])


# ---------------------------------------------------------------------------------------------
# implementation side

def _obs(obj, cond):
    cps = np.asarray(obj.controlpoints, dtype=float)
    return {'bases': [[int(b.order), [float(x) for x in b.knots], int(b.periodic)] for b in obj.bases],
            'shape': list(cps.shape), 'cps': cps.reshape(-1).tolist(), 'rational': bool(obj.rational), 'cond': cond}


def _fac(sp, name):
    import importlib
    return importlib.import_module(sp.__name__ + '.' + name)


def _bd(sp, s):
    return getattr(_fac(sp, 'curve_factory').Boundary, s['boundary'])


def _grid_x(s):
    x = np.array(s['x'], dtype=float)
    if s['layout'] == 'flat':
        x = x.reshape(-1, x.shape[-1])
    return x


def _manip_f(name, vectorized):
    col = (lambda t: t[:, None]) if vectorized else (lambda t: t)
    if name == 'double':
        def f(x):
            return 2 * x
    elif name == 'shift_t':
        def f(x, t):
            return x + 0.5 * col(np.asarray(t))
    elif name == 'offset_v':
        def f(x, v):
            return x + 0.25 * v
    elif name == 'offset_a':
        def f(x, a):
            return x + 0.125 * a
    else:
        def f(x, v, a, t):
            return x + 0.25 * v - 0.125 * a + 0.5 * col(np.asarray(t))
    return f


def _fit_f(name):
    if name == 'arc':
        return lambda t: np.array([np.cos(t), np.sin(t)]).T
    if name == 'exp':
        return lambda t: np.array([t, np.exp(t)]).T
    if name == 'cubic':
        return lambda t: np.array([t, t ** 3 - t]).T
    if name == 'runge':
        return lambda t: np.array([t, 1.0 / (1 + 25 * t * t)]).T
    if name == 'helix':
        return lambda t: np.array([np.cos(t), np.sin(t), 0.25 * t]).T
    if name == 'inv':
        return lambda t: np.array([t, 1.0 / (np.asarray(t) + 0.05)]).T
    if name == 'layer':
        return lambda t: np.array([t, np.exp(-40 * (np.asarray(t) - 2.0)), 0.5 * np.asarray(t) ** 2]).T
    if name == 'midstep':
        return lambda t: np.array([t, np.tanh(30 * (np.asarray(t) - 0.375))]).T
    raise AssertionError(name)


def _call(sp, s):
    """Run the real factory for this spec (exceptions propagate)."""
    k = s['kind']
    cf, sf, vf = _fac(sp, 'curve_factory'), _fac(sp, 'surface_factory'), _fac(sp, 'volume_factory')
    if k == 'interp_curve':
        return cf.interpolate(np.array(s['x'], dtype=float), gen.mk_basis(sp, s['basis']), s['t'])
    if k == 'lsq_curve':
        return cf.least_square_fit(np.array(s['x'], dtype=float), gen.mk_basis(sp, s['basis']), s['t'])
    if k == 'cubic':
        tg = None if s['tangents'] is None else np.array(s['tangents'], dtype=float)
        return cf.cubic_curve(np.array(s['x'], dtype=float), _bd(sp, s), None if s['t'] is None else list(s['t']), tg)
    if k == 'bezier':
        return cf.bezier([list(p) for p in s['pts']], quadratic=s['quadratic'], relative=s['relative'])
    if k == 'rebuild':
        return gen.mk_object(sp, s['obj']).rebuild(s['p'], s['n'])
    if k in ('interp_grid', 'lsq_grid'):
        bases = [gen.mk_basis(sp, b) for b in s['bases']]
        fac = sf if len(bases) == 2 else vf
        if k == 'interp_grid':
            return fac.interpolate(_grid_x(s), bases, None if s['u'] is None else [list(t) for t in s['u']])
        return fac.least_square_fit(_grid_x(s), bases, [list(t) for t in s['u']])
    if k == 'loft':
        objs = [gen.mk_object(sp, o) for o in s['sections']]
        return (sf if s['pardim'] == 1 else vf).loft(*objs)
    if k == 'manipulate':
        return cf.manipulate(gen.mk_object(sp, s['obj']), _manip_f(s['f'], s['vectorized']),
                             normalized=s['normalized'], vectorized=s['vectorized'])
    if k == 'fit':
        t0, t1 = FIT_FUNCS[s['f']]
        return cf.fit(_fit_f(s['f']), t0, t1, rtol=s['rtol'], atol=s['atol'])
    if k == 'error':
        tgt = gen.mk_object(sp, s['target'])
        return gen.mk_object(sp, s['obj']).error(lambda t: tgt(t))
    raise AssertionError(k)


def _system_cond(sp, s, res):
    """Condition number of the linear system the factory solved (from scipy's matrices — independent)."""
    k = s['kind']
    if k == 'interp_curve':
        return _cond(_design(s['basis'], s['t'] if s['t'] is not None else _greville(s['basis'])))
    if k == 'lsq_curve':
        N = _design(s['basis'], s['t'])
        return _cond(N.T @ N)
    if k == 'interp_grid':
        u = s['u'] or [_greville(b) for b in s['bases']]
        return float(np.prod([_cond(_design(b, t)) for b, t in zip(s['bases'], u)]))
    if k == 'lsq_grid':
        return float(np.prod([_cond(_design(b, t).T @ _design(b, t)) for b, t in zip(s['bases'], s['u'])]))
    if k == 'cubic':
        return _cond(_cubic_matrix(s, gen.spec_of_basis(res.bases[0])))
    if k == 'rebuild':
        b = gen.spec_of_basis(res.bases[0])
        return _cond(_design(b, _greville(b)))
    if k == 'loft':
        c = 1.0
        for b in res.bases[:-1]:
            bs = gen.spec_of_basis(b)
            c *= _cond(_design(bs, _greville(bs)))
        return c * _cond(_design(gen.spec_of_basis(res.bases[-1]), _loft_params(sp, s)))
    return 1.0


def _cubic_params(s):
    """(points, parameters) the property speaks about: chord length unless given; the periodic input
    closed when it is not."""
    x = np.array(s['x'], dtype=float)
    t = s['t']
    if s['boundary'] == 'PERIODIC' and not np.allclose(x[0], x[-1], rtol=0.0, atol=1e-8):
        x = np.append(x, [x[0]], axis=0)
        if t is not None:
            t = list(t) + [t[-1] + float(np.linalg.norm(x[0] - x[-2]))]
    if t is None:
        t = _chord(x)
    return x, [float(v) for v in t]


def _cubic_matrix(s, b):
    x, t = _cubic_params(s)
    bd = s['boundary']
    if bd == 'PERIODIC':
        return _design(b, t[:-1])
    rows = [_design(b, t)]
    if bd == 'TANGENT':
        rows.append(_design(b, [t[0], t[-1]], 1))
    elif bd == 'TANGENTNATURAL':
        rows.append(_design(b, [t[0]], 1))
        rows.append(_design(b, [t[-1]], 2))
    elif bd == 'HERMITE':
        rows.append(_design(b, t, 1))
    elif bd == 'NATURAL':
        rows.append(_design(b, [t[0], t[-1]], 2))
    return np.vstack(rows)


def _loft_params(sp, s):
    n = len(s['sections'])
    if n == 2:
        return [0.0, 1.0]
    if n == 3:
        return [0.0, 0.5, 1.0]
    objs = [gen.mk_object(sp, o).clone().set_dimension(3) for o in s['sections']]
    x = [c.center() for c in objs]
    dist = [0.0]
    for x1, x0 in zip(x[1:], x[:-1]):
        dist.append(dist[-1] + float(np.linalg.norm(x1 - x0)))
    return dist


def run_impl(sp, s):
    k = s['kind']
    res = _call(sp, s)
    if k == 'error':
        return {'err2': [float(v) for v in res[0]], 'max': float(res[1])}
    if k in NO_MODEL:
        return _obs(res, 1.0)
    return _obs(res, _system_cond(sp, s, res))


# ---------------------------------------------------------------------------------------------
# comparison

def _tol(cond):
    return max(1e-9, 1e-11 * cond)


def _cmp_basis(ib, mb, path):
    d = diff(ib[0], mb[0], path=path + '.order')
    d = d or diff(ib[2], mb[2], path=path + '.periodic')
    return d or diff(ib[1], mb[1], rtol=KTOL, atol=KTOL, path=path + '.knots')


def _cmp_shape(shape, mat):
    ms = [len(mat), len(mat[0]) if mat else 0]
    return None if list(shape) == ms else '$.shape: impl %r vs model %r' % (list(shape), ms)


def compare(s, iv, mv):
    k = s['kind']
    if k in NO_MODEL or (isinstance(mv, str) and mv.startswith('h')):
        return None
    if isinstance(iv, Err) or is_err(mv):
        return diff(iv, mv)
    tol = _tol(iv.get('cond', 1.0))
    if k == 'error':
        d = diff(iv['err2'], mv[0], rtol=1e-9, atol=1e-12, path='$.err2')
        if d:
            return d
        m = math.sqrt(float(mv[1]))
        if abs(iv['max'] - m) > 1e-9 * max(1.0, m):
            return '$.err_inf: impl %.17g vs model (running max over all spans) %.17g' % (iv['max'], m)
        return None
    if k in ('interp_curve', 'lsq_curve'):
        flat = [v for row in mv for v in row]
        d = _cmp_shape(iv['shape'], mv)
        return d or diff(iv['cps'], flat, rtol=tol, atol=tol, path='$.cps')
    if k in ('cubic', 'bezier', 'rebuild'):
        mb, mc = mv
        d = _cmp_basis(iv['bases'][0], mb, '$.basis')
        flat = [v for row in mc for v in row]
        d = d or _cmp_shape(iv['shape'], mc)
        return d or diff(iv['cps'], flat, rtol=tol, atol=tol, path='$.cps')
    if k in ('interp_grid', 'lsq_grid'):
        d = diff(iv['shape'], mv[0], path='$.shape')
        return d or diff(iv['cps'], mv[1], rtol=tol, atol=tol, path='$.cps')
    if k == 'loft':
        mb, mt = mv
        d = _cmp_basis(iv['bases'][-1], mb, '$.loft-basis')
        d = d or diff(iv['shape'], mt[0], path='$.shape')
        return d or diff(iv['cps'], mt[1], rtol=tol, atol=tol, path='$.cps')
    raise AssertionError(k)


# ---------------------------------------------------------------------------------------------
# oracle

def _close(a, b, tol, scale=None):
    a = np.asarray(a, dtype=float)
    b = np.asarray(b, dtype=float)
    if a.shape != b.shape:
        return False
    sc = scale if scale is not None else max(1.0, float(np.max(np.abs(b))) if b.size else 1.0)
    return bool(np.all(np.abs(a - b) <= tol * sc))


def _maxdiff(a, b):
    a = np.asarray(a, dtype=float)
    b = np.asarray(b, dtype=float)
    return float(np.max(np.abs(a - b))) if a.size and a.shape == b.shape else float('nan')


def oracle(sp, s):
    k = s['kind']
    try:
        res = _call(sp, s)
    except Exception as e:  # noqa: BLE001
        return _oracle_raise(s, e)
    return globals()['_o_' + k](sp, s, res)


def _oracle_raise(s, e):
    k = s['kind']
    name = type(e).__name__
    if k == 'bezier':
        p = 3 if s['quadratic'] else 4
        if (len(s['pts']) - 1) % (p - 1) != 0 and name == 'ValueError':
            return []
    return ['%s raised %s: %s' % (k if k != 'loft' else ('surface' if s['pardim'] == 1 else 'volume') + '_factory.loft',
                                  name, str(e)[:120])]


def _same_basis(b, spec):
    return (int(b.order) == spec['order'] and int(b.periodic) == spec['periodic']
            and len(b.knots) == len(spec['knots']) and np.allclose(b.knots, spec['knots'], rtol=0, atol=1e-12))


def _o_interp_curve(sp, s, c):
    fails = []
    b = s['basis']
    if not _same_basis(c.bases[0], b):
        fails.append('result is not on the given basis')
    t = s['t'] if s['t'] is not None else _greville(b)
    x = np.array(s['x'], dtype=float)
    cond = _cond(_design(b, t))
    tol = 1e-10 * max(cond, 10.0)
    got = np.asarray(c.evaluate(t)).reshape(x.shape)
    if not _close(got, x, tol):
        fails.append('curve does not pass through its data: max |c(t_i)-x_i| = %.3g' % _maxdiff(got, x))
    if 'c0' in s and not _close(np.asarray(c.controlpoints), np.array(s['c0']), tol):
        fails.append('projection: data sampled from a spline of the space does not return its control points (max diff %.3g)'
                     % _maxdiff(c.controlpoints, s['c0']))
    return fails


def _o_lsq_curve(sp, s, c):
    fails = []
    b = s['basis']
    if not _same_basis(c.bases[0], b):
        fails.append('result is not on the given basis')
    N = _design(b, s['t'])
    x = np.array(s['x'], dtype=float)
    cond = _cond(N.T @ N)
    tol = 1e-10 * max(cond, 10.0)
    cp = np.asarray(c.controlpoints, dtype=float)
    if 'c0' in s:
        if not _close(cp, np.array(s['c0']), tol):
            fails.append('least squares is not a projection: max diff to the sampled spline %.3g' % _maxdiff(cp, s['c0']))
        got = np.asarray(c.evaluate(s['t'])).reshape(x.shape)
        if not _close(got, x, tol):
            fails.append('fitted curve does not reproduce data sampled from the space')
    # normal equations: residual orthogonal to the space
    r = N.T @ (N @ cp - x)
    if not _close(r, np.zeros_like(r), tol, scale=max(1.0, float(np.abs(x).max()))):
        fails.append('least-squares residual is not orthogonal to the spline space: |N^T(Nc-x)| = %.3g' % float(np.abs(r).max()))
    return fails


def _o_cubic(sp, s, c):
    fails = []
    bd = s['boundary']
    x, t = _cubic_params(s)
    b = c.bases[0]
    if b.order != 4:
        return ['cubic_curve returned order %d' % b.order]
    cond = _cond(_cubic_matrix(s, gen.spec_of_basis(b)))
    tol = 1e-10 * max(cond, 10.0)
    sc = max(1.0, float(np.abs(x).max()))
    if abs(b.start() - t[0]) > 1e-12 * max(1, abs(t[0])) or abs(b.end() - t[-1]) > 1e-12 * max(1, abs(t[-1])):
        fails.append('parametric domain [%r,%r] is not [t_0,t_n] = [%r,%r]' % (b.start(), b.end(), t[0], t[-1]))
        return fails
    got = np.asarray(c.evaluate(t)).reshape(x.shape)
    if not _close(got, x, tol, sc):
        fails.append('%s: curve does not pass through its data: max |c(t_i)-x_i| = %.3g' % (bd, _maxdiff(got, x)))
    h = min(b_ - a_ for a_, b_ in zip(t[:-1], t[1:]))
    tg = None if s['tangents'] is None else np.array(s['tangents'], dtype=float)

    def D(tt, d, above=True):
        return np.asarray(c.derivative(tt, d, above=above), dtype=float)

    if bd in ('TANGENT', 'TANGENTNATURAL', 'HERMITE'):
        pairs = {'TANGENT': [(t[0], 0), (t[-1], 1)], 'TANGENTNATURAL': [(t[0], 0)],
                 'HERMITE': [(tt, i) for i, tt in enumerate(t)]}[bd]
        for tt, i in pairs:
            g = D(tt, 1)
            if not _close(g, tg[i], tol, max(sc, float(np.abs(tg).max()))):
                fails.append('%s: derivative at t=%r is %r, prescribed %r' % (bd, tt, g.tolist(), tg[i].tolist()))
                break
    if bd in ('NATURAL', 'TANGENTNATURAL'):
        for tt in ([t[0], t[-1]] if bd == 'NATURAL' else [t[-1]]):
            g = D(tt, 2)
            if not _close(g, np.zeros_like(g), tol, sc / h ** 2):
                fails.append('%s: second derivative at the end t=%r is %r, not 0' % (bd, tt, g.tolist()))
    if bd == 'PERIODIC':
        if c.periodic(0) is False or b.periodic != 2:
            fails.append('PERIODIC: result basis has periodic=%d' % b.periodic)
        for d in (0, 1, 2):
            # the end parameter is evaluated from the left (the library's own end-point rule)
            a0 = D(b.start(), d, True) if d else np.asarray(c(b.start()), dtype=float)
            a1 = D(b.end(), d, False) if d else np.asarray(c(b.end()), dtype=float)
            if not _close(a0, a1, tol, sc / h ** d):
                fails.append('PERIODIC: derivative %d differs across the seam: %r vs %r' % (d, a0.tolist(), a1.tolist()))
    if bd == 'FREE' and len(t) >= 5:
        for tt in (t[1], t[-2]):
            l3, r3 = D(tt, 3, False), D(tt, 3, True)
            if not _close(l3, r3, tol, sc / h ** 3):
                fails.append('FREE: third derivative jumps at the data parameter t=%r: %r vs %r' % (tt, l3.tolist(), r3.tolist()))
    return fails


def _decasteljau(P, u):
    P = [np.array(p, dtype=float) for p in P]
    while len(P) > 1:
        P = [(1 - u) * a + u * b for a, b in zip(P[:-1], P[1:])]
    return P[0]


def _o_bezier(sp, s, c):
    fails = []
    p = 3 if s['quadratic'] else 4
    pts = np.array(s['pts'], dtype=float)
    if (len(pts) - 1) % (p - 1) != 0:
        return ['bezier accepted %d points for order %d' % (len(pts), p)]
    if s['relative']:
        pts = np.cumsum(pts, axis=0)
    nseg = (len(pts) - 1) // (p - 1)
    if c.order(0) != p or abs(c.start(0)) > 0 or abs(c.end(0) - nseg) > 0:
        fails.append('bezier: order %d domain [%r,%r], expected order %d on [0,%d]' % (c.order(0), c.start(0), c.end(0), p, nseg))
        return fails
    for k in range(nseg):
        P = pts[k * (p - 1):(k + 1) * (p - 1) + 1]
        for u in (0.0, 0.25, 0.5, 0.875, 1.0):
            want = _decasteljau(P, u)
            got = np.asarray(c(k + u)) if k + u < nseg else np.asarray(c(float(nseg)))
            if not _close(got, want, 1e-10, max(1.0, float(np.abs(pts).max()))):
                fails.append('bezier segment %d at u=%r: %r, de Casteljau gives %r' % (k, u, got.tolist(), want.tolist()))
                return fails
    return fails


def _o_rebuild(sp, s, c):
    fails = []
    o = gen.mk_object(sp, s['obj'])
    b = c.bases[0]
    if b.order != s['p'] or len(c) != s['n']:
        fails.append('rebuild(%d,%d) returned order %d with %d control points' % (s['p'], s['n'], b.order, len(c)))
        return fails
    if abs(b.start() - o.start(0)) > 1e-12 * max(1, abs(o.start(0))) or abs(b.end() - o.end(0)) > 1e-9 * max(1, abs(o.end(0))):
        fails.append('rebuild changed the parametric domain')
    t = b.greville()
    t[-1] = min(t[-1], o.end(0))
    bs = gen.spec_of_basis(b)
    cond = _cond(_design(bs, _greville(bs)))
    want = np.asarray(o.evaluate(t))
    got = np.asarray(c.evaluate(t))
    if not _close(got, want, 1e-9 * max(cond, 10.0)):
        fails.append('rebuilt curve does not interpolate the original at its Greville points (max diff %.3g)' % _maxdiff(got, want))
    return fails


def _grid_expected_points(s):
    x = np.array(s['x'], dtype=float)
    return x


def _o_interp_grid(sp, s, r):
    fails = []
    bases = s['bases']
    pd = len(bases)
    for k in range(pd):
        if not _same_basis(r.bases[k], bases[k]):
            fails.append('result basis %d is not the given basis' % k)
            return fails
    u = s['u'] or [_greville(b) for b in bases]
    x = np.array(s['x'], dtype=float)
    cond = float(np.prod([_cond(_design(b, t)) for b, t in zip(bases, u)]))
    tol = 1e-10 * max(cond, 10.0)
    got = np.asarray(r.evaluate(*u)).reshape(x.shape)
    if not _close(got, x, tol):
        fails.append('%s layout: result(u_i, v_j[, w_k]) != x[i,j[,k]] on a %s grid: max diff %.3g'
                     % (s['layout'], 'x'.join(str(n) for n in x.shape[:-1]), _maxdiff(got, x)))
    if 'c0' in s and not _close(np.asarray(r.controlpoints), np.array(s['c0']), tol):
        fails.append('projection: sampled spline is not returned (max control point diff %.3g)' % _maxdiff(r.controlpoints, s['c0']))
    return fails


def _o_lsq_grid(sp, s, r):
    fails = []
    bases = s['bases']
    pd = len(bases)
    for k in range(pd):
        if not _same_basis(r.bases[k], bases[k]):
            fails.append('result basis %d is not the given basis' % k)
            return fails
    Ns = [_design(b, t) for b, t in zip(bases, s['u'])]
    cond = float(np.prod([_cond(N.T @ N) for N in Ns]))
    tol = 1e-10 * max(cond, 10.0)
    x = np.array(s['x'], dtype=float)
    cp = np.asarray(r.controlpoints, dtype=float)
    if 'c0' in s and not _close(cp, np.array(s['c0']), tol):
        fails.append('least squares is not a projection: max control point diff %.3g' % _maxdiff(cp, s['c0']))
    # residual orthogonal to the tensor-product space
    fit = cp
    for k, N in enumerate(Ns):
        fit = np.moveaxis(np.tensordot(N, fit, axes=(1, k)), 0, k)
    res = fit - x
    for k, N in enumerate(Ns):
        res = np.moveaxis(np.tensordot(N.T, res, axes=(1, k)), 0, k)
    if not _close(res, np.zeros_like(res), tol, max(1.0, float(np.abs(x).max()))):
        fails.append('least-squares residual is not orthogonal to the space: %.3g' % float(np.abs(res).max()))
    return fails


def _o_loft(sp, s, r):
    fails = []
    secs = [gen.mk_object(sp, o) for o in s['sections']]
    n = len(secs)
    k = s['pardim']
    if r.pardim != k + 1:
        return ['loft of %d-parametric sections returned pardim %d' % (k, r.pardim)]
    v = _loft_params(sp, s)
    bl = r.bases[-1]
    if abs(bl.start() - v[0]) > 1e-12 or abs(bl.end() - v[-1]) > 1e-9 * max(1.0, abs(v[-1])):
        fails.append('lofting direction domain [%r,%r], sections expected at %r' % (bl.start(), bl.end(), v))
        return fails
    cond = _cond(_design(gen.spec_of_basis(bl), v))
    for b in r.bases[:-1]:
        bs = gen.spec_of_basis(b)
        cond *= _cond(_design(bs, _greville(bs)))
    tol = 1e-9 * max(cond, 10.0)
    fr = [0.0, 0.125, 0.3125, 0.5, 0.75, 0.9375, 1.0][:: (1 if k == 1 else 2)]
    for i, c in enumerate(secs):
        ps = [[c.start(d) + f * (c.end(d) - c.start(d)) for f in fr] for d in range(k)]
        pr = [[r.start(d) + f * (r.end(d) - r.start(d)) for f in fr] for d in range(k)]
        want = np.asarray(c.evaluate(*ps))
        got = np.asarray(r.evaluate(*(pr + [[v[i]]])))
        got = got.reshape(want.shape[:-1] + (got.shape[-1],))
        if got.shape[-1] > want.shape[-1]:
            pad = np.zeros(want.shape[:-1] + (got.shape[-1] - want.shape[-1],))
            want = np.concatenate([want, pad], axis=-1)
        if not _close(got, want, tol, max(1.0, float(np.abs(want).max()))):
            fails.append('loft does not pass through section %d of %d at lofting parameter %r (max diff %.3g)'
                         % (i, n, v[i], _maxdiff(got, want)))
            break
    return fails


def _o_manipulate(sp, s, c2):
    fails = []
    crv = gen.mk_object(sp, s['obj'])
    b = crv.bases[0]
    g = b.greville()
    f = _manip_f(s['f'], False)
    names = {'double': 'x', 'shift_t': 'xt', 'offset_v': 'xv', 'offset_a': 'xa', 'all': 'xvat'}[s['f']]
    sc = max(1.0, float(np.abs(np.array(s['obj']['cps'])).max()))
    spec = s['obj']['bases'][0]
    cond = _cond(_design(spec, _greville(spec)))
    for i, t in enumerate(g):
        x = np.asarray(crv(t), dtype=float)
        args = {'x': x.copy(), 't': t}
        interior = 0 < i < len(g) - 1
        for nm, d in (('v', 1), ('a', 2)):
            if nm in names:
                above = np.asarray(crv.derivative(t, d, above=True), dtype=float)
                below = np.asarray(crv.derivative(t, d, above=False), dtype=float)
                # one-sided at the ends; where the derivative jumps the mean of the two one-sided values
                val = (above + below) / 2 if interior else above
                if s['normalized']:
                    nv = np.linalg.norm(val)
                    if nv < 1e-9:
                        break
                    val = val / nv
                args[nm] = val
        else:
            order = {'double': ['x'], 'shift_t': ['x', 't'], 'offset_v': ['x', 'v'], 'offset_a': ['x', 'a'],
                     'all': ['x', 'v', 'a', 't']}[s['f']]
            want = np.asarray(f(*[args[a] for a in order]), dtype=float)
            got = np.asarray(c2(t), dtype=float)
            if not _close(got, want, 1e-9 * max(cond, 10.0), sc * 50):
                fails.append('manipulate(%s, normalized=%s, vectorized=%s): result(g_%d=%r) = %r, expression gives %r'
                             % (s['f'], s['normalized'], s['vectorized'], i, t, got.tolist(), want.tolist()))
                break
    return fails


def _o_fit(sp, s, c):
    f = _fit_f(s['f'])
    t0, t1 = FIT_FUNCS[s['f']]
    fails = []
    if abs(c.start(0) - t0) > 1e-12 or abs(c.end(0) - t1) > 1e-12:
        return ['fit: domain [%r,%r] is not [%r,%r]' % (c.start(0), c.end(0), t0, t1)]
    ks = c.knots(0)
    xg, wg = np.polynomial.legendre.leggauss(12)
    e2 = 0.0
    mx = 0.0
    length = 0.0
    for a, b in zip(ks[:-1], ks[1:]):
        tg = (xg + 1) / 2 * (b - a) + a
        w = wg / 2 * (b - a)
        e2 += float(np.sum((c(tg) - f(tg)) ** 2, axis=1) @ w)
        td = np.linspace(a, b, 33)
        mx = max(mx, float(np.sqrt(np.sum((c(td) - f(td)) ** 2, axis=1)).max()))
        pts = f(td)
        length += float(np.sum(np.linalg.norm(pts[1:] - pts[:-1], axis=1)))
    rel = math.sqrt(e2) / length
    SAFETY = 1.5
    if not (rel <= SAFETY * s['rtol'] or mx <= SAFETY * s['atol']):
        fails.append('fit(%s, rtol=%g, atol=%g): ||e||_L2/length = %.3g and max error = %.3g meet neither tolerance'
                     % (s['f'], s['rtol'], s['atol'], rel, mx))
    return fails


def _o_error(sp, s, res):
    err2, emax = res
    crv = gen.mk_object(sp, s['obj'])
    tgt = gen.mk_object(sp, s['target'])
    ks = crv.knots(0)
    fails = []
    if len(err2) != len(ks) - 1:
        return ['error(): %d values for %d knot spans' % (len(err2), len(ks) - 1)]
    xg, wg = np.polynomial.legendre.leggauss(10)
    xc, _wc = np.polynomial.legendre.leggauss(crv.order(0) + 1)   # the sample points the docstring's estimate uses
    mx = 0.0
    gmx = 0.0
    gspan = 0
    for i, (a, b) in enumerate(zip(ks[:-1], ks[1:])):
        tg = (xg + 1) / 2 * (b - a) + a
        w = wg / 2 * (b - a)
        e = float(np.sum((crv(tg) - tgt(tg)) ** 2, axis=1) @ w)
        if abs(e - err2[i]) > 1e-9 * max(1.0, e):
            fails.append('error(): squared L2 error of span %d is %r, dense quadrature gives %r' % (i, err2[i], e))
            break
        td = np.linspace(a, b, 65)
        mx = max(mx, float(np.sqrt(np.sum((crv(td) - tgt(td)) ** 2, axis=1)).max()))
        tc = (xc + 1) / 2 * (b - a) + a
        g = float(np.sqrt(np.sum((crv(tc) - tgt(tc)) ** 2, axis=1)).max())
        if g > gmx:
            gmx, gspan = g, i
    if emax > mx * (1 + 1e-3) + 1e-12:
        fails.append('error(): reported max error %r exceeds the dense-sampled maximum %r' % (emax, mx))
    # the max-norm error is the maximum over ALL knot spans
    if abs(emax - gmx) > 1e-9 * max(1.0, gmx):
        fails.append('error(): reported max error %r, but the pointwise error reaches %r in knot span %d of %d '
                     '(max over all spans at the Gauss points)' % (emax, gmx, gspan, len(ks) - 1))
    elif emax < 0.5 * mx:
        fails.append('error(): reported max error %r is far below the dense-sampled maximum %r' % (emax, mx))
    return fails


# ---------------------------------------------------------------------------------------------
# classification / tags

def classify(s, res=None):
    k = s['kind']
    msgs = ' '.join(res['oracle']) if res and res.get('oracle') else ''
    if k == 'manipulate':
        if 'AttributeError' in msgs or not msgs:
            return 'manipulate-getargspec'
        return 'manipulate-derivative-averaging'
    if k == 'lsq_grid' and s['layout'] == 'flat':
        return 'lsq-flat-layout-reshape'
    if k == 'loft' and s['pardim'] == 2 and len(s['sections']) == 2:
        return 'volume-loft-two-sections'
    # (loft of sections with periodic curves whose knots are 1 + 1ulp after reparam / lower_periodic: repaired --
    #  BSplineBasis.continuity applies the knot tolerance to its range test; former class
    #  loft-periodic-rounded-knots-out-of-range)
    return None


def tags(s, res):
    k = s['kind']
    out = ['kind=' + k, 'dim=%d' % s.get('dim', 0)]
    if k == 'cubic':
        out.append('bd=' + s['boundary'])
        out.append('params=' + ('user' if s['t'] is not None else 'default'))
        if s['boundary'] == 'PERIODIC':
            out.append('periodic-input=' + ('closed' if s['closed'] else 'open'))
    if k in ('interp_curve',):
        out.append('params=' + ('user' if s['t'] is not None else 'default'))
        if s['basis']['periodic'] >= 0:
            out.append('periodic-basis')
    if k in ('interp_grid', 'lsq_grid'):
        out.append('layout=' + s['layout'])
        out.append('pardim=%d' % len(s['bases']))
        ns = np.array(s['x']).shape[:-1]
        if len(set(ns)) == len(ns):
            out.append('nonsquare')
        if k == 'interp_grid':
            out.append('params=' + ('user' if s['u'] is not None else 'default'))
        if any(b['periodic'] >= 0 for b in s['bases']):
            out.append('periodic-basis')
    if k in ('lsq_curve', 'lsq_grid'):
        out.append('lsq-overdetermined')
    if 'c0' in s:
        out.append('projection')
    if k == 'loft':
        n = len(s['sections'])
        out.append('loft-sections=%d' % n if n < 4 else 'loft-sections>=4')
        out.append('loft=' + ('compatible' if s['compatible'] else 'incompatible'))
        out.append('loft=' + ('curves' if s['pardim'] == 1 else 'surfaces'))
        if any(o['rational'] for o in s['sections']):
            out.append('loft-rational')
        if s['pardim'] == 2:
            for d, nm in ((0, 'u'), (1, 'v')):
                ks = set(o['bases'][d]['periodic'] for o in s['sections'])
                if any(kk >= 0 for kk in ks):
                    out.append('loft:sections-periodic-' + nm)
                    if len(ks) > 1:
                        out.append('loft:mixed-periodicity')
                        if -1 in ks:
                            out.append('loft:periodic-vs-open')
    if k == 'manipulate':
        out.append('manip=' + ('vectorized' if s['vectorized'] else 'scalar'))
    if k == 'fit':
        if s.get('binding'):
            out.append('fit=%s-binding' % s['binding'])
        if s['f'] in FIT_HARD:
            out.append('fit-hard=' + FIT_HARD[s['f']])
    if k == 'error':
        out.append('error-peak=' + s.get('peak', 'any'))
        if len(gen.distinct_knots(s['obj']['bases'][0])) >= 4:
            out.append('error-spans>=3')
    if res is not None and isinstance(res.get('impl'), Err):
        out.append('raises')
    return out


def nontrivial(s, res):
    return not isinstance(res.get('impl'), Err)
