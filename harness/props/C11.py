"""C11 — non-in-place operations neither modify nor alias their operands.

Python's heap is what this property is about, so the Lean model (`Splipy.Heap`) is a heap of
buffers, basis records and objects; every public operation has a *contract* (table in
`_c11_ops.py`, regenerated into Lean and re-checked against the live source on every run).

Correspondence = for a history of operations on handles, the REAL observables
  * write set      : which pre-existing objects changed (deep bit-for-bit snapshots: `tobytes()` of
                     the control points and of every basis' knots + order/periodic/dimension/rational),
  * returns-receiver flag (`result is operand0`),
  * sharing graph  : `numpy.shares_memory` over all arrays reachable from results and operands and
                     `is` over basis objects,
are compared with what the Lean heap model predicts for the contracts of these operations.

Oracle = the same experiment stated directly, without the model: operands unchanged, nothing
shared, in-place returns self, and the isolation experiment itself (mutate every live object /
returned array in place and re-compare the snapshots of all the others).
"""
import itertools
import json

import numpy as np

from vlib import gen
from vlib.val import line, Word
from . import _c11_ops as T

ID = 'C11'
RTOL = 0.0
ATOL = 0.0
RULE = ('systematic sweep: every contracted operation of the table (%d of %d entries; the rest are recorded exemptions) x '
        'every call variant x 20 operand classes (pardim 1-3 x rational x periodic(first direction) x dimension 2/3; volumes in 3D), '
        'each with dyadic AND with non-dyadic control-point data (k*0.1, k/3, k*pi/7, ...); vector/scalar/angle arguments also non-dyadic and '
        'of magnitude 1e-3 ... 1e16 (so that a there-and-back rewrite (x+a)-a of an operand is visible bit for bit), '
        'extra operands (append/loft/edge_curves/sweep/...) drawn with independent rationality/dimension; plus random histories '
        '(2-6 steps quick, up to 14 thorough) over live handles.  distinct = distinct (class, operand data, history) request lines; '
        'non-trivial = at least one step of the history completed without raising.'
        % (sum(e.contracted for e in T.TABLE), len(T.TABLE)))
TRUSTED_EXTRA = [
    'C11: the per-operation contract table (harness/props/_c11_ops.py) is a model of the documentation/code; it is validated '
    'dynamically by this correspondence run and its totality over the public API is re-proved from the live source on every run, '
    'but the contracts are NOT proved from the Python source',
    'C11: numpy.shares_memory / ndarray.tobytes as the measurement of aliasing and of bit-for-bit equality',
    'C11: the AST effect inference (harness/props/_c11_effects.py) that produces the per-operation effect summaries checked in Lean '
    '(C11_contracts_consistent_with_source): flow-sensitive abstract interpretation with library callees inlined; its assumptions are '
    'that numpy/scipy functions do not write their inputs except the listed in-place forms, that the listed numpy functions/methods '
    'return views and all others fresh arrays, that methods are resolved by name over the analysed classes (union of all definitions), '
    'that loops over an operand\'s bases run at least once (pardim >= 1), and the textual scan of basis_eval.pyx for written arguments; '
    'its sensitivity is re-tested in the thorough tier by planting 19 contract violations in a copy of the sources',
]
ASSUMPTIONS = [
    'C11 is partial: the Lean theorems are unbounded over histories of contract-respecting steps of the heap model; that each '
    'real operation respects its contract is (a) tested dynamically (all operations x operand classes) and (b) checked against an '
    'effect summary inferred from the current source (stores through parameters / returned aliases / retained references), '
    'which is a static over-approximation by a trusted analyser, not a proof from the Python semantics',
]

CONTRACTED = [e for e in T.TABLE if e.contracted]
REQUIRED_TAGS = (['ran:' + e.name for e in CONTRACTED]
                 + ['ok:' + e.name for e in CONTRACTED if e.name not in T.ALWAYS_RAISES]
                 + ['contract:' + c for c in T.CONTRACTS]
                 + ['pd1', 'pd2', 'pd3', 'rational', 'nonrational', 'periodic', 'nonperiodic', 'dim2', 'dim3',
                    'history', 'result:object', 'result:buffer', 'result:scalar', 'result:container',
                    'operands:non-dyadic', 'operands:dyadic', 'args:non-dyadic-or-wide-magnitude'])

# stable labels of the defect classes this check has found (see classify).  All but
# `splinemodel-retains-operand` have been repaired in the library; the labels stay so that a
# regression is reported under the same name (a `fixed` entry suppresses nothing).
KNOWN_LABELS = {
    ('volume_factory.extrude', 'write'): 'extrude-mutates-operand',
    ('SplineObject.section', 'alias'): 'section-point-view',
    ('SplineObject.swap', 'return'): 'swap-curve-returns-none',
    ('Curve.raise_order', 'return'): 'curve-raise-order-0-returns-none',
    ('SplineObject.raise_order', 'return'): 'curve-raise-order-0-returns-none',   # dispatches to Curve.raise_order
    ('SplineObject.set_order', 'return'): 'curve-raise-order-0-returns-none',     # set_order -> raise_order(0)
    ('surface_factory.coons_patch', 'write'): 'coons-patch-reverses-operands',
    ('SplineModel.add', 'alias'): 'splinemodel-retains-operand',
    ('SplineModel.__init__', 'alias'): 'splinemodel-retains-operand',
    ('ObjectCatalogue.add', 'alias'): 'splinemodel-retains-operand',
    ('ObjectCatalogue.__call__', 'alias'): 'splinemodel-retains-operand',
}


# ------------------------------------------------------------------------------------------------
# operand classes and generators

CLASSES = [(pd, rat, per, dim) for pd in (1, 2, 3) for rat in (False, True) for per in (False, True)
           for dim in ((2, 3) if pd < 3 else (3,))]


def cls_label(c):
    return 'pd%d-%s-%s-d%d' % (c[0], 'rat' if c[1] else 'nonrat', 'per' if c[2] else 'nonper', c[3])


ND_UNITS = [0.1, 1.0 / 3.0, 3.141592653589793 / 7.0, 0.7, 1e-3, 1234.5678]


def nondyadic_cps(rng, shape, ncomp, rational):
    """Control net with NON-dyadic decimals (k*0.1, k/3, k*pi/7, …): (x + a) - a != x for almost every a."""
    total = 1
    for n in shape:
        total *= n
    rows = []
    for _ in range(total):
        row = [rng.randint(-40, 40) * rng.choice(ND_UNITS) + 0.05 for _ in range(ncomp)]
        if rational:
            row[-1] = rng.choice([0.3, 0.7, 1.0, 1.1, 4.0 / 3.0, 2.2])
        rows.append(row)
    return np.array(rows).reshape(tuple(shape) + (ncomp,)).tolist()


def class_object(rng, c, pmin=2, small=False, nd=False):
    pd, rat, per, dim = c
    bases = []
    for d in range(pd):
        nint = rng.randint(0, 1 if (small or pd == 3) else 2)
        if per and d == 0:
            p = rng.randint(max(pmin, 3), 4)
            bases.append(gen.periodic_basis(rng, p, rng.randint(0, p - 2), n_interior=nint + 1, max_mult=1))
        else:
            p = rng.randint(pmin, 4)
            bases.append(gen.open_basis(rng, p, n_interior=nint, max_mult=1))
    shape = [gen.basis_info(b)['n'] for b in bases]
    ncomp = dim + (1 if rat else 0)
    cps = nondyadic_cps(rng, shape, ncomp, rat) if nd else gen.rand_cps(rng, shape, ncomp, rat)
    return {'bases': bases, 'cps': cps, 'rational': bool(rat)}


def loop4(rng, rat, dim, nd=False):
    """Four curves forming a directed closed loop bottom, right, top, left (end weights 1)."""
    z = [gen.dyadic(rng, -1, 1) if dim == 3 else None for _ in range(4)]
    corners = [[0.1, 0.2], [2.1, 0.2], [2.1, 1.0 / 3.0 + 1.2], [0.1, 1.0 / 3.0 + 1.2]] if nd else [[0.0, 0.0], [2.0, 0.0], [2.0, 1.5], [0.0, 1.5]]
    if dim == 3:
        corners = [c + [zz] for c, zz in zip(corners, z)]
    out = []
    for i in range(4):
        a, b = corners[i], corners[(i + 1) % 4]
        p = rng.randint(2, 4)
        basis = gen.open_basis(rng, p, n_interior=rng.randint(0, 1), max_mult=1)
        n = gen.basis_info(basis)['n']
        r = rat and (i % 2 == 0 or rng.random() < 0.5)
        cps = gen.rand_cps(rng, [n], dim + (1 if r else 0), r)
        for j in range(n):
            t = j / (n - 1)
            base = [a[k] + (b[k] - a[k]) * t for k in range(dim)]
            w = cps[j][-1] if r else 1.0
            if j in (0, n - 1):
                w = 1.0
                pt = base
            else:
                pt = [base[k] + cps[j][k] / (10.0 if nd else 16.0) for k in range(dim)]
            cps[j] = [x * w for x in pt] + ([w] if r else [])
        out.append({'bases': [basis], 'cps': cps, 'rational': bool(r)})
    return out


def faces6(rng, rat, nd=False):
    """The six faces umin,umax,vmin,vmax,wmin,wmax of a random volume (as independent surfaces)."""
    vol = class_object(rng, (3, rat, False, 3), nd=nd)
    cps = np.array(vol['cps'])
    b = vol['bases']
    out = []
    for d in range(3):
        others = [b[k] for k in range(3) if k != d]
        for idx in (0, -1):
            sl = [slice(None)] * 3
            sl[d] = idx
            out.append({'bases': [dict(x) for x in others], 'cps': cps[tuple(sl)].tolist(), 'rational': bool(rat)})
    return out


def operands_for(rng, e, c, nd=False):
    """Operand specs of table entry `e` for primary class `c`; None when the shape does not apply."""
    pd, rat, per, dim = c
    if pd not in e.pardims:
        return None
    sh = e.shape
    if sh == 'O':
        return [class_object(rng, c, nd=nd)]
    if sh == 'OO':
        c2 = (pd, rng.random() < 0.5, per, rng.choice((2, 3)) if pd < 3 else 3)
        return [class_object(rng, c, nd=nd), class_object(rng, c2, nd=nd)]
    if sh == 'On2':
        c2 = (pd, rng.random() < 0.5, per, rng.choice((2, 3)))
        return [class_object(rng, c, small=True, nd=nd), class_object(rng, c2, small=True, nd=nd)]
    if sh == 'On':
        n = rng.choice((3, 4, 5))
        return [class_object(rng, c, small=True, nd=nd) for _ in range(n)]
    if sh == 'LOOP4':
        return None if per else loop4(rng, rat, dim, nd)
    if sh == 'FACES6':
        return None if (per or dim == 2) else faces6(rng, rat, nd)
    if sh == 'PATH+C':
        if dim != 3:
            return None
        return [class_object(rng, c, pmin=3, nd=nd), class_object(rng, (1, rng.random() < 0.3, rng.random() < 0.3, 2), small=True, nd=nd)]
    if sh == 'PATH+S':
        if dim != 3:
            return None
        return [class_object(rng, c, pmin=3, nd=nd), class_object(rng, (2, rng.random() < 0.3, False, 2), small=True, nd=nd)]
    raise ValueError(sh)


# ops usable inside random histories: one or two spline operands, any order of application
CHAIN = [e for e in CONTRACTED if e.shape in ('O', 'OO') and e.name not in T.ALWAYS_RAISES
         and not e.name.startswith(('SVG.', 'G2.', 'STL.', 'ObjectCatalogue.', 'Orientation.', 'SplineModel.__getitem__',
                                    'SplineModel.cps', 'volume_factory.interpolate', 'volume_factory.least'))]


def generate(rng, tier):
    specs = []
    reps = 1 if tier == 'quick' else 4
    for e in CONTRACTED:
        for c in CLASSES:
            for v in range(e.variants):
                for rep in range(2 * reps):
                    nd = rep % 2 == 1          # every (operation, class, variant) with dyadic AND non-dyadic operand data
                    ops = operands_for(rng, e, c, nd)
                    if ops is None:
                        continue
                    specs.append({'cls': cls_label(c), 'init': ops, 'flavour': rng.randint(0, 13), 'nd': nd,
                                  'steps': [{'op': e.name, 'args': list(range(len(ops))), 'v': v}]})
    nh = 150 if tier == 'quick' else 2500
    for i in range(nh):
        c = rng.choice(CLASSES[:16] if rng.random() < 0.85 else CLASSES)
        nd = i % 2 == 1
        init = [class_object(rng, c, small=True, nd=nd)]
        if rng.random() < 0.5:
            c2 = (c[0], rng.random() < 0.5, c[2], rng.choice((2, 3)) if c[0] < 3 else 3)
            init.append(class_object(rng, c2, small=True, nd=nd))
        n = rng.randint(2, 6 if tier == 'quick' else 14)
        steps = []
        for _ in range(n):
            e = rng.choice(CHAIN)
            steps.append({'op': e.name, 'pick': [rng.randint(0, 99), rng.randint(0, 99)], 'v': rng.randint(0, e.variants - 1)})
        specs.append({'cls': cls_label(c), 'init': init, 'flavour': rng.randint(0, 13), 'nd': nd, 'steps': steps})
    return specs


# ------------------------------------------------------------------------------------------------
# measuring the real heap

def _is_container(sp, x):
    sm = T._mod(sp, 'splinemodel')
    return isinstance(x, (sm.SplineModel, sm.ObjectCatalogue))


def _container_objects(sp, x):
    sm = T._mod(sp, 'splinemodel')
    cat = x.catalogue if isinstance(x, sm.SplineModel) else x
    objs = []
    while isinstance(cat, sm.ObjectCatalogue):
        if cat.pardim > 0:
            nodes = list(T._mod(sp, 'utils').uniquify(itertools.chain.from_iterable(cat.internal.values())))
        else:
            # the VertexDict's own list of values: looking points up by (approximate) key would fail
            # once the isolation experiment has moved the stored points
            vals = getattr(cat.lower, '_values', None)
            nodes = [n for n in (vals if vals is not None else list(cat.lower.values())) if n is not None]
        objs += [n.obj for n in nodes]
        cat = cat.lower
    return objs


def arrays_of(sp, x, label=''):
    """[(label, ndarray)] reachable from x, and [(label, basis object)]."""
    arrs, bases = [], []
    if isinstance(x, np.ndarray):
        arrs.append((label or 'array', x))
    elif isinstance(x, sp.BSplineBasis):
        bases.append((label or 'basis', x))
        arrs.append(((label or 'basis') + '.knots', x.knots))
    elif isinstance(x, sp.SplineObject):
        arrs.append((label + 'controlpoints', x.controlpoints))
        for i, b in enumerate(x.bases):
            bases.append(('%sbases[%d]' % (label, i), b))
            arrs.append(('%sbases[%d].knots' % (label, i), b.knots))
    elif _is_container(sp, x):
        for k, o in enumerate(_container_objects(sp, x)):
            a, b = arrays_of(sp, o, '%snode%d(pardim %d).obj.' % (label, k, o.pardim))
            arrs += a
            bases += b
    elif isinstance(x, (list, tuple)):
        for k, y in enumerate(x):
            a, b = arrays_of(sp, y, '%s[%d].' % (label, k))
            arrs += a
            bases += b
    return arrs, bases


def _shares(a, b):
    if a.size == 0 or b.size == 0:
        return False
    try:
        return bool(np.shares_memory(a, b))
    except Exception:  # TooHardError: fall back to the bounds test
        return bool(np.may_share_memory(a, b))


def shared(sp, x, y):
    """First shared buffer / basis record between x and y, or None."""
    if x is y and isinstance(x, (sp.SplineObject, sp.BSplineBasis)):
        return 'the very same object'
    ax, bx = arrays_of(sp, x)
    ay, by = arrays_of(sp, y)
    for lx, u in bx:
        for ly, w in by:
            if u is w:
                return 'basis object %s is %s' % (lx, ly)
    for lx, u in ax:
        for ly, w in ay:
            if _shares(u, w):
                return 'memory of %s shared with %s' % (lx, ly)
    return None


def _arr_snap(a):
    a = np.asarray(a)
    return (str(a.dtype), tuple(a.shape), a.tobytes())


def snapshot(sp, x):
    """Deep bit-for-bit snapshot as an ordered list of (field, value)."""
    out = []
    if isinstance(x, sp.SplineObject):
        out.append(('type', type(x).__name__))
        out.append(('controlpoints', _arr_snap(x.controlpoints)))
        out.append(('dimension', repr(x.dimension)))
        out.append(('rational', repr(bool(x.rational))))
        out.append(('len(bases)', len(x.bases)))
        for i, b in enumerate(x.bases):
            out.append(('bases[%d].knots' % i, _arr_snap(b.knots)))
            out.append(('bases[%d].order' % i, repr(b.order)))
            out.append(('bases[%d].periodic' % i, repr(b.periodic)))
        for k in sorted(set(vars(x)) - {'bases', 'controlpoints', 'dimension', 'rational'}):
            out.append(('attr ' + k, repr(vars(x)[k])[:200]))
    elif isinstance(x, sp.BSplineBasis):
        out += [('knots', _arr_snap(x.knots)), ('order', repr(x.order)), ('periodic', repr(x.periodic))]
    elif isinstance(x, np.ndarray):
        out.append(('array', _arr_snap(x)))
    elif _is_container(sp, x):
        for k, o in enumerate(_container_objects(sp, x)):
            out += [('node%d.obj.%s' % (k, f), v) for f, v in snapshot(sp, o)]
    elif isinstance(x, (list, tuple)):
        for k, y in enumerate(x):
            out += [('[%d].%s' % (k, f), v) for f, v in snapshot(sp, y)]
    else:
        out.append(('value', repr(x)[:200]))
    return out


def snap_diff(s1, s2):
    """None, or a description of the first differing field."""
    if len(s1) != len(s2):
        return 'number of fields %d -> %d' % (len(s1), len(s2))
    for (f1, v1), (f2, v2) in zip(s1, s2):
        if f1 != f2:
            return 'field %s -> %s' % (f1, f2)
        if v1 != v2:
            if isinstance(v1, tuple) and isinstance(v2, tuple) and len(v1) == 3:
                if v1[:2] != v2[:2]:
                    return '%s: dtype/shape %s%s -> %s%s' % (f1, v1[0], v1[1], v2[0], v2[1])
                k = next(i for i, (p, q) in enumerate(zip(v1[2], v2[2])) if p != q)
                a1 = np.frombuffer(v1[2], dtype=v1[0])
                a2 = np.frombuffer(v2[2], dtype=v2[0])
                j = k // a1.itemsize
                return '%s: first differing byte %d (element %d: %r -> %r)' % (f1, k, j, a1[j].item(), a2[j].item())
            return '%s: %s -> %s' % (f1, v1, v2)
    return None


def mutate(sp, x):
    """In-place mutation of everything reachable from x (the isolation experiment).  Returns the
    number of arrays written."""
    n = 0
    arrs, _ = arrays_of(sp, x)
    for _, a in arrs:
        if a.size and a.flags.writeable and a.dtype.kind in 'fiu':
            a[...] += 1
            n += 1
    return n


def flatten_results(sp, res):
    """Split a return value into objects (spline objects / bases / containers), arrays, scalars."""
    objs, bufs, scalars = [], [], []

    def walk(r):
        if r is None:
            return
        if isinstance(r, (sp.SplineObject, sp.BSplineBasis)) or _is_container(sp, r):
            objs.append(r)
        elif isinstance(r, np.ndarray):
            (bufs if r.ndim > 0 else scalars).append(r)
        elif isinstance(r, (list, tuple)):
            for y in r:
                walk(y)
        else:
            scalars.append(r)
    walk(res)
    return objs, bufs, scalars


def model_pardim(sp, o):
    if isinstance(o, sp.SplineObject):
        return int(o.pardim)
    if isinstance(o, sp.BSplineBasis):
        return 1
    return 0


# ------------------------------------------------------------------------------------------------
# one execution = impl observables + oracle verdicts (cached per spec: model request, impl value and
# oracle all describe the same run)

_cache = {}


def _key(spec):
    return json.dumps(spec, sort_keys=True)


def execute(sp, spec):
    k = _key(spec)
    if k not in _cache:
        if len(_cache) > 20000:
            _cache.clear()
        import warnings
        with warnings.catch_warnings(), np.errstate(all='ignore'):
            warnings.simplefilter('ignore')      # NaNs from degenerate geometry are irrelevant here
            _cache[k] = _execute(sp, spec)
    return _cache[k]


def _execute(sp, spec):
    live = [gen.mk_object(sp, o) for o in spec['init']]
    init_pd = [model_pardim(sp, o) for o in live]
    steps_run = []       # what was actually executed (concrete handles) -> model request + impl observable
    fails = []           # oracle failures
    last_bufs = []
    kinds = set()
    cls = spec['cls']
    for st in spec['steps']:
        e = T.BY_NAME[st['op']]
        if 'args' in st:
            args = list(st['args'])
        else:
            cand = [h for h, o in enumerate(live) if isinstance(o, sp.SplineObject) and o.pardim in e.pardims]
            if not cand:
                continue
            args = [cand[st['pick'][0] % len(cand)]]
            if e.shape == 'OO':
                cand2 = [h for h in cand if h != args[0] and live[h].pardim == live[args[0]].pardim]
                if not cand2:
                    continue
                args.append(cand2[st['pick'][1] % len(cand2)])
        operands = [live[h] for h in args]
        before = [snapshot(sp, o) for o in live]
        raised = None
        try:
            res = e.call(sp, operands, st['v'])
        except Exception as ex:  # noqa: BLE001 - the class is an observable
            res, raised = None, type(ex).__name__
        after = [snapshot(sp, o) for o in live]
        diffs = {h: snap_diff(b, a) for h, (b, a) in enumerate(zip(before, after))}
        writes = [h for h in range(len(live)) if diffs[h]]
        objs, bufs, scalars = flatten_results(sp, res)
        rets_recv = bool(objs) and len(objs) == 1 and objs[0] is operands[0] and res is operands[0]
        new = [] if rets_recv else objs
        kinds |= ({'object'} if any(isinstance(o, (sp.SplineObject, sp.BSplineBasis)) for o in new) else set())
        kinds |= ({'container'} if any(_is_container(sp, o) for o in new) else set())
        kinds |= ({'buffer'} if bufs else set()) | ({'scalar'} if scalars else set())
        where = 'step %d op=%s class=%s v=%d' % (len(steps_run), e.name, cls, st['v'])

        # ---- oracle, stated directly ----
        allowed = {'query': [], 'fresh': [], 'inplace': args[:1], 'procedure': args[:1], 'procedure_all': args}[e.kind]
        stepfails = []
        for h in writes:
            if h not in allowed:
                role = ('operand %d' % args.index(h)) if h in args else 'bystander'
                stepfails.append('%s kind=write : %s (handle %d) modified by a %s operation: %s' % (where, role, h, e.kind, diffs[h]))
        if e.kind == 'inplace' and raised is None and not rets_recv:
            stepfails.append('%s kind=return : documented in-place (`:return: self`) but returned %s instead of the receiver'
                             % (where, type(res).__name__))
        n_old = len(live)
        live += new
        bufshare = []
        for bi, b in enumerate(bufs):
            for h in range(n_old):
                s = shared(sp, b, live[h])
                if s:
                    bufshare.append(h)
                    stepfails.append('%s kind=alias : returned array #%d aliases handle %d: %s' % (where, bi, h, s))
        for j in range(n_old, len(live)):
            for h in range(j):
                s = shared(sp, live[j], live[h])
                if s:
                    stepfails.append('%s kind=alias : result (handle %d) aliases %s handle %d: %s'
                                     % (where, j, 'operand' if h in args else ('result' if h >= n_old else 'object'), h, s))
        if e.kind in ('inplace', 'procedure', 'procedure_all'):
            for h in args:
                for g in range(n_old):
                    if g != h and (g not in args or g > h):
                        s = shared(sp, live[h], live[g])
                        if s:
                            stepfails.append('%s kind=alias : after the in-place operation handle %d aliases handle %d: %s' % (where, h, g, s))
        steps_run.append({'op': e.name, 'args': args, 'v': st['v'], 'raised': raised, 'writes': writes,
                          'rets_recv': rets_recv, 'new_pd': [model_pardim(sp, o) for o in new],
                          'bufshare': sorted(set(bufshare)), 'contract': e.kind})
        last_bufs = bufs
        fails += stepfails
        if stepfails:
            break   # one defect per history: what follows would only repeat it

    # real sharing graph over all live handles
    edges = []
    for i in range(len(live)):
        for j in range(i + 1, len(live)):
            if shared(sp, live[i], live[j]):
                edges.append([i, j])

    # ---- the isolation experiment: mutate each live object / returned array, watch all the others ----
    things = [('handle %d' % h, o) for h, o in enumerate(live)] + [('returned array #%d' % i, b) for i, b in enumerate(last_bufs)]
    last = steps_run[-1] if steps_run else None
    for ti, (tl, t) in enumerate(things):
        others = [(ol, o) for oi, (ol, o) in enumerate(things) if oi != ti]
        snaps = [snapshot(sp, o) for _, o in others]
        if not mutate(sp, t):
            continue
        for (ol, o), s0 in zip(others, snaps):
            d = snap_diff(s0, snapshot(sp, o))
            if d:
                fails.append('step %d op=%s class=%s v=%d kind=isolation : in-place mutation of %s changed %s: %s'
                             % (len(steps_run) - 1, last['op'] if last else '-', cls, last['v'] if last else 0, tl, ol, d))
    impl = [[[s['raised'] is None, s['writes'], s['rets_recv'], len(s['new_pd']), s['bufshare']] for s in steps_run], edges]
    return {'init_pd': init_pd, 'steps': steps_run, 'impl': impl, 'fails': fails, 'kinds': sorted(kinds)}


def _sp():
    from vlib import impl as implmod
    return implmod.load()[0]


# ------------------------------------------------------------------------------------------------
# harness interface

def model_line(spec):
    r = execute(_sp(), spec)
    steps = [[Word(s['op']), s['args'], spec['flavour'] + i, s['new_pd'], s['raised'] is not None]
             for i, s in enumerate(r['steps'])]
    import hashlib
    tag = hashlib.sha256(json.dumps(spec['init'], sort_keys=True).encode()).hexdigest()[:8]   # operand data (ignored by the model)
    return line('c11_hist', Word(spec['cls'] + ':' + tag), r['init_pd'], steps)


def run_impl(sp, spec):
    return execute(sp, spec)['impl']


def compare(spec, impl, model):
    """Real observables against the model's prediction for the contracts."""
    if not isinstance(impl, list):
        return 'harness error in the implementation run: %r' % (impl,)
    if isinstance(model, str):
        return 'model answered %s' % model
    r = execute(_sp(), spec)
    isteps, iedges = impl
    msteps, medges = model
    if len(isteps) != len(msteps):
        return 'number of steps impl %d vs model %d' % (len(isteps), len(msteps))
    for k, (i, m, s) in enumerate(zip(isteps, msteps, r['steps'])):
        ok, writes, rets, nnew, bufshare = i
        mcontract, mwrites, mrets, mnew, mbuf = m
        mwrites = [int(x) for x in mwrites]
        where = 'step %d %s (%s)' % (k, s['op'], mcontract)
        if str(mcontract) != {'inplace': 'inPlace', 'procedure_all': 'procedureAll'}.get(s['contract'], s['contract']):
            return '%s: Lean table says %s, python table %s' % (where, mcontract, s['contract'])
        extra = [h for h in writes if h not in mwrites]
        if extra:
            return '%s: write set %s not within the predicted %s' % (where, writes, mwrites)
        if ok and bool(rets) != (str(mrets) == 'true'):
            return '%s: returns-receiver impl %s vs model %s' % (where, rets, mrets)
        if int(nnew) != len(mnew):
            return '%s: number of new objects impl %d vs model %d' % (where, nnew, len(mnew))
        if bufshare or mbuf:
            return '%s: returned array shares memory with handles %s (model predicts %s)' % (where, bufshare, mbuf)
    ie = sorted(tuple(e) for e in iedges)
    me = sorted(tuple(int(x) for x in e) for e in medges)
    if ie != me:
        return 'sharing graph impl %s vs model %s' % (ie, me)
    return None


def oracle(sp, spec):
    return list(execute(sp, spec)['fails'])


def classify(spec, res=None):
    fails = (res or {}).get('oracle') or []
    if not fails:
        return None
    f = fails[0]
    try:
        opn = f.split(' op=')[1].split(' ')[0]
        kind = f.split(' kind=')[1].split(' ')[0]
    except IndexError:
        return None
    if kind == 'isolation':
        kind = 'alias'
    opn = T.PUBLIC_NAME(opn)
    return KNOWN_LABELS.get((opn, kind), '%s:%s' % (opn, kind))


def tags(spec, res):
    r = execute(_sp(), spec)
    out = []
    c = spec['cls'].split('-')
    out += [c[0], 'rational' if c[1] == 'rat' else 'nonrational', 'periodic' if c[2] == 'per' else 'nonperiodic', 'dim' + c[3][1:]]
    out.append('operands:non-dyadic' if spec.get('nd') else 'operands:dyadic')
    for st in spec['steps']:
        if st['op'] in T.WIDE_ARG_OPS and st['v'] >= (1 if st['op'].endswith('.extrude') else T.WIDE_FROM):
            out.append('args:non-dyadic-or-wide-magnitude')
    if len(spec['steps']) > 1:
        out += ['history', 'hist-steps-%d' % len(r['steps'])]
    for s in r['steps']:
        out.append('contract:' + s['contract'])
        if len(spec['steps']) == 1:
            out.append('ran:' + s['op'])
            out.append(('ok:' if s['raised'] is None else 'raised:') + s['op'])
        if s['raised']:
            out.append('raised-' + s['raised'])
    out += ['result:' + k for k in r['kinds']]
    if res and res.get('oracle'):
        out.append('defect:' + str(classify(spec, res)))
    return out


def nontrivial(spec, res):
    return any(s['raised'] is None for s in execute(_sp(), spec)['steps'])


# ------------------------------------------------------------------------------------------------
# translator hook: the table as Lean data + the totality obligation, re-checked against the source

# finding classes of operations the SOURCE analysis finds inconsistent with their contract
SOURCE_FINDING_CLASS = {
    'surface_factory.poisson_patch': 'nutils-patch-mutates-operands',
    'surface_factory.elasticity_patch': 'nutils-patch-mutates-operands',
    'surface_factory.finitestrain_patch': 'nutils-patch-mutates-operands',
    # the source analysis confirms the dynamic finding: TopologicalNode.__init__ does `self.obj = obj`
    'SplineModel.__init__': 'splinemodel-retains-operand', 'SplineModel.add': 'splinemodel-retains-operand',
    'ObjectCatalogue.add': 'splinemodel-retains-operand', 'ObjectCatalogue.lookup': 'splinemodel-retains-operand',
    'ObjectCatalogue.__call__': 'splinemodel-retains-operand', 'ObjectCatalogue.__getitem__': 'splinemodel-retains-operand',
}


def source_effects(sp):
    """Effect summaries inferred from the overlay sources the harness imports."""
    import os
    from . import _c11_effects as E
    srcdir = os.path.dirname(os.path.abspath(sp.__file__))
    effects = E.infer_all(srcdir, T.TABLE)
    verdict = {n: E.consistent(T.BY_NAME[n].kind, e, T.BY_NAME[n].allow_view_return) for n, e in effects.items()}
    return srcdir, effects, verdict


def regenerate(sp, lean_dir):
    import os
    import subprocess
    from vlib import leanproof
    cc = T.crosscheck(sp)
    srcdir, effects, verdict = source_effects(sp)
    inconsistent = [n for n in effects if not verdict[n][0] and T.PUBLIC_NAME(n) in set(cc['public'])]
    present = [e for n, e in effects.items() if T.PUBLIC_NAME(n) in set(cc['public'])]   # (a stale entry is not in OpId)
    cov = {'full': sum(e.coverage == 'full' for e in present),
           'partial': sum(e.coverage == 'partial' for e in present),
           'none': sum(e.coverage == 'none' for e in present)}
    gdir = os.path.join(lean_dir, 'Splipy', 'Generated')
    os.makedirs(gdir, exist_ok=True)
    files = {'C11.lean': T.lean_table_source(cc['public'], effects, inconsistent),
             'C11Obligations.lean': T.lean_obligations_source(cov)}
    for name, src in files.items():
        p = os.path.join(gdir, name)
        if not os.path.exists(p) or open(p).read() != src:
            with open(p, 'w') as f:
                f.write(src)
    r = subprocess.run(['lake', 'build', 'Splipy.Generated.C11Obligations'], cwd=lean_dir, stdout=subprocess.PIPE,
                       stderr=subprocess.STDOUT, text=True)
    built = r.returncode == 0
    thms = ['C11_contract_table_total', 'C11_contract_table_enumeration_complete', 'C11_contract_table_contracts_modelled',
            'C11_contracts_consistent_with_source', 'C11_source_inconsistencies_confirmed', 'C11_source_check_coverage']
    axioms = leanproof.print_axioms('Splipy.Generated.C11Obligations', thms) if built else {}

    def thm_ok(n):
        return built and axioms.get(n) is not None and set(axioms[n]) <= leanproof.ALLOWED_AXIOMS

    def thm_detail(n):
        if not built:
            return 'lake build Splipy.Generated.C11Obligations failed: ' + r.stdout[-600:]
        if axioms.get(n) is None:
            return 'theorem did not check'
        return 'axioms: %s' % axioms[n]
    unlabelled = [n for n in inconsistent if n not in SOURCE_FINDING_CLASS]
    obligations = [
        {'name': 'C11_contract_table_total', 'ok': thm_ok('C11_contract_table_total') and not cc['missing'],
         'detail': ('public operations without a table entry: %s' % cc['missing']) if cc['missing'] else thm_detail('C11_contract_table_total')},
        {'name': 'C11_contract_table_enumeration_complete', 'ok': thm_ok('C11_contract_table_enumeration_complete'),
         'detail': thm_detail('C11_contract_table_enumeration_complete')},
        {'name': 'C11_contract_table_contracts_modelled', 'ok': thm_ok('C11_contract_table_contracts_modelled'),
         'detail': thm_detail('C11_contract_table_contracts_modelled')},
        {'name': 'C11_contract_table_not_stale', 'ok': not cc['stale'],
         'detail': ('table entries whose operation no longer exists: %s' % cc['stale']) if cc['stale'] else ''},
        {'name': 'C11_contracts_consistent_with_source', 'ok': thm_ok('C11_contracts_consistent_with_source') and not unlabelled,
         'detail': ('; '.join('%s (%s, %s): %s' % (n, T.BY_NAME[n].kind, effects[n].where, verdict[n][1]) for n in unlabelled)
                    if unlabelled else thm_detail('C11_contracts_consistent_with_source')
                    + ' — %d contracts checked against the source completely, %d partly, %d not analysed' % (cov['full'], cov['partial'], cov['none']))},
        {'name': 'C11_source_inconsistencies_confirmed', 'ok': thm_ok('C11_source_inconsistencies_confirmed'),
         'detail': thm_detail('C11_source_inconsistencies_confirmed')},
        {'name': 'C11_source_check_coverage', 'ok': thm_ok('C11_source_check_coverage'),
         'detail': thm_detail('C11_source_check_coverage') + ' full=%(full)d partial=%(partial)d none=%(none)d' % cov},
    ]
    for n in inconsistent:
        if n in SOURCE_FINDING_CLASS:
            obligations.append({'name': 'C11_source_consistent[%s]' % n, 'ok': False, 'class': SOURCE_FINDING_CLASS[n],
                                'detail': '%s (%s, %s): %s; first store %s' % (n, T.BY_NAME[n].kind, effects[n].where, verdict[n][1],
                                                                              effects[n].why)})
    if _tier() == 'thorough':
        from . import _c11_effects as E
        st = E.selftest(srcdir, T.TABLE, T.BY_NAME)
        obligations.append({'name': 'C11_effect_inference_selftest', 'ok': st['ok'],
                            'detail': '%d/%d synthetic contract violations planted in a copy of the sources are flagged; missed: %s; not applicable: %s'
                                      % (st['flagged'], st['total'], st['missed'], st['not_applicable'])})
    others = {n: effects[n].as_dict() for n in effects if effects[n].analysed and
              [k for k in effects[n].stores if k not in effects[n].operands]}
    return {'module': 'Splipy.Generated.C11Obligations', 'public_operations': len(cc['public']),
            'table_entries': len(T.TABLE), 'contracted': sum(e.contracted for e in T.TABLE),
            'exempt': {k: sum(e.kind == k for e in T.TABLE) for k in T.EXEMPT},
            'missing': cc['missing'], 'stale': cc['stale'], 'obligations': obligations, 'axioms': axioms,
            'source_dir': srcdir, 'source_check_coverage': cov,
            'source_inconsistent': {n: verdict[n][1] for n in inconsistent},
            'source_not_analysed': sorted(n for n, e in effects.items() if not e.analysed),
            'source_partly_checked': {n: effects[n].unknown[:4] for n, e in effects.items() if e.coverage == 'partial'},
            'stores_through_non_operand_parameters': {n: [k for k in d['stores'] if k not in d['operands']] for n, d in others.items()},
            'build_ok': built, 'build_log_tail': '' if built else r.stdout[-3000:]}


def _tier():
    import os
    import sys
    if '--tier' in sys.argv:
        i = sys.argv.index('--tier')
        if i + 1 < len(sys.argv):
            return sys.argv[i + 1]
    return os.environ.get('VERIF_TIER', 'quick')
