"""Source-derived obligations for `splipy/splineobject.py::SplineObject` (work package t3).

`regenerate_pyobject(sp, lean_dir)` is meant to be called from the `regenerate` hook of every property
whose model rests on the hand-written `Obj.*` functions (C02 evaluate, C03 derivative, C04 insert_knot,
C06 reverse / swap / reparam, C09 translate / scale / ..., C10 everything structural; t3b: C05 raise_order /
raise_order_implicit / set_order / lower_order, C07 / C08 / C12 lower_periodic / make_periodic / split, C09 / C11 the
operators `__iadd__ .. __div__`, scale with a sequence operand (`scale_p`), mirror, rotate, utils.rotation_matrix,
C15 section / corners):

1. the method bodies of `SplineObject`, the module functions `evaluate` / `transpose_fix` and
   `utils.check_direction` are re-translated from the overlay source
   (`harness/translate/object_translate.py`) into `lean/Splipy/Generated/PyObject.lean`;
2. `lake build Splipy.Generated.PyObject` — a generated definition that does not elaborate is a failed
   obligation of its method (the definition is then left out and the rest rebuilt);
3. `lake build Splipy.Lemmas.PyObjectEq` — the committed equality theorems
   `PyObject_<method>_eq : Generated.PyObject.<method> (ofObj o) .. = <hand model Obj.*> o ..` are
   re-checked against the fresh definitions; an error inside the section `### method: m` of that file
   (or in a section it depends on) is a failed obligation of `m`;
4. `#print axioms` of every theorem must stay within {propext, Classical.choice, Quot.sound}.

One obligation per method: `ok` = translated AND elaborated AND (for the `equality` kind) its theorem
checked.  Fail-closed: untranslatable syntax, a missing method, a changed default argument, a changed
`utils` helper that is mapped to a Lean primitive, a build that cannot be interpreted — all give
`ok = False`.  Results are cached by the hash of the inputs under `.cache/pyobject`.
"""
import hashlib
import json
import os
import re
import subprocess
import sys
import time

sys.path.insert(0, os.path.dirname(os.path.dirname(os.path.abspath(__file__))))
from translate import object_translate as T  # noqa: E402

GEN_REL = os.path.join('Splipy', 'Generated', 'PyObject.lean')
EQ_REL = os.path.join('Splipy', 'Lemmas', 'PyObjectEq.lean')
LIB_REL = os.path.join('Splipy', 'Lemmas', 'PyObjectLib.lean')
GEN_MOD = 'Splipy.Generated.PyObject'
EQ_MOD = 'Splipy.Lemmas.PyObjectEq'
ALLOWED_AXIOMS = {'propext', 'Classical.choice', 'Quot.sound'}

# method key (object_translate.ORDER) -> (section of PyObjectEq.lean that covers it, theorem)
THEOREM = {
    'check_direction': ('check_direction', 'PyObject_check_direction_eq'),
    'transpose_fix': ('transpose_fix', 'PyObject_transpose_fix_eq'),
    'evaluate_fn': ('evaluate_fn', 'PyObject_evaluate_fn_tensor_eq'),
    'pardim': ('pardim', 'PyObject_pardim_eq'),
    '__len__': ('__len__', 'PyObject_len_eq'),
    'start': ('start', 'PyObject_start_eq'),
    'start_dir': ('start_dir', 'PyObject_start_dir_eq'),
    'end': ('end', 'PyObject_end_eq'),
    'end_dir': ('end_dir', 'PyObject_end_dir_eq'),
    '_validate_domain': ('_validate_domain', 'PyObject_validate_domain_eq'),
    'evaluate': ('evaluate', 'PyObject_evaluate_eq'),
    'bounding_box': ('bounding_box', 'PyObject_bounding_box_eq'),
    'insert_knot': ('insert_knot', 'PyObject_insert_knot_eq'),
    'reverse': ('reverse', 'PyObject_reverse_eq'),
    'swap': ('swap', 'PyObject_swap_eq'),
    'reparam': ('reparam', 'PyObject_reparam_eq'),
    'reparam_dir': ('reparam_dir', 'PyObject_reparam_dir_eq'),
    'set_dimension': ('set_dimension', 'PyObject_set_dimension_eq'),
    'force_rational': ('force_rational', 'PyObject_force_rational_eq'),
    'translate': ('translate', 'PyObject_translate_eq'),
    'scale': ('scale', 'PyObject_scale_eq'),
    'project': ('project', 'PyObject_project_eq'),
    'derivative': ('derivative', 'PyObject_derivative_eq'),
    # t3b
    'lower_periodic': ('lower_periodic', 'PyObject_lower_periodic_eq'),
    'order': ('order', 'PyObject_order_eq'),
    'order_dir': ('order_dir', 'PyObject_order_dir_eq'),
    'make_periodic': ('make_periodic', 'PyObject_make_periodic_eq'),
    'make_periodic_c': ('make_periodic', 'PyObject_make_periodic_c_eq'),
    'split': ('split', 'PyObject_split_eq'),
    'raise_order_implicit': ('raise_order_implicit', 'PyObject_raise_order_implicit_eq'),
    'raise_order': ('raise_order', 'PyObject_raise_order_eq'),
    'raise_order_dir': ('raise_order_dir', 'PyObject_raise_order_dir_eq'),
    'set_order': ('set_order', 'PyObject_set_order_eq'),
    'lower_order': ('lower_order', 'PyObject_lower_order_eq'),
    'scale_p': ('scale_p', 'PyObject_scale_p_eq'),
    'rotation_matrix': ('rotation_matrix', 'PyObject_rotation_matrix_eq'),
    'rotate': ('rotate', 'PyObject_rotate_eq'),
    'mirror': ('mirror', 'PyObject_mirror_eq'),
    '__iadd__': ('__iadd__', 'PyObject_iadd_eq'),
    '__isub__': ('__isub__', 'PyObject_isub_eq'),
    '__imul__': ('__imul__', 'PyObject_imul_eq'),
    '__itruediv__': ('__itruediv__', 'PyObject_itruediv_eq'),
    '__add__': ('__add__', 'PyObject_add_eq'),
    '__radd__': ('__radd__', 'PyObject_radd_eq'),
    '__sub__': ('__sub__', 'PyObject_sub_eq'),
    '__mul__': ('__mul__', 'PyObject_mul_eq'),
    '__rmul__': ('__rmul__', 'PyObject_rmul_eq'),
    '__div__': ('__div__', 'PyObject_div_eq'),
    'section': ('section', 'PyObject_section_eq'),
    'corners': ('corners', 'PyObject_corners_eq'),
}
# guards of the theorems (repeated in the obligation detail); see the docstrings in PyObjectEq.lean
GUARDS = {
    'pardim': 'controlpoints has at least one axis',
    'start_dir': 'one basis per parametric axis', 'end_dir': 'one basis per parametric axis',
    '_validate_domain': 'none (the result keeps the parameters beyond len(bases) unchanged; a non-periodic direction '
                        'with an EMPTY parameter list raises ValueError (min() of an empty sequence) where the hand '
                        'model Obj.validateDomain returns: stated via vdBad)',
    'evaluate_fn': 'at most three matrices (at least one for tensor=False) and cps.ndim = len(bases)+1: '
                   'tensordot chain = Obj.contractGrid, einsum chain = Obj.contractPointwise',
    'evaluate': '1 <= pardim <= 3; one basis per axis; len(params) = pardim; ncomp >= 1; every parameter list of a '
                'non-periodic direction non-empty (MODEL/CODE GAP: code raises ValueError, model does not); the '
                'squeeze reshape is applied to the model result',
    'bounding_box': 'controlpoints has at least one axis; at least one control point when dimension > 0 '
                    '(np.min of an empty array raises, the model returns 0)',
    'insert_knot': 'one basis per parametric axis', 'reverse': 'one basis per parametric axis',
    'swap': 'one basis per parametric axis; len(cps.data) = prod(shape)',
    'reparam_dir': 'one basis per parametric axis',
    'set_dimension': 'new_dim >= 0; controlpoints has at least one axis; ncomp >= 1; len(cps.data) = prod(shape)',
    'force_rational': 'controlpoints has at least one axis; ncomp >= 1; len(cps.data) = prod(shape)',
    'translate': 'controlpoints has at least one axis; ncomp >= 1; len(cps.data) = prod(shape); len(self) = number of '
                 'control points; equal to Obj.translateChecked (IndexError of x[i] for a short x included)',
    'scale': 'controlpoints has at least one axis; dimension >= 1; len(cps.data) = prod(shape); len(self) = number of '
             'control points; *args are numbers (ensure_flatlist idealised)',
    'project': 'controlpoints has at least one axis; ncomp >= 1; len(cps.data) = prod(shape); equal to '
               'Obj.projectChecked with keep = [c in plane.lower() for c in "xyz"]',
    'derivative': 'as evaluate (1 <= pardim <= 3, one basis per axis, len(params) = pardim, ncomp >= 1, non-empty '
                  'parameter lists in non-periodic directions: same MODEL/CODE GAP); d= and above= are lists (or absent) '
                  'that, after ensure_listlike(.., pardim), have at least pardim entries; all derivative orders >= 0; '
                  'equal to Obj.derivativeGeneric (generic SplineObject path only, not the Curve/Surface overrides)',
    # t3b
    'lower_periodic': 'one basis per parametric axis; equal to Obj.lowerPeriodic (b.roll(1) carries its broadcast '
                      'ValueError guard, shown never to fire after a successful insert_knot)',
    'order_dir': 'controlpoints has at least one axis; one basis per parametric axis',
    'make_periodic': 'one basis per axis; pardim <= 3 (MODEL/CODE GAP: the constructor look-up raises IndexError for a '
                     'SplineObject with more than three parametric directions, Obj.makePeriodic does not); '
                     'len(cps.data) = prod(shape); ncomp >= 1',
    'make_periodic_c': 'as make_periodic, continuity given as an int',
    'split': 'one basis per axis; pardim <= 3 (same constructor gap); ncomp >= 1; a periodic basis has >= p+k+1 knots; '
             'SplitGuard: in every piece loop the hand model runs, the split values are met in non-decreasing knot '
             'position and no position lies beyond the control net (the model keeps positions in naturals with '
             'truncated subtraction and unclamped slices, the code in Python ints with numpy clamping); b.roll(mu) '
             'carries the broadcast ValueError guard that Obj.split states explicitly',
    'raise_order_implicit': 'one basis per axis; at least one basis; all amounts >= 0 (b.raise_order raises ValueError '
                            'otherwise, the model takes naturals); np.linalg.inv IDEALISED as Mat.invChecked',
    'raise_order': 'one basis per axis; at least one basis; no basis with an empty knot array; direction omitted; the '
                   'explicit raise_order_1D branch is PINNED (digest) and mapped to the model\'s Exception',
    'raise_order_dir': 'as raise_order; direction given as an int',
    'set_order': 'as raise_order; the receiver\'s class does not override raise_order (isCurve = false)',
    'lower_order': 'one basis per axis; 1 <= pardim <= 3 (constructor gap); ncomp >= 1; one amount or one per '
                   'direction (fewer: zip drops bases and the constructor gets the wrong number of arguments)',
    'scale_p': 'as scale; the single operand may be a number or a sequence (Param): equal to Obj.scaleArgs',
    'rotation_matrix': 'three-entry axis; cos/sin/sqrt are abstract inputs',
    'rotate': 'operator guards (cps has an axis, dimension >= 1, len(data) = prod(shape), len(self) = number of control '
              'points); three-entry normal; cos/sin/sqrt abstract, with the two double-angle identities '
              'cos t = c^2 - s^2, sin t = 2cs (c, s = cos, sin of t/2) as hypotheses: the hand model takes c, s and the '
              'normalised axis',
    'mirror': 'operator guards; three-entry normal; sqrt abstract: the model takes normal / sqrt(normal . normal)',
    '__iadd__': 'operator guards; equal to AffOp.inplace', '__isub__': 'operator guards; equal to AffOp.inplace',
    '__imul__': 'operator guards; equal to AffOp.inplace', '__itruediv__': 'operator guards; 1.0 / x idealised as AffOp.recip',
    '__add__': 'operator guards; copy.deepcopy is the identity on values', '__radd__': 'operator guards',
    '__sub__': 'operator guards', '__mul__': 'operator guards', '__rmul__': 'operator guards',
    '__div__': 'operator guards (__truediv__ is the same function object)',
    'section': 'one basis per axis; ncomp >= 1; at most pardim positional selectors; compared on the content of the '
               'result (the class of the returned object is not part of PyObj); utils.check_section PINNED',
    'corners': 'one basis per axis; pardim <= 3; ncomp >= 1; len(cps.data) = prod(shape); the 2-d result read as the '
               'model\'s tensor; utils.sections PINNED',
}
# theorems that are weaker than extensional equality (say so in the obligation)
PARTIAL = {}
# further theorems audited together with the main ones: method key -> theorems
EXTRA = {'evaluate_fn': ('PyObject_evaluate_fn_pointwise_eq',), 'evaluate': ('PyObject_evaluate_tensor_eq',)}
EXTRA_THEOREMS = tuple(t for v in EXTRA.values() for t in v)
# translated and elaborated, no equality theorem (yet): obligation = translates and elaborates
TRANSLATION_ONLY = ()

_MEM = {}


def _cache_dir():
    verif = os.path.dirname(os.path.dirname(os.path.dirname(os.path.abspath(__file__))))
    d = os.path.join(verif, '.cache', 'pyobject')
    os.makedirs(d, exist_ok=True)
    return d


def _read(path):
    return open(path, encoding='utf-8').read() if os.path.exists(path) else ''


def _write_if_changed(path, text):
    if _read(path) == text and os.path.exists(path):
        return False
    os.makedirs(os.path.dirname(path), exist_ok=True)
    tmp = path + '.tmp%d' % os.getpid()
    with open(tmp, 'w', encoding='utf-8') as f:
        f.write(text)
    os.replace(tmp, path)
    return True


def _lake_build(lean_dir, target, timeout=3000):
    t0 = time.time()
    try:
        r = subprocess.run(['lake', 'build', target], cwd=lean_dir, stdout=subprocess.PIPE, stderr=subprocess.STDOUT,
                           text=True, timeout=timeout)
        return r.returncode == 0, r.stdout, time.time() - t0
    except subprocess.TimeoutExpired as e:
        return False, 'timeout after %ds: %s' % (timeout, (e.stdout or '')[-500:]), time.time() - t0


def _errors(log, rel):
    """[(line, message)] of the Lean errors reported for the file `rel` in a lake log."""
    out = []
    pat = re.compile(r'^error: (?:\./)?(\S+?\.lean):(\d+):(\d+): (.*)$')
    lines = log.splitlines()
    for k, ln in enumerate(lines):
        m = pat.match(ln)
        if m and os.path.normpath(m.group(1)).endswith(os.path.normpath(rel)):
            msg = ' '.join([m.group(4)] + [x.strip() for x in lines[k + 1:k + 3]])
            out.append((int(m.group(2)), msg[:300]))
    return out


def _sections(eq_text):
    """[(first line, last line, method key or None)] of PyObjectEq.lean and the theorem dependencies."""
    lines = eq_text.splitlines()
    marks = []
    for k, ln in enumerate(lines, 1):
        m = re.match(r'/-! ### method: (\S+) -/', ln)
        if m:
            marks.append((k, m.group(1)))
        elif re.match(r'/-! ## ', ln):
            marks.append((k, None))
    secs = []
    for j, (k, name) in enumerate(marks):
        end = marks[j + 1][0] - 1 if j + 1 < len(marks) else len(lines)
        secs.append((k, end, name))
    if marks and marks[0][0] > 1:
        secs.insert(0, (1, marks[0][0] - 1, None))
    return secs


def _section_deps(eq_text, secs):
    """method section -> set of method sections whose theorems / lemmas it uses (by name)."""
    lines = eq_text.splitlines()
    declared = {}      # declared theorem/def name -> section
    for a, b, name in secs:
        if name is None:
            continue
        for ln in lines[a - 1:b]:
            m = re.match(r'\s*(?:theorem|lemma|def)\s+(?:_root_\.)?([A-Za-z_][\w\.\'?]*)', ln)
            if m:
                declared[m.group(1)] = name
    deps = {}
    for a, b, name in secs:
        if name is None:
            continue
        text = '\n'.join(lines[a - 1:b])
        used = set()
        for ident, sec in declared.items():
            if sec != name and re.search(r'(?<![\w\.])%s(?![\w\'?])' % re.escape(ident), text):
                used.add(sec)
        deps.setdefault(name, set()).update(used)      # a method may have several sections
    # transitive closure
    changed = True
    while changed:
        changed = False
        for k in deps:
            for d in list(deps[k]):
                new = deps.get(d, set()) - deps[k] - {k}
                if new:
                    deps[k] |= new
                    changed = True
    return deps


def _print_axioms(lean_dir, names):
    from vlib import leanproof
    # leanproof.print_axioms runs in its own LEAN_DIR (== lean_dir unless a private copy is used)
    src = 'import %s\n' % EQ_MOD + ''.join('#print axioms %s\n' % n for n in names)
    import tempfile
    from vlib.model import _lean_env
    with tempfile.NamedTemporaryFile('w', suffix='.lean', delete=False, dir=tempfile.gettempdir()) as f:
        f.write(src)
        path = f.name
    try:
        r = subprocess.run(['lean', path], cwd=lean_dir, env=_lean_env(), stdout=subprocess.PIPE,
                           stderr=subprocess.STDOUT, text=True, timeout=1200)
    finally:
        os.unlink(path)
    out = r.stdout
    res = {n: None for n in names}
    for m in re.finditer(r"'([^']+)' depends on axioms: \[([^\]]*)\]", out, flags=re.S):
        res[m.group(1)] = sorted(a.strip() for a in m.group(2).replace('\n', ' ').split(',') if a.strip())
    for m in re.finditer(r"'([^']+)' does not depend on any axioms", out):
        res[m.group(1)] = []
    _ = leanproof
    return res


def _run(src, lean_dir):
    src, usrc = src
    gen_path = os.path.join(lean_dir, GEN_REL)
    eq_text = _read(os.path.join(lean_dir, EQ_REL))
    lib_text = _read(os.path.join(lean_dir, LIB_REL))
    notes = []
    # 1 + 2: translate; leave out definitions that do not elaborate
    stub = set()
    elab_fail = {}
    for _attempt in range(6):
        r = T.translate(src, usrc, stub=tuple(stub))
        _write_if_changed(gen_path, r['lean'])
        ok, log, secs = _lake_build(lean_dir, GEN_MOD)
        notes.append('build %s: %s in %.1fs' % (GEN_MOD, 'ok' if ok else 'FAILED', secs))
        if ok:
            break
        errs = _errors(log, GEN_REL)
        hit = set()
        for ln, msg in errs:
            for key, info in r['methods'].items():
                if info['lines'] and info['lines'][0] <= ln <= info['lines'][1]:
                    hit.add(key)
                    elab_fail.setdefault(key, 'generated definition does not elaborate: ' + msg)
        if not hit:
            # cannot attribute the failure: everything fails
            tail = ' '.join(log.split())[-400:]
            return r, {k: 'generated module does not build: ' + tail for k in r['methods']}, {}, notes, None
        stub |= hit
    else:
        return r, {k: 'generated module does not build after leaving out %s' % sorted(stub) for k in r['methods']}, {}, notes, None
    failed = {}
    for key, info in r['methods'].items():
        if key in elab_fail:
            failed[key] = elab_fail[key]
        elif not info['ok']:
            failed[key] = info['detail']
    # 3: the equality theorems against the fresh definitions
    secs_ = _sections(eq_text)
    deps = _section_deps(eq_text, secs_)
    have_sections = {name for _, _, name in secs_ if name}
    ok, log, secs = _lake_build(lean_dir, EQ_MOD)
    notes.append('build %s: %s in %.1fs' % (EQ_MOD, 'ok' if ok else 'FAILED', secs))
    sec_failed = {}
    axioms = {}
    if not ok:
        errs = _errors(log, EQ_REL)
        if not errs:
            tail = ' '.join(log.split())[-400:]
            sec_failed = {name: 'equality module does not build: ' + tail for name in have_sections}
        for ln, msg in errs:
            where = [name for a, b, name in secs_ if a <= ln <= b]
            name = where[0] if where else None
            if name is None:
                for s in have_sections:
                    sec_failed.setdefault(s, 'a helper lemma of PyObjectEq.lean fails (line %d): %s' % (ln, msg))
            else:
                sec_failed.setdefault(name, 'PyObjectEq.lean:%d: %s' % (ln, msg))
        for name in list(have_sections):
            bad = sorted(d for d in deps.get(name, ()) if d in sec_failed and 'depends on' not in sec_failed[d])
            if name not in sec_failed and bad:
                sec_failed[name] = 'depends on the failed obligation(s) %s' % ', '.join(bad)
    else:
        names = sorted({thm for _, thm in THEOREM.values()} | set(EXTRA_THEOREMS))
        axioms = _print_axioms(lean_dir, names)
    for key, (sec, thm) in THEOREM.items():
        if key in failed:
            continue
        if sec not in have_sections:
            failed[key] = 'no section `### method: %s` in %s' % (sec, EQ_REL)
        elif sec in sec_failed:
            failed[key] = sec_failed[sec]
        elif ok:
            ax = axioms.get(thm)
            if ax is None:
                failed[key] = 'theorem %s not found in the built module' % thm
            elif not set(ax) <= ALLOWED_AXIOMS:
                failed[key] = 'theorem %s uses axioms %s' % (thm, ','.join(sorted(set(ax) - ALLOWED_AXIOMS)))
            else:
                for ex in EXTRA.get(key, ()):
                    axx = axioms.get(ex)
                    if axx is None or not set(axx) <= ALLOWED_AXIOMS:
                        failed[key] = 'theorem %s did not check or uses other axioms (%r)' % (ex, axx)
    # a method whose callee failed is not established either
    _ = lib_text
    return r, failed, axioms, notes, ok


MODEL_FILES = ('Splipy/Model/Periodic.lean', 'Splipy/Model/Split.lean', 'Splipy/Model/Order.lean',
               'Splipy/Model/Sections.lean', 'Splipy/Model/Identical.lean',
               'Splipy/Model/Tensor.lean', 'Splipy/Model/Object.lean', 'Splipy/Model/Reparam.lean',
               'Splipy/Model/Refine.lean', 'Splipy/Model/WellFormed.lean', 'Splipy/Model/Basis.lean',
               'Splipy/Model/BasisOps.lean', 'Splipy/Model/LinAlg.lean', 'Splipy/Model/AffineOps.lean',
               'Splipy/Model/RationalDeriv.lean', 'Splipy/Lemmas/C06Tensor.lean', 'Splipy/Lemmas/TensorEval.lean')


def _sources(sp):
    root = os.path.dirname(os.path.abspath(sp.__file__))
    return (_read(os.path.join(root, 'splineobject.py')), _read(os.path.join(root, 'utils', '__init__.py')))


def _obligations(r, failed, axioms):
    obl = []
    for k in T.ORDER:
        thm = THEOREM.get(k, (None, None))[1]
        good = k not in failed
        kind = 'translation-only' if k in TRANSLATION_ONLY else 'partial' if k in PARTIAL else 'equality'
        if good and k in TRANSLATION_ONLY:
            detail = 'translation-only: translated (%s) and elaborates; no equality theorem' % r['methods'][k]['detail']
        elif good:
            detail = 'translated (%s); %s checked against the fresh definition' % (r['methods'][k]['detail'], thm)
            if k in GUARDS:
                detail += ' [guards: %s]' % GUARDS[k]
            if k in PARTIAL:
                detail += ' [PARTIAL: %s]' % PARTIAL[k]
        else:
            detail = failed[k]
        if good:
            detail += ' [idealised: %s]' % T.IDEALISED
        obl.append({'name': 'PyObject_' + k, 'ok': bool(good), 'class': None, 'detail': detail[:900], 'theorem': thm,
                    'axioms': axioms.get(thm) if thm else None,
                    'python': {'method': 'SplineObject.', 'prop': 'SplineObject.', 'func': 'splineobject.',
                               'util': 'utils.'}[T.SIGS[k]['kind']] + T.py_name(k),
                    'kind': kind, 'calls': list(r['methods'][k].get('calls', []))})
    return obl


def regenerate_pyobject(sp, lean_dir):
    """Returns the list of obligations (dicts with 'name', 'ok', 'detail', 'class', 'theorem', 'axioms')."""
    src, usrc = _sources(sp)
    lean_dir = os.path.abspath(lean_dir)
    h = hashlib.sha256()
    for part in (src, usrc, _read(os.path.join(lean_dir, EQ_REL)), _read(os.path.join(lean_dir, LIB_REL)),
                 _read(T.__file__), _read(T.B.__file__), _read(os.path.abspath(__file__)), lean_dir):
        h.update(part.encode())
        h.update(b'\0')
    for rel in MODEL_FILES:
        h.update(_read(os.path.join(lean_dir, rel)).encode())
    key = h.hexdigest()[:24]
    gen_path = os.path.join(lean_dir, GEN_REL)
    if key in _MEM and os.path.exists(gen_path):
        return _MEM[key]
    cpath = os.path.join(_cache_dir(), key + '.json')
    # the verdict is a function of the hashed inputs; VERIF_PYOBJECT_NOCACHE=1 forces translation + builds anyway
    if os.path.exists(cpath) and os.path.exists(gen_path) and not os.environ.get('VERIF_PYOBJECT_NOCACHE'):
        try:
            c = json.load(open(cpath))
            if c.get('generated_sha') == hashlib.sha256(_read(gen_path).encode()).hexdigest():
                _MEM[key] = c['obligations']
                return c['obligations']
        except Exception:  # noqa: BLE001
            pass

    def all_fail(msg):
        return [{'name': 'PyObject_' + k, 'ok': False, 'class': None, 'detail': msg,
                 'theorem': THEOREM.get(k, (None, None))[1], 'axioms': None} for k in T.ORDER]
    if not src or not usrc:
        return all_fail('splipy/splineobject.py or splipy/utils/__init__.py not found in the overlay')
    try:
        r, failed, axioms, notes, built = _run((src, usrc), lean_dir)
    except SyntaxError as e:
        return all_fail('source does not parse: %s' % e)
    except T.Untranslatable as e:
        return all_fail('not translatable: %s' % e)
    except Exception as e:  # noqa: BLE001   (fail closed on a translator bug)
        return all_fail('translator error: %s: %s' % (type(e).__name__, e))
    obl = _obligations(r, failed, axioms)
    _MEM[key] = obl
    try:
        with open(cpath, 'w') as f:
            json.dump({'obligations': obl, 'notes': notes, 'digest': r['digest'],
                       'generated_sha': hashlib.sha256(_read(gen_path).encode()).hexdigest()}, f, indent=1)
    except Exception:  # noqa: BLE001
        pass
    return obl


def obligations_for(sp, lean_dir, methods):
    """The obligations of the named methods (keys of object_translate.ORDER, e.g. 'insert_knot') together with
    everything they call (transitively); convenience for a property's `regenerate` hook."""
    allo = regenerate_pyobject(sp, lean_dir)
    by = {o['name'][len('PyObject_'):]: o for o in allo}
    want, todo = set(), list(methods)
    while todo:
        m = todo.pop()
        if m in want:
            continue
        want.add(m)
        todo += [c for c in (by.get(m) or {}).get('calls', []) if c not in want]
    missing = sorted(m for m in want if m not in by)
    out = [o for o in allo if o['name'][len('PyObject_'):] in want]
    for m in missing:       # fail closed on an unknown key
        out.append({'name': 'PyObject_' + m, 'ok': False, 'class': None, 'detail': 'no such translated method',
                    'theorem': None, 'axioms': None})
    return out


# ---------------------------------------------------------------------------------------------------
# sensitivity self-test: small source mutations must break the obligation of the mutated method (and, at most, of
# the methods whose proofs / translations depend on it); comment / whitespace / docstring changes must break nothing.
# name: (file, old text, new text, obligations that must fail)       file: 'obj' = splineobject.py, 'utils'

ALL = '*'
MUTS = {
 'start_uses_end':     ('obj', "return tuple(b.start() for b in self.bases)", "return tuple(b.end() for b in self.bases)", ['start']),
 'start_dir_index':    ('obj', "return self.bases[direction].start()", "return self.bases[direction - 1].start()", ['start_dir']),
 'end_dir_uses_start': ('obj', "return self.bases[direction].end()", "return self.bases[direction].start()", ['end_dir']),
 'vd_strictness':      ('obj', "if min(p) < b.start() or b.end() < max(p):", "if min(p) <= b.start() or b.end() < max(p):", ['_validate_domain']),
 'vd_periodic_test':   ('obj', "            if b.periodic < 0:\n                if min(p)", "            if b.periodic < 1:\n                if min(p)", ['_validate_domain']),
 'vd_no_snap':         ('obj', "            b.snap(p)\n", "", ['_validate_domain']),
 'eval_weight_column': ('obj', "result[..., i] /= result[..., -1]", "result[..., i] /= result[..., 0]", ['evaluate']),
 'eval_delete_column': ('obj', "result = np.delete(result, self.dimension, -1)", "result = np.delete(result, 0, -1)", ['evaluate']),
 'eval_tensor_default':('obj', "tensor = kwargs.get('tensor', True)", "tensor = kwargs.get('tensor', False)", ['evaluate']),
 'eval_no_validate':   ('obj', "        self._validate_domain(*params)\n\n        # Evaluate the corresponding bases", "\n        # Evaluate the corresponding bases", ['evaluate']),
 'evalfn_axis':        ('obj', "cps = np.tensordot(N, cps, axes=(1, idx))", "cps = np.tensordot(N, cps, axes=(1, 0))", ['evaluate_fn']),
 'evalfn_order':       ('obj', "for N in bases[::-1]:", "for N in bases:", ['evaluate_fn']),
 'bbox_min_max':       ('obj', "result.append((np.min(self.controlpoints[..., i]),", "result.append((np.max(self.controlpoints[..., i]),", ['bounding_box']),
 'insert_matmul_order':('obj', "C = self.bases[direction].insert_knot(k) @ C", "C = C @ self.bases[direction].insert_knot(k)", ['insert_knot']),
 'insert_no_transpose':('obj', "        self.controlpoints = self.controlpoints.transpose(transpose_fix(self.pardim, direction))\n", "", ['insert_knot']),
 'insert_axis':        ('obj', "self.controlpoints = np.tensordot(C, self.controlpoints, axes=(1, direction))", "self.controlpoints = np.tensordot(C, self.controlpoints, axes=(1, 0))", ['insert_knot']),
 'tfix_position':      ('obj', "ret.insert(direction, 0)", "ret.insert(direction + 1, 0)", ['transpose_fix']),
 'reverse_roll_test':  ('obj', "        if periodic > -1:\n            self.controlpoints = np.roll", "        if periodic > 0:\n            self.controlpoints = np.roll", ['reverse']),
 'reverse_roll_amount':('obj', "np.roll(self.controlpoints, periodic + 1, direction)", "np.roll(self.controlpoints, periodic, direction)", ['reverse']),
 'reverse_no_flip':    ('obj', "for _ in range(direction)] + [slice(None, None, -1)]", "for _ in range(direction)] + [slice(None, None, None)]", ['reverse']),
 'reverse_basis':      ('obj', "        self.bases[direction].reverse()\n", "", ['reverse']),
 'swap_curve_guard':   ('obj', "        if self.pardim == 1:\n            return self\n", "        if self.pardim == 2:\n            return self\n", ['swap']),
 'swap_bases':         ('obj', "self.bases[dir1], self.bases[dir2] = self.bases[dir2], self.bases[dir1]", "self.bases[dir1], self.bases[dir2] = self.bases[dir1], self.bases[dir2]", ['swap']),
 'swap_axes':          ('obj', "new_directions[dir2] = dir1", "new_directions[dir2] = dir2", ['swap']),
 'reparam_default':    ('obj', "args = list(args) + [(0, 1)] * (len(self.bases) - len(args))", "args = list(args) + [(0, 2)] * (len(self.bases) - len(args))", ['reparam']),
 'reparam_dir_default':('obj', "self.bases[direction].reparam(0,1)", "self.bases[direction].reparam(0,2)", ['reparam_dir']),
 'reparam_dir_arg':    ('obj', "start, end = args[0]", "start, end = args[-1]", ['reparam_dir']),
 'pardim_definition':  ('obj', "return len(self.controlpoints.shape)-1", "return len(self.bases)", ['pardim']),
 'len_accumulate':     ('obj', "            n *= b.num_functions()", "            n += b.num_functions()", ['__len__']),
 'checkdir_tokens':    ('utils', "elif direction in {1, 'v', 'V'} and 1 < pardim:", "elif direction in {1, 'v'} and 1 < pardim:", ['check_direction']),
 'checkdir_bound':     ('utils', "direction in {0, 'u', 'U'} and 0 < pardim:", "direction in {0, 'u', 'U'} and 0 <= pardim:", ['check_direction']),
 'utils_helper_pinned':('utils', "        return [x] * dups", "        return [x] * (dups + 1)", ALL),
 'setdim_delete_index':('obj', "np.delete(self.controlpoints, -2 if self.rational else -1, -1)", "np.delete(self.controlpoints, -1, -1)", ['set_dimension']),
 'setdim_insert_pos':  ('obj', "np.insert(self.controlpoints, dim, np.zeros(shape[:-1]), self.pardim)", "np.insert(self.controlpoints, 0, np.zeros(shape[:-1]), self.pardim)", ['set_dimension']),
 'setdim_loop_test':   ('obj', "        while new_dim > dim:", "        while new_dim > dim + 1:", ['set_dimension']),
 'force_rational_ones':('obj', "np.insert(self.controlpoints, dim, np.ones(shape[:-1]), self.pardim)", "np.insert(self.controlpoints, dim, np.zeros(shape[:-1]), self.pardim)", ['force_rational']),
 'translate_promote':  ('obj', "        if len(x) > dim:  # typical case", "        if len(x) >= dim:  # typical case", ['translate']),
 'translate_column':   ('obj', "translation_matrix[i, -1] = x[i]", "translation_matrix[i, 0] = x[i]", ['translate']),
 'translate_no_T':     ('obj', "cp = cp @ translation_matrix.T  # right-mult", "cp = cp @ translation_matrix  # right-mult", ['translate']),
 'translate_store':    ('obj', "self.controlpoints = np.reshape(np.array(cp[:, :-1]), self.controlpoints.shape)", "self.controlpoints = np.reshape(np.array(cp), self.controlpoints.shape)", ['translate']),
 'scale_dups':         ('obj', "s = ensure_listlike(s, dups=3)", "s = ensure_listlike(s, dups=2)", ['scale', 'scale_p']),
 'scale_diag':         ('obj', "scale_matrix[i, i] = s[i]", "scale_matrix[i, 0] = s[i]", ['scale', 'scale_p']),
 'scale_matrix_size':  ('obj', "scale_matrix = np.identity(dim + rat)", "scale_matrix = np.identity(dim + 1)", ['scale', 'scale_p']),
 'project_keep':       ('obj', "            if not keep[i]:", "            if keep[i]:", ['project']),
 'project_letters':    ('obj', "keep = [c in plane.lower() for c in 'xyz']", "keep = [c in plane.lower() for c in 'xzy']", ['project']),
 'project_value':      ('obj', "self.controlpoints[..., i] = 0", "self.controlpoints[..., i] = 1", ['project']),
 'deriv_order_limit':  ('obj', "            if sum(derivs) > 1:", "            if sum(derivs) > 2:", ['derivative']),
 'deriv_quotient_sign':('obj', "result[..., i] = result[..., i] / W - non_derivative[..., i] * Wd / W / W", "result[..., i] = result[..., i] / W + non_derivative[..., i] * Wd / W / W", ['derivative']),
 'deriv_above_default':('obj', "above = kwargs.get('above', [True] * self.pardim)", "above = kwargs.get('above', [False] * self.pardim)", ['derivative']),
 'deriv_d_default':    ('obj', "derivs = kwargs.get('d', [1] * self.pardim)", "derivs = kwargs.get('d', [0] * self.pardim)", ['derivative']),
 'deriv_nonderiv_side':('obj', "Ns = [b.evaluate(p, 0, from_right) for b, p, from_right in zip(self.bases, params, above)]", "Ns = [b.evaluate(p, 0, True) for b, p, from_right in zip(self.bases, params, above)]", ['derivative']),
 'deriv_weight_deriv': ('obj', "                Wd = result[..., -1]         # W'", "                Wd = non_derivative[..., -1]         # W'", ['derivative']),
 'force_rational_val': ('obj', "            self.rational = 1\n", "            self.rational = 2\n", ['force_rational']),
 'default_arg':        ('obj', "def reverse(self, direction=0):", "def reverse(self, direction=1):", ['reverse']),
 'unknown_syntax':     ('obj', "        direction = check_direction(direction, self.pardim)\n        self.bases[direction].reverse()", "        direction = check_direction(direction, self.pardim)\n        while False: pass\n        self.bases[direction].reverse()", ['reverse']),
 'comment_only':       ('obj', "        # for single-value input, wrap it into a list\n        knot = ensure_listlike(knot)", "        # single values are wrapped   \n        knot = ensure_listlike(knot)", []),
 'whitespace_only':    ('obj', "        shape  = self.controlpoints.shape\n\n        # for single-value", "        shape = self.controlpoints.shape\n\n\n        # for single-value", []),
 'docstring_only':     ('obj', '"""  Swaps two parameter directions.', '"""  Swap two parameter directions (reworded).', []),
 'utils_comment_only': ('utils', '    """Wraps x in a list if it\'s not list-like."""', '    """Wrap x in a list unless it is list-like."""', []),
 # ---- t3b
 'order_all_plus':     ('obj', "return tuple(b.order for b in self.bases)", "return tuple(b.order + 1 for b in self.bases)", ['order']),
 'order_all_attr':     ('obj', "return tuple(b.order for b in self.bases)", "return tuple(b.periodic for b in self.bases)", ['order']),
 'order_dir_minus':    ('obj', "return self.bases[direction].order", "return self.bases[direction].order - 1", ['order_dir']),
 'order_dir_index':    ('obj', "return self.bases[direction].order", "return self.bases[direction - 1].order", ['order_dir']),
 'lowper_loop_test':   ('obj', "while periodic < b.periodic:", "while periodic <= b.periodic:", ['lower_periodic']),
 'lowper_roll_sign':   ('obj', "self.controlpoints = np.roll(self.controlpoints, -1, direction)", "self.controlpoints = np.roll(self.controlpoints, 1, direction)", ['lower_periodic']),
 'lowper_step':        ('obj', "b.periodic -= 1", "b.periodic -= 2", ['lower_periodic']),
 'mkper_default':      ('obj', "continuity = basis.order - 2\n        if not -1", "continuity = basis.order - 1\n        if not -1", ['make_periodic']),
 'mkper_minus_one':    ('obj', "        if continuity == -1:\n", "        if continuity == 0:\n", ['make_periodic', 'make_periodic_c']),
 'mkper_weight':       ('obj', "if continuity > 0 else [0.5]", "if continuity > 0 else [0.25]", ['make_periodic', 'make_periodic_c']),
 'mkper_average':      ('obj', "cps[tuple(index_beg)] = t * cps[tuple(index_beg)] + (1 - t) * cps[tuple(index_end)]", "cps[tuple(index_beg)] = (1 - t) * cps[tuple(index_beg)] + t * cps[tuple(index_end)]", ['make_periodic', 'make_periodic_c']),
 'split_inf_cont':     ('obj', "                continuity = p - 1\n", "                continuity = p - 2\n", ['split']),
 'split_ghost_knots':  ('obj', "b.knots = b.knots[:-b.periodic-1]", "b.knots = b.knots[:-b.periodic]", ['split']),
 'split_knot_slice':   ('obj', "slice(last_knot_i, mu+p, None)", "slice(last_knot_i, mu+p-1, None)", ['split']),
 'split_filter':       ('obj', "if self.start(direction) < k < self.end(direction): # skip", "if self.start(direction) <= k < self.end(direction): # skip", ['split']),
 'roi_order':          ('obj', "for n in N_old[::-1]:\n            result = np.tensordot", "for n in N_old:\n            result = np.tensordot", ['raise_order_implicit']),
 'roi_no_inverse':     ('obj', "result = np.tensordot(np.linalg.inv(n), result, axes=(1, self.pardim-1))", "result = np.tensordot(n, result, axes=(1, self.pardim-1))", ['raise_order_implicit']),
 'roi_axis':           ('obj', "result = np.tensordot(n, result, axes=(1, self.pardim-1))", "result = np.tensordot(n, result, axes=(1, 0))", ['raise_order_implicit']),
 'ro_negative_test':   ('obj', "if not all(r >= 0 for r in raises):", "if not all(r > 0 for r in raises):", ['raise_order', 'raise_order_dir']),
 'ro_uniform':         ('obj', "raises = [raises[0]] * self.pardim\n        elif len(raises) == 1:", "raises = [raises[0]] * (self.pardim + 1)\n        elif len(raises) == 1:", ['raise_order']),
 'ro_dir_fill':        ('obj', "newraises = [0] * self.pardim", "newraises = [1] * self.pardim", ['raise_order_dir']),
 'ro_guard':           ('obj', "b.continuity(b.knots[0]) < b.order or b.periodic > -1 for b in self.bases", "b.continuity(b.knots[0]) < b.order or b.periodic > 0 for b in self.bases", ['raise_order', 'raise_order_dir']),
 'ro_pinned_tail':     ('obj', "        for i in range(0,d_p):\n", "        for i in range(1,d_p):\n", ['raise_order', 'raise_order_dir']),
 'ro_kwonly_default':  ('obj', "def raise_order(self, *raises, direction=None):", "def raise_order(self, *raises, direction=0):", ['raise_order', 'raise_order_dir']),
 'setorder_test':      ('obj', "if not all(new >= old for new, old in zip(order, self.order())):", "if not all(new > old for new, old in zip(order, self.order())):", ['set_order']),
 'setorder_diff':      ('obj', "diff = [new - old for new, old in zip(order, self.order())]", "diff = [old - new for new, old in zip(order, self.order())]", ['set_order']),
 'lo_zero_test':       ('obj', "if all(l == 0 for l in lowers):", "if all(l == 1 for l in lowers):", ['lower_order']),
 'lo_axis':            ('obj', "new_controlpts = np.tensordot(n, new_controlpts, axes=(1, self.pardim-1))", "new_controlpts = np.tensordot(n, new_controlpts, axes=(1, 0))", ['lower_order']),
 'lo_amount':          ('obj', "new_bases = [b.lower_order(l) for b, l in zip(self.bases, lowers)]", "new_bases = [b.lower_order(l + 1) for b, l in zip(self.bases, lowers)]", ['lower_order']),
 'rotmat_half_angle':  ('utils', "    a = np.cos(theta / 2)", "    a = np.cos(theta)", ['rotation_matrix']),
 'rotmat_sign':        ('utils', "b, c, d = -axis*np.sin(theta / 2)", "b, c, d = axis*np.sin(theta / 2)", ['rotation_matrix']),
 'rotate_promote':     ('obj', "if not (normal[0] == 0 and normal[1] == 0):", "if not (normal[0] == 0 and normal[2] == 0):", ['rotate']),
 'rotate_no_T':        ('obj', "                 ]).T  # we do right-multiplication", "                 ])  # we do right-multiplication", ['rotate']),
 'rotate_dim_test':    ('obj', "        if dim == 2:\n            R = np.array", "        if dim == 1:\n            R = np.array", ['rotate']),
 'mirror_factor':      ('obj', "reflection_matrix[0:dim, 0:dim] -= 2 * np.outer(normal, normal)", "reflection_matrix[0:dim, 0:dim] -= 1 * np.outer(normal, normal)", ['mirror']),
 'mirror_dim_test':    ('obj', "        if dim != 3:\n            raise RuntimeError('reflection", "        if dim != 2:\n            raise RuntimeError('reflection", ['mirror']),
 'mirror_normalise':   ('obj', "normal = normal / np.sqrt(np.dot(normal, normal))  # normalize it", "normal = normal / np.dot(normal, normal)  # normalize it", ['mirror']),
 'iadd_negates':       ('obj', "    def __iadd__(self, x):\n        self.translate(x)", "    def __iadd__(self, x):\n        self.translate(-np.array(x))", ['__iadd__']),
 'iadd_twice':         ('obj', "    def __iadd__(self, x):\n        self.translate(x)\n", "    def __iadd__(self, x):\n        self.translate(x)\n        self.translate(x)\n", ['__iadd__']),
 'isub_no_negation':   ('obj', "self.translate(-np.array(x))  # can't do -x", "self.translate(np.array(x))  # can't do -x", ['__isub__']),
 'isub_twice':         ('obj', "self.translate(-np.array(x))  # can't do -x if x is a list, so we rewrap it here\n", "self.translate(-np.array(x))  # can't do -x if x is a list, so we rewrap it here\n        self.translate(-np.array(x))\n", ['__isub__']),
 'imul_reciprocal':    ('obj', "    def __imul__(self, x):\n        self.scale(x)", "    def __imul__(self, x):\n        self.scale(1.0 / x)", ['__imul__']),
 'imul_twice':         ('obj', "    def __imul__(self, x):\n        self.scale(x)\n", "    def __imul__(self, x):\n        self.scale(x)\n        self.scale(x)\n", ['__imul__']),
 'itruediv_no_recip':  ('obj', "    def __itruediv__(self, x):\n        self.scale(1.0 / x)", "    def __itruediv__(self, x):\n        self.scale(x)", ['__itruediv__']),
 'itruediv_twice':     ('obj', "    def __itruediv__(self, x):\n        self.scale(1.0 / x)\n", "    def __itruediv__(self, x):\n        self.scale(1.0 / x)\n        self.scale(1.0 / x)\n", ['__itruediv__']),
 'add_subtracts':      ('obj', "    def __add__(self, x):\n        new_obj = copy.deepcopy(self)\n        new_obj += x", "    def __add__(self, x):\n        new_obj = copy.deepcopy(self)\n        new_obj -= x", ['__add__']),
 'add_returns_self':   ('obj', "        new_obj += x\n        return new_obj", "        new_obj += x\n        return self", ['__add__']),
 'radd_subtracts':     ('obj', "        return self + x", "        return self - x", ['__radd__']),
 'radd_identity':      ('obj', "        return self + x", "        return self", ['__radd__']),
 'sub_adds':           ('obj', "    def __sub__(self, x):\n        new_obj = copy.deepcopy(self)\n        new_obj -= x", "    def __sub__(self, x):\n        new_obj = copy.deepcopy(self)\n        new_obj += x", ['__sub__']),
 'sub_returns_self':   ('obj', "        new_obj -= x\n        return new_obj", "        new_obj -= x\n        return self", ['__sub__']),
 'mul_divides':        ('obj', "        new_obj *= x\n", "        new_obj /= x\n", ['__mul__']),
 'mul_returns_self':   ('obj', "        new_obj *= x\n        return new_obj", "        new_obj *= x\n        return self", ['__mul__']),
 'rmul_divides':       ('obj', "        return self * x", "        return self / x", ['__rmul__']),
 'rmul_identity':      ('obj', "        return self * x", "        return self", ['__rmul__']),
 'div_multiplies':     ('obj', "        new_obj /= x\n", "        new_obj *= x\n", ['__div__']),
 'div_returns_self':   ('obj', "        new_obj /= x\n        return new_obj", "        new_obj /= x\n        return self", ['__div__']),
 'section_unwrap':     ('obj', "unwrap_points = kwargs.get('unwrap_points', True)", "unwrap_points = kwargs.get('unwrap_points', False)", ['section']),
 'section_free_bases': ('obj', "bases = [b for b, p in zip(self.bases, section) if p is None]", "bases = [b for b, p in zip(self.bases, section) if p is not None]", ['section']),
 'corners_order':      ('obj', "self.section(*(args[::-1] if order == 'F' else args))", "self.section(*(args[::-1] if order == 'C' else args))", ['corners']),
 'corners_width':      ('obj', "result = np.zeros((2**self.pardim, self.dimension + int(self.rational)))", "result = np.zeros((2**self.pardim, self.dimension))", ['corners']),
 'check_section_pinned': ('utils', "    while len(args) < pardim:\n        args.append(None)", "    while len(args) < pardim:\n        args.append(0)", ['section', 'corners']),
 'sections_pinned':    ('utils', "for indices in product([0, -1], repeat=nfixed):", "for indices in product([-1, 0], repeat=nfixed):", ['corners']),
}


def _dependents(lean_dir):
    """method key -> keys whose obligation may legitimately fail with it (proof / translation dependencies)."""
    eq_text = _read(os.path.join(lean_dir, EQ_REL))
    secs_ = _sections(eq_text)
    deps = _section_deps(eq_text, secs_)           # section -> sections it uses
    sec_of = {k: v[0] for k, v in THEOREM.items()}
    out = {k: set() for k in T.ORDER}
    for k in T.ORDER:
        for k2 in T.ORDER:
            if k2 == k:
                continue
            s1, s2 = sec_of.get(k), sec_of.get(k2)
            if s1 and s2 and (s1 == s2 or s1 in deps.get(s2, ())):
                out[k].add(k2)
    return out


def selftest(sp, lean_dir, names=None):
    """Runs every mutation of MUTS on the overlay's source *text* against a private copy of the lake project (the
    shared one is not touched).  A mutation passes when every expected obligation fails and nothing fails beyond the
    expected ones and their dependents.  Returns {name: {'expected', 'failed', 'as_expected'}}."""
    import shutil
    import tempfile
    src, usrc = _sources(sp)
    tmp = tempfile.mkdtemp(prefix='pyobject-selftest-')
    priv = os.path.join(tmp, 'lean')
    res = {}
    try:
        shutil.copytree(lean_dir, priv, symlinks=True)
        r0, failed0, _a, _n, _ok = _run((src, usrc), priv)
        base_bad = [k for k in T.ORDER if k in failed0]
        print('%-22s %s failed=%s' % ('(unmutated)', 'as expected' if not base_bad else 'UNEXPECTED', base_bad), flush=True)
        res['(unmutated)'] = {'expected': [], 'failed': base_bad, 'as_expected': not base_bad}
        dep = _dependents(priv)
        calls = {k: set(v.get('calls', [])) for k, v in r0['methods'].items()}
        for nm, (which, old, new, expect) in MUTS.items():
            if names and nm not in names:
                continue
            text = src if which == 'obj' else usrc
            if text.count(old) < 1:
                res[nm] = {'expected': expect, 'failed': None, 'as_expected': False, 'note': 'pattern not found'}
                print('%-22s PATTERN NOT FOUND' % nm, flush=True)
                continue
            mut = text.replace(old, new, 1)
            pair = (mut, usrc) if which == 'obj' else (src, mut)
            try:
                r, failed, _ax, _notes, _ok = _run(pair, priv)
                bad = [k for k in T.ORDER if k in failed]
            except Exception as e:  # noqa: BLE001
                bad = list(T.ORDER)
                failed = {k: '%s: %s' % (type(e).__name__, e) for k in bad}
            if expect == ALL:
                good = set(bad) == set(T.ORDER)
                allowed = set(T.ORDER)
            else:
                allowed = set(expect)
                for k in expect:
                    allowed |= dep.get(k, set())
                    allowed |= {k2 for k2 in T.ORDER if k in calls.get(k2, ())}     # callers (translation-level)
                good = set(expect) <= set(bad) <= allowed
            res[nm] = {'expected': expect, 'failed': bad, 'as_expected': good,
                       'why': {k: failed[k][:160] for k in bad[:3]}}
            print('%-22s %s expected=%s failed=%s' % (nm, 'as expected' if good else 'UNEXPECTED',
                                                      'ALL' if expect == ALL else expect, bad), flush=True)
    finally:
        shutil.rmtree(tmp, ignore_errors=True)
    return res


if __name__ == '__main__':
    from vlib import impl, model
    sp_, _info = impl.load()
    if '--selftest' in sys.argv:
        out = selftest(sp_, model.LEAN_DIR, [a for a in sys.argv[1:] if not a.startswith('--')])
        sys.exit(0 if all(v['as_expected'] for v in out.values()) else 1)
    for o in regenerate_pyobject(sp_, model.LEAN_DIR):
        print('%-30s %-5s %-16s %s' % (o['name'], 'ok' if o['ok'] else 'FAIL', o.get('kind', ''), o['detail'][:170]))
