"""C05 — order elevation preserves geometry and continuity; lowering undoes it.

Correspondence: `raise_order` / `set_order` (through the real classes: `Curve.raise_order` override,
`SplineObject.raise_order` for surfaces/volumes and — form `base` — for curves), then `lower_order` on
the result, and `BSplineBasis.raise_order` / `lower_order` directly, versus the Lean model
(`Model/Order.lean`: argument normalisation, return-value convention, the Greville interpolation
with exact inverses, the periodic `NameError` of `BSplineBasis.lower_order`).
Observables: return-value convention (self / None / new object), orders, knot vectors (exact),
periodicity, control points (tolerance scaled by the measured condition number of the collocation
matrices), `continuity(k)` at every knot, exception classes.

Oracle (model independent): the evaluated map before (exact Cox-de Boor rows of the ORIGINAL spec)
and after (the real object's `evaluate`, and exact rows of the new knots from both sides) agree at
p+1 points per span and at every knot; domain, periodicity and the `continuity` table are unchanged;
the orders grew by exactly the amounts; `raise_order`/`set_order` return the receiver;
`lower_order` by the same amounts gives a new object with the original knot vectors that evaluates
to the original map.
"""
import itertools

import numpy as np

from vlib import gen, exact
from vlib.val import line, Word
from vlib.compare import diff, Err, exc_kind, is_err

ID = 'C05'
PYOBJECT_METHODS = ['raise_order', 'raise_order_dir', 'raise_order_implicit', 'set_order', 'lower_order', 'order', 'order_dir']   # splineobject.py methods re-translated and proved equal to the hand model each run
PYBASIS_METHODS = ['raise_order', 'lower_order', 'knot_spans', 'continuity', 'greville']   # basis.py methods re-translated and proved equal to the hand model each run
# theorems of this property stated for the object evaluator `Obj.evaluate` (bridge through C02)
EXTRA_THEOREMS = [('Splipy.Properties.Bridge', 'Splipy/Properties/Bridge.lean', 'Bridge_C05_')]
RTOL = 1e-7      # multiplied by the measured condition number for control points
ATOL = 1e-11
RULE = ('continuous objects: pardim 1-3, rational or not, bases open (clamped) or periodic (every continuity k) with interior '
        'multiplicities 1..p-1, orders 1..5; raise amounts 0..3 per direction as full tuples, single amounts, single amount + '
        'direction=, set_order targets (tuple, and a single target on equal AND unequal orders); negative amounts / lowering set_order / bad direction (ValueError); lower_order by the '
        'same amounts on every elevated object; BSplineBasis.raise_order/lower_order directly.  non-trivial = some amount > 0.')
REQUIRED_TAGS = ['model-exact-map=exact-same', 'model-exact-lower=exact-same', 'pardim=1', 'pardim=2', 'pardim=3', 'rational', 'periodic-dir', 'open-only', 'form=raise', 'form=set',
                 'form=base', 'args=single', 'args=direction', 'args=tuple', 'all-zero', 'negative', 'set-lowering',
                 'amount=3', 'kind=basis', 'lower=ok', 'interior-mult>=2', 'ret=self', 'set-single-unequal', 'set-single-unequal-lowering']
ASSUMPTIONS = ['proof level: full for clamped non-periodic continuous bases — one direction (C05_knots, C05_geometry_clamped_full, '
               'C05_lower_left_inverse_clamped), surfaces (C05_geometry_clamped_surface, C05_lower_left_inverse_clamped_surface) and '
               'volumes (C05_geometry_clamped_volume, C05_lower_left_inverse_clamped_volume): degree-elevation inclusion and Schoenberg-Whitney are proved; '
               'periodic bases: knot bookkeeping incl. ghost trimming proved (C05_knots_periodic), degree-elevation inclusion proved '
               '(C05_elevation_periodic); geometry of periodic curves and of periodic directions of surfaces/volumes proved relative to the '
               'named hypothesis H_sw (certified inverse of the folded periodic Greville collocation matrix exists; exercised exactly by the '
               'model run) and admissible Greville points (C05_geometry_periodic_partial, C05_periodic_direction_partial, '
               'C05_geometry_periodic_surface_partial); H_sw and admissibility are discharged for uniform periodic quadratics raised to cubics '
               '(C05_geometry_periodic_uniform_cubic, tol <= h/3); order-1 single-span objects raised by a>=1: C05_geometry_order1',
               'np.linalg.inv / scipy spsolve are modelled by exact inverses (certificate-checked in the model); their '
               'rounding error is bounded by RTOL times the measured condition number of the collocation matrix']


# ---------------------------------------------------------------------------------------------
# generators

def _cont_basis(rng, pmax, max_interior, periodic_prob, wide=False, p=None):
    """Basis of a continuous object: interior multiplicity <= p-1 (p = 1: a single span)."""
    if p is None:
        p = rng.choice([1] + list(range(2, pmax + 1)) * 10)
    if p == 1:
        return gen.open_basis(rng, 1, n_interior=0, wide=wide)
    ni = rng.randint(0, max_interior)
    if rng.random() < periodic_prob:
        return gen.periodic_basis(rng, p, rng.randint(0, p - 2), n_interior=ni, max_mult=p - 1, wide=wide)
    return gen.open_basis(rng, p, n_interior=ni, max_mult=p - 1, wide=wide)


def _cont_object(rng, pardim, pmax, max_interior, periodic_prob, wide=False, dim=None, rational=None):
    bases = [_cont_basis(rng, pmax, max_interior, periodic_prob, wide) for _ in range(pardim)]
    if dim is None:
        dim = rng.choice([2, 3, 3] if pardim < 3 else [3])
    if rational is None:
        rational = rng.random() < 0.4
    shape = [gen.basis_info(b)['n'] for b in bases]
    ncomp = dim + (1 if rational else 0)
    return {'bases': bases, 'cps': gen.rand_cps(rng, shape, ncomp, rational), 'rational': bool(rational)}


def _orders(o):
    return [b['order'] for b in o['bases']]


def generate(rng, tier):
    specs = []
    quick = tier == 'quick'
    nobj = 400 if quick else 3000
    for oi in range(nobj):
        pardim = [1, 2, 1, 2, 3][oi % 5]
        pmax = {1: 5, 2: 4, 3: 3}[pardim]
        o = _cont_object(rng, pardim, pmax, max_interior={1: 4, 2: 2, 3: 1}[pardim],
                         periodic_prob=[0.0, 0.35, 0.5][oi % 3], wide=(not quick and rng.random() < 0.15))
        amax = 3 if pardim < 3 else 2
        am = [rng.randint(0, amax) for _ in range(pardim)]
        if pardim == 3 and sum(am) > 4:
            am[rng.randrange(3)] = 0
        if oi % 11 == 0:
            am[rng.randrange(pardim)] = 3
        r = oi % 8
        sp_ = {'kind': 'obj', 'obj': o, 'form': 'raise', 'amounts': am, 'direction': None, 'lowers': list(am)}
        if r == 1:                                        # single amount, uniform
            a = rng.randint(0, 2 if pardim == 3 else 3)
            sp_.update(amounts=[a], lowers=[a])
        elif r == 2:                                      # single amount + direction=
            a = rng.randint(0, 3)
            d = rng.randrange(pardim)
            low = [0] * pardim
            low[d] = a
            sp_.update(amounts=[a], direction=d, lowers=low)
        elif r == 3:                                      # set_order, full tuple
            sp_.update(form='set', amounts=[p + a for p, a in zip(_orders(o), am)])
        elif r == 4 and len(set(_orders(o))) == 1:        # set_order, single target
            a = rng.randint(0, 2)
            sp_.update(form='set', amounts=[_orders(o)[0] + a], lowers=[a])
        elif r == 5 and pardim == 1:                      # base-class method on a curve
            sp_.update(form='base')
        specs.append(sp_)
        # the API contract cases on the same object
        if oi % 4 == 0:
            specs.append({'kind': 'obj', 'obj': o, 'form': rng.choice(['raise', 'raise', 'base'] if pardim == 1 else ['raise']),
                          'amounts': [0] * pardim if rng.random() < 0.6 else [0], 'direction': None, 'lowers': []})
        if oi % 6 == 1:
            specs.append({'kind': 'obj', 'obj': o, 'form': 'set', 'amounts': _orders(o), 'direction': None, 'lowers': [0] * pardim})
        if oi % 6 == 2:
            bad = list(am)
            bad[rng.randrange(pardim)] = -rng.randint(1, 2)
            specs.append({'kind': 'obj', 'obj': o, 'form': rng.choice(['raise', 'base'] if pardim == 1 else ['raise']),
                          'amounts': bad, 'direction': None, 'lowers': []})
        if oi % 6 == 3:
            tgt = [p + a for p, a in zip(_orders(o), am)]
            tgt[rng.randrange(pardim)] -= (1 + max(am))
            specs.append({'kind': 'obj', 'obj': o, 'form': 'set', 'amounts': tgt, 'direction': None, 'lowers': []})
        if oi % 10 == 4:
            specs.append({'kind': 'obj', 'obj': o, 'form': 'raise', 'amounts': [1], 'direction': rng.choice([pardim, 3, -1]),
                          'lowers': []})
        if pardim >= 2 and len(set(_orders(o))) > 1 and oi % 3 != 2:
            # set_order with ONE argument on unequal orders: the target applies to every direction
            ords = _orders(o)
            t = max(ords) + rng.randint(0, 1 if pardim == 3 else 2)
            specs.append({'kind': 'obj', 'obj': o, 'form': 'set', 'amounts': [t], 'direction': None,
                          'lowers': [t - p for p in ords]})
            # ... and must be rejected when the target is below the order of ANY direction (not just the first)
            specs.append({'kind': 'obj', 'obj': o, 'form': 'set', 'amounts': [rng.randint(min(ords), max(ords) - 1)],
                          'direction': None, 'lowers': []})
        if oi % 10 == 5 and pardim >= 2:                  # zero in one direction only / lower by less than raised
            d = rng.randrange(pardim)
            a2 = [0] * pardim
            a2[d] = rng.randint(1, 2)
            specs.append({'kind': 'obj', 'obj': o, 'form': 'raise', 'amounts': a2, 'direction': None, 'lowers': a2})
    # curves of dimension 1 (scalar functions)
    for _ in range(2 if quick else 10):
        o = _cont_object(rng, 1, 4, 2, 0.0, dim=1, rational=False)
        a = rng.randint(1, 2)
        specs.append({'kind': 'obj', 'obj': o, 'form': 'raise', 'amounts': [a], 'direction': None, 'lowers': [a]})
    # bases directly: every (p, k) family
    fam = [(p, k) for p in range(1, 6 if quick else 8) for k in range(-1, max(p - 1, 0))]
    for rep in range(2 if quick else 12):
        for (p, k) in fam:
            if p == 1:
                b = gen.open_basis(rng, 1, n_interior=0)
            elif k < 0:
                b = gen.open_basis(rng, p, n_interior=rng.randint(0, 4), max_mult=p - 1, wide=(not quick and rng.random() < 0.2))
            else:
                b = gen.periodic_basis(rng, p, k, n_interior=rng.choice([0, 1, 2, 3, 5]), max_mult=p - 1,
                                       wide=(not quick and rng.random() < 0.2))
            a = rng.randint(0, 3)
            specs.append({'kind': 'basis', 'basis': b, 'amount': a, 'lower': a})
            if rep == 0:
                specs.append({'kind': 'basis', 'basis': b, 'amount': rng.choice([-1, -2]), 'lower': None})
                specs.append({'kind': 'basis', 'basis': b, 'amount': 1, 'lower': rng.choice([-1, p, p + 1, p + 3])})
    # repeated interior knots whose copies are ROUND-OFF TWINS (one ulp apart, far inside knot_tolerance):
    # what `insert_knot(0.1 + 0.2)` followed by `insert_knot(0.3)` leaves behind.  The library treats
    # them as one knot (knot_spans / continuity work with the tolerance), so raise_order has to raise the
    # multiplicity of the CLUSTER by the amount - duplicating every bit-distinct value instead lowers
    # the continuity there (seeded change C05_9).
    for rep in range(12 if quick else 60):
        p = rng.choice([3, 3, 4, 5])
        b = _twin_basis(rng, p)
        if b is None:
            continue
        a = rng.randint(1, 2)
        specs.append({'kind': 'basis', 'basis': b, 'amount': a, 'lower': a, 'twin': True})
    return specs


def _twin_basis(rng, p):
    """Open basis of order p >= 3 with an interior knot of multiplicity >= 2 whose last copy is moved up by one ulp."""
    for _ in range(20):
        b = gen.open_basis(rng, p, n_interior=rng.randint(1, 3), max_mult=p - 1)
        kn = list(b['knots'])
        idx = [i for i in range(p, len(kn) - p - 1) if kn[i] == kn[i + 1] and (i + 2 >= len(kn) or kn[i + 2] != kn[i + 1])]
        if not idx:
            continue
        i = rng.choice(idx)
        kn[i + 1] = float(np.nextafter(kn[i + 1], np.inf))
        return {'order': p, 'knots': kn, 'periodic': -1}
    return None


# ---------------------------------------------------------------------------------------------
# protocol

def _is_curve(s):
    return len(s['obj']['bases']) == 1


EXACT_GRID_MAX = 260


def _exact_params(s):
    """Grid for the model's exact (rational arithmetic) before/after comparison: q = new order
    points strictly inside every knot span per direction decide equality of the polynomial pieces of
    the homogeneous maps.  [] = skipped (illegal call, or grid too large for the quick model run)."""
    am = _norm_amounts(s)
    if am is None or not any(am):
        return []
    params = []
    total = 1
    for b, a in zip(s['obj']['bases'], am):
        info = gen.basis_info(b)
        ks = [x for x in gen.distinct_knots(b) if info['start'] <= x <= info['end']]
        q = b['order'] + a
        pts = [x + (y - x) * j / (q + 1) for x, y in zip(ks[:-1], ks[1:]) for j in range(1, q + 1)]
        params.append(pts)
        total *= len(pts)
    return params if total <= EXACT_GRID_MAX else []


def model_line(s):
    if s['kind'] == 'basis':
        return line('c05_basis', gen.enc_basis(s['basis']), gen.TOL, s['amount'],
                    Word('none') if s['lower'] is None else s['lower'])
    return line('c05_obj', gen.enc_object(s['obj']), gen.TOL, _is_curve(s), Word(s['form']), s['amounts'],
                Word('none') if s['direction'] is None else s['direction'], s['lowers'], _exact_params(s))


def _cont_table(b):
    out = []
    for k in b.knot_spans(True):
        try:
            c = b.continuity(k)
            out.append(Word('inf') if c == np.inf else int(c))
        except Exception as e:  # noqa: BLE001
            out.append(Err(exc_kind(e)))
    return out


def _ret(r, recv):
    return 'self' if r is recv else 'none' if r is None else 'new'


def _call_raise(sp, o, s):
    kw = {} if s['direction'] is None else {'direction': s['direction']}
    if s['form'] == 'raise':
        return o.raise_order(*s['amounts'], **kw)
    if s['form'] == 'base':
        return sp.SplineObject.raise_order(o, *s['amounts'], **kw)
    return o.set_order(*s['amounts'])


def _cond(bases_old, bases_new):
    """Largest condition number of the Greville collocation matrices of the new bases."""
    c = 1.0
    for bn in bases_new:
        try:
            N = bn.evaluate(bn.greville())
            c *= max(1.0, float(np.linalg.cond(N)))
        except Exception:  # noqa: BLE001
            pass
    return c


def _obs(obj):
    cps = np.asarray(obj.controlpoints, dtype=float)
    return [[[int(b.order), [float(x) for x in b.knots], int(b.periodic)] for b in obj.bases],
            list(cps.shape), cps.reshape(-1).tolist(), bool(obj.rational)]


def run_impl(sp, s):
    if s['kind'] == 'basis':
        b = gen.mk_basis(sp, s['basis'])
        t0 = _cont_table(b)
        try:
            b1 = b.raise_order(s['amount'])
        except Exception as e:  # noqa: BLE001
            return {'v': [Err(exc_kind(e)), 'skip', t0, 'skip'], 'cond': 1.0}
        if s['lower'] is None:
            low = 'skip'
        else:
            try:
                low = gen.enc_basis(gen.spec_of_basis(b1.lower_order(s['lower'])))
            except Exception as e:  # noqa: BLE001
                low = Err(exc_kind(e))
        return {'v': [gen.enc_basis(gen.spec_of_basis(b1)), low, t0, _cont_table(b1)], 'cond': 1.0}
    o = gen.mk_object(sp, s['obj'])
    old_bases = [b.clone() for b in o.bases]
    r = _call_raise(sp, o, s)               # exceptions propagate: the framework maps them to Err
    ret = _ret(r, o)
    after = r if ret == 'new' else o
    cond1 = _cond(old_bases, after.bases)
    out = [ret, _obs(after), [_cont_table(b) for b in after.bases]]
    cond2 = 1.0
    if not s['lowers']:
        out.append('skip')
    else:
        try:
            l = after.lower_order(*s['lowers'])
            cond2 = _cond(after.bases, l.bases)
            out.append([_ret(l, after), _obs(l), [_cont_table(b) for b in l.bases]])
        except Exception as e:  # noqa: BLE001
            out.append(Err(exc_kind(e)))
    return {'v': out, 'cond': cond1, 'cond_lower': cond1 * cond2}


def _undoes(s):
    am = _norm_amounts(s)
    pd = len(s['obj']['bases'])
    lows = s['lowers'] * pd if len(s['lowers']) == 1 else s['lowers']
    return am is not None and lows == am


def _cmp_obj(iv, mv, rtol, path):
    """[bases, shape, flat, rational]: everything exact except the control points."""
    if not isinstance(mv, list) or len(mv) != 4 or not isinstance(iv, list):
        return diff(iv, mv, 0, 0, path=path)
    for i in (0, 1, 3):
        d = diff(iv[i], mv[i], 0.0, 0.0, path='%s[%d]' % (path, i))
        if d:
            return d
    return diff(iv[2], mv[2], rtol, ATOL, path=path + '[2]')


def compare(s, iv, mv):
    if isinstance(iv, Err) or not isinstance(iv, dict):
        return diff(iv, mv, 0.0, 0.0)
    v = iv['v']
    if s['kind'] == 'basis':
        return diff(v, mv, 0.0, 0.0)
    if is_err(mv) or not isinstance(mv, list) or len(mv) != 5:
        return diff(v, mv, 0.0, 0.0)
    # the model's own exact check of the hypothesis H_incl / of the left-inverse claim
    if mv[4] not in ('skip', 'exact-same'):
        return '$.exact: the model (exact rationals) finds the elevated map %s' % mv[4]
    if isinstance(mv[3], list) and len(mv[3]) == 4 and mv[3][3] not in ('skip', 'exact-same') and _undoes(s):
        return '$.lower.exact: in the model lower_order(raise_order(obj)) has control points that are %s' % mv[3][3]
    d = diff(v[0], mv[0], 0, 0, path='$.ret')
    d = d or _cmp_obj(v[1], mv[1], RTOL * iv['cond'], '$.after')
    d = d or diff(v[2], mv[2], 0, 0, path='$.continuity')
    if d:
        return d
    lv, lm = v[3], mv[3]
    if isinstance(lv, Err) or is_err(lm) or not isinstance(lm, list) or not isinstance(lv, list):
        return diff(lv, lm, 0, 0, path='$.lower')
    d = diff(lv[0], lm[0], 0, 0, path='$.lower.ret')
    d = d or _cmp_obj(lv[1], lm[1], RTOL * iv['cond_lower'], '$.lower.obj')
    return d or diff(lv[2], lm[2], 0, 0, path='$.lower.continuity')


# ---------------------------------------------------------------------------------------------
# oracle

def _norm_amounts(s):
    """The per-direction amounts the call asks for, from the documented meaning of the arguments
    (None = the call must raise ValueError)."""
    o = s['obj']
    pd = len(o['bases'])
    a = list(s['amounts'])
    if s['form'] == 'set':
        tgt = a * pd if len(a) == 1 else a
        am = [t - p for t, p in zip(tgt, _orders(o))]
        return None if any(x < 0 for x in am) else am
    if len(a) == 1:
        if s['direction'] is None or pd == 1 and s['form'] == 'raise':
            am = a * pd            # Curve.raise_order documents no meaning for `direction`
        else:
            if s['direction'] not in range(pd):
                return None
            am = [0] * pd
            am[s['direction']] = a[0]
    else:
        am = a
    return None if any(x < 0 for x in am) else am


def _sample_params(b):
    """p+1 points per span and every knot of the domain of basis spec b."""
    info = gen.basis_info(b)
    ks = [x for x in gen.distinct_knots(b) if info['start'] <= x <= info['end']]
    pts = list(ks)
    p = b['order']
    for x, y in zip(ks[:-1], ks[1:]):
        for j in range(1, p + 2):
            pts.append(x + (y - x) * j / (p + 2))
    return sorted(pts)


def _rows(b, pts, right):
    """Exact Cox-de Boor rows; the left limit does not exist at the start of a non-periodic domain."""
    start = gen.basis_info(b)['start']
    return np.array([[float(x) for x in exact.basis_row(b, t, 0, right or (b['periodic'] < 0 and t == start))] for t in pts])


def _grid(ospec, params, rights):
    """Tensor-product NURBS sum from exact Cox-de Boor rows (rows exact, contraction in doubles)."""
    t = np.array(ospec['cps'], dtype=float)
    for ax, (b, pts, r) in enumerate(zip(ospec['bases'], params, rights)):
        N = _rows(b, pts, r)
        t = np.moveaxis(np.tensordot(N, t, axes=(1, ax)), 0, ax)
    if ospec['rational']:
        t = t[..., :-1] / t[..., -1:]
    return t


def _close(a, b, rtol):
    a = np.asarray(a, dtype=float)
    b = np.asarray(b, dtype=float)
    if a.shape != b.shape:
        return False
    scale = max(1.0, float(np.max(np.abs(b))) if b.size else 1.0)
    return bool(np.all(np.abs(a - b) <= 1e-11 + rtol * scale))


def _same_map(sp, before_spec, obj, what, cond, fails, exact_pts=2):
    """obj (a real object) evaluates to the map defined by before_spec."""
    bb = before_spec['bases']
    pd = len(bb)
    params = [_sample_params(b) for b in bb]
    if pd == 3:
        params = [p[::2] + [p[-1]] if len(p) > 6 else p for p in params]
    rtol = 1e-9 * max(1.0, cond)
    want_r = _grid(before_spec, params, [True] * pd)
    want_l = _grid(before_spec, params, [False] * pd)
    shape = tuple(len(p) for p in params)
    try:
        got = np.asarray(obj.evaluate(*params)).reshape(shape + (-1,))
    except Exception as e:  # noqa: BLE001
        fails.append('%s: evaluate raised %s: %s' % (what, type(e).__name__, str(e)[:80]))
        return
    if not _close(got, want_r, rtol):
        i = np.unravel_index(np.argmax(np.abs(got - want_r).max(axis=-1)), shape)
        fails.append('%s: evaluated map changed at %r: %r, was %r' % (
            what, [params[k][i[k]] for k in range(pd)], got[i].tolist(), want_r[i].tolist()))
        return
    # the definition on the new knots / control points, from both sides
    aspec = gen.spec_of_object(obj)
    if np.asarray(aspec['cps']).ndim != pd + 1:
        return
    for rights, want in (([True] * pd, want_r), ([False] * pd, want_l)):
        g = _grid(aspec, params, rights)
        if not _close(g, want, rtol):
            fails.append('%s: NURBS sum of the new control points differs from the original map (from the %s)' % (
                what, 'right' if rights[0] else 'left'))
            return
    # a few points completely in exact arithmetic on the original spec
    idxs = list(itertools.product(*[range(len(p)) for p in params]))
    step = max(1, len(idxs) // exact_pts)
    for idx in idxs[::step][:exact_pts]:
        w = exact.nurbs_point(before_spec, [params[k][idx[k]] for k in range(pd)])
        if not exact.close(got[idx], w, rtol, 1e-10):
            fails.append('%s: evaluated point differs from the exact NURBS definition of the original' % what)
            return


def _tables_equal(sp, before_bases, bases_after, what, fails):
    """start/end/periodic and continuity at every knot of the domain unchanged."""
    for d, (b0s, b1) in enumerate(zip(before_bases, bases_after)):
        b0 = gen.mk_basis(sp, b0s)
        if b0.start() != b1.start() or b0.end() != b1.end():
            fails.append('%s: parametric domain changed in direction %d' % (what, d))
        if b0.periodic != b1.periodic:
            fails.append('%s: periodicity changed in direction %d' % (what, d))
        for k in b0.knot_spans():
            try:
                c1 = b1.continuity(k)
            except Exception as e:  # noqa: BLE001
                fails.append('%s: continuity(%r) raised %s' % (what, k, type(e).__name__))
                break
            if b0.continuity(k) != c1:
                fails.append('%s: continuity at knot %r changed from %r to %r (direction %d)' % (what, k, b0.continuity(k), c1, d))
                break


def oracle(sp, s):
    fails = []
    if s['kind'] == 'basis':
        b = gen.mk_basis(sp, s['basis'])
        a = s['amount']
        try:
            b1 = b.raise_order(a)
        except ValueError:
            return [] if a < 0 else ['BSplineBasis.raise_order(%d) raised ValueError' % a]
        except Exception as e:  # noqa: BLE001
            return ['BSplineBasis.raise_order(%d) raised %s' % (a, type(e).__name__)]
        if a < 0:
            return ['BSplineBasis.raise_order(%d) did not raise ValueError' % a]
        if b1.order != b.order + a:
            fails.append('order %d after raising %d by %d' % (b1.order, b.order, a))
        _tables_equal(sp, [s['basis']], [b1], 'raise_order', fails)
        if b1.num_functions() < 1:
            fails.append('elevated basis has no functions')
        l = s['lower']
        if l is None:
            return fails
        legal = (l >= 0 and b1.order - l >= 2)
        try:
            b2 = b1.lower_order(l)
        except ValueError:
            if legal:
                fails.append('lower_order(%d) of the elevated basis raised ValueError' % l)
            elif l == a and l >= 0:
                fails.append('lower_order(%d) does not undo raise_order(%d): ValueError (order %d)' % (l, a, b.order))
            return fails
        except Exception as e:  # noqa: BLE001
            fails.append('lower_order(%d) of the elevated basis raised %s: %s' % (l, type(e).__name__, str(e)[:60]))
            return fails
        if not legal:
            fails.append('lower_order(%d) on order %d did not raise ValueError' % (l, b1.order))
        elif l == a:
            if s.get('twin'):
                # round-off twins are ONE knot for the library: lower_order may return either representative
                same_knots = len(b2.knots) == len(b.knots) and bool(np.all(np.abs(b2.knots - b.knots) <= 1e-14 * (1 + np.abs(b.knots))))
            else:
                same_knots = len(b2.knots) == len(b.knots) and not np.any(b2.knots != b.knots)
            if b2.order != b.order or b2.periodic != b.periodic or not same_knots:
                fails.append('lower_order(raise_order(b, %d), %d) is not b: %r' % (a, a, b2.knots.tolist()))
        return fails

    ospec = s['obj']
    pd = len(ospec['bases'])
    am = _norm_amounts(s)
    o = gen.mk_object(sp, ospec)
    try:
        r = _call_raise(sp, o, s)
    except ValueError as e:
        if am is None:
            return []
        return ['%s%r raised ValueError: %s' % (s['form'], tuple(s['amounts']), str(e)[:80])]
    except Exception as e:  # noqa: BLE001
        return ['%s%r raised %s: %s' % (s['form'], tuple(s['amounts']), type(e).__name__, str(e)[:80])]
    if am is None:
        return ['%s%r (direction=%r) did not raise ValueError' % (s['form'], tuple(s['amounts']), s['direction'])]
    if r is not o:
        fails.append('%s%r did not return the receiver (returned %s)' % (
            'set_order' if s['form'] == 'set' else 'raise_order', tuple(s['amounts']), 'None' if r is None else 'another object'))
    after = o
    got_orders = [b.order for b in after.bases]
    if len(got_orders) != pd or got_orders != [p + a for p, a in zip(_orders(ospec), am)]:
        fails.append('orders %r after raising %r by %r' % (got_orders, _orders(ospec), am))
    if after.rational != ospec['rational'] or after.pardim != pd:
        fails.append('pardim/rational changed: pardim %r' % (after.pardim,))
    if tuple(after.controlpoints.shape[:-1]) != tuple(b.num_functions() for b in after.bases) and after.controlpoints.ndim == pd + 1:
        fails.append('control net shape %r does not match the bases' % (after.controlpoints.shape,))
    _tables_equal(sp, ospec['bases'], after.bases, 'raise', fails)
    cond1 = _cond(None, after.bases)
    _same_map(sp, ospec, after, 'raise', cond1, fails)
    if not s['lowers']:
        return fails
    # lower_order by the same amounts is a left inverse
    lows = s['lowers'] * pd if len(s['lowers']) == 1 else s['lowers']
    undo = (lows == am)
    try:
        l = after.lower_order(*s['lowers'])
    except Exception as e:  # noqa: BLE001
        if undo:
            fails.append('lower_order%r of the elevated object raised %s: %s' % (tuple(s['lowers']), type(e).__name__, str(e)[:80]))
        return fails
    if not undo:
        return fails
    if l is after or l is None:
        fails.append('lower_order did not return a new object')
        return fails
    if [b.order for b in l.bases] != _orders(ospec):
        fails.append('lower_order: orders %r, original %r' % ([b.order for b in l.bases], _orders(ospec)))
        return fails
    for d, (b0, b2) in enumerate(zip(ospec['bases'], l.bases)):
        if len(b2.knots) != len(b0['knots']) or np.any(b2.knots != np.array(b0['knots'])) or b2.periodic != b0['periodic']:
            fails.append('lower_order: knot vector of direction %d is not the original: %r' % (d, b2.knots.tolist()))
            return fails
    _same_map(sp, ospec, l, 'lower(raise)', cond1 * _cond(None, l.bases), fails)
    return fails


# ---------------------------------------------------------------------------------------------
# classification, tags

def classify(s, res=None):
    msgs = (res or {}).get('oracle') or []
    txt = ' '.join(msgs)
    if s['kind'] == 'basis':
        if s['basis']['periodic'] >= 0 and 'NameError' in txt:
            return 'periodic-lower-order-nameerror'
        if s['basis']['order'] == 1 and 'does not undo' in txt:
            return 'lower-order-to-constants-rejected'
        return None
    o = s['obj']
    pd = len(o['bases'])
    if pd == 1 and np.asarray(o['cps']).shape[-1] == 1 and not o['rational']:
        return 'curve-dimension1-controlpoints-flattened'
    if 'ZeroDivisionError' in txt:
        return 'order1-direction-greville-zerodivision'
    if 'did not return the receiver (returned None)' in txt and pd == 1 and len(msgs) == 1:
        return 'curve-raise-order-zero-returns-none'
    if 'NameError' in txt:
        return 'periodic-lower-order-nameerror'
    if 'cannot lower order to less than linears' in txt:
        return 'lower-order-to-constants-rejected'
    return None


def tags(s, res):
    if s['kind'] == 'basis':
        b = s['basis']
        out = ['kind=basis', 'basis:p=%d' % b['order'], 'basis:k=%d' % b['periodic'], 'basis:amount=%d' % s['amount']]
        return out
    o = s['obj']
    pd = len(o['bases'])
    out = ['kind=obj', 'pardim=%d' % pd, 'form=' + s['form']]
    if o['rational']:
        out.append('rational')
    out.append('periodic-dir' if any(b['periodic'] >= 0 for b in o['bases']) else 'open-only')
    if any(b['order'] == 1 for b in o['bases']):
        out.append('order1-dir')
    for b in o['bases']:
        ks = b['knots']
        info = gen.basis_info(b)
        if any(ks.count(x) >= 2 for x in set(ks) if info['start'] < x < info['end']):
            out.append('interior-mult>=2')
            break
    a = s['amounts']
    if s['form'] != 'set':
        out.append('args=direction' if s['direction'] is not None else 'args=single' if len(a) == 1 and pd > 1 else 'args=tuple')
    am = _norm_amounts(s)
    if s['form'] == 'set' and len(a) == 1 and pd > 1 and len(set(_orders(o))) > 1:
        out.append('set-single-unequal' if am is not None else 'set-single-unequal-lowering')
    if am is None:
        if s['form'] == 'set':
            out.append('set-lowering')
        elif any(x < 0 for x in a):
            out.append('negative')
        else:
            out.append('bad-direction')
    else:
        out.append('all-zero' if not any(am) else 'amount=%d' % max(am))
        if any(am) and 0 in am:
            out.append('some-zero')
    iv = res.get('impl') if res else None
    if isinstance(iv, dict):
        v = iv['v']
        out.append('ret=' + str(v[0]))
        if isinstance(v[3], list):
            out.append('lower=ok')
        elif isinstance(v[3], Err):
            out.append('lower=' + v[3].kind)
        c = iv.get('cond', 1.0)
        out.append('cond<1e2' if c < 1e2 else 'cond<1e4' if c < 1e4 else 'cond>=1e4')
    elif isinstance(iv, Err):
        out.append('raises=' + iv.kind)
    mv = res.get('model') if res else None
    if isinstance(mv, list) and len(mv) == 5:
        out.append('model-exact-map=' + str(mv[4]))
        if isinstance(mv[3], list) and len(mv[3]) == 4:
            out.append('model-exact-lower=' + str(mv[3][3]))
    return out


def nontrivial(s, res):
    if s['kind'] == 'basis':
        return s['amount'] > 0
    am = _norm_amounts(s)
    return bool(am) and any(am)
