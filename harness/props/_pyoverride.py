"""Source-derived obligations for the `Curve` / `Surface` OVERRIDES of `SplineObject` methods (work package t4).

`regenerate_pyoverride(sp, lean_dir)` is meant to be called from the `regenerate` hook of the properties whose model
rests on the hand-written closed forms and override semantics (C03: `Curve.derivative`, `Surface.derivative`;
C02: `Curve.evaluate`; C15: `Surface.const_par_curve`; C16: the derivative-based measures):

1. `harness/props/_pyobject.py` (t3) is run first: the overrides call `super().derivative`, `_validate_domain`,
   `evaluate` (module level), `pardim`, which are the translated `SplineObject` definitions;
2. the method bodies are re-translated from the overlay sources `splipy/curve.py`, `splipy/surface.py`
   (`harness/translate/override_translate.py`) into `lean/Splipy/Generated/PyOverride.lean`;
3. `lake build Splipy.Generated.PyOverride` — a generated definition that does not elaborate is a failed obligation of
   its method (the definition is then left out and the rest rebuilt);
4. `lake build Splipy.Lemmas.PyOverrideEq` — the committed equality theorems
   `PyOverride_<Class>_<method>_eq : Generated.PyOverride.<Class>_<method> (ofObj o) .. = <hand model> o ..` are
   re-checked against the fresh definitions; an error inside the section `### method: <Class>.<method>` of that file
   (or in a section it depends on) is a failed obligation of that method;
5. `#print axioms` of every theorem must stay within {propext, Classical.choice, Quot.sound}.

One obligation per translated specialisation (`override_translate.ORDER`): `ok` = translated AND elaborated AND its
theorems checked AND the t3 obligations of the `SplineObject` methods it calls hold.  Fail-closed: untranslatable
syntax, a missing method, a changed default argument, a changed module-level binding, a changed pinned `utils` helper,
a build that cannot be interpreted — all give `ok = False`.  Results are cached by the hash of the inputs under
`.cache/pyoverride`.
"""
import hashlib
import json
import os
import re
import subprocess
import sys
import tempfile

sys.path.insert(0, os.path.dirname(os.path.dirname(os.path.abspath(__file__))))
from translate import override_translate as T  # noqa: E402
from props import _pyobject as P3  # noqa: E402

GEN_REL = os.path.join('Splipy', 'Generated', 'PyOverride.lean')
EQ_REL = os.path.join('Splipy', 'Lemmas', 'PyOverrideEq.lean')
LIB_REL = os.path.join('Splipy', 'Lemmas', 'PyOverrideLib.lean')
GEN_MOD = 'Splipy.Generated.PyOverride'
EQ_MOD = 'Splipy.Lemmas.PyOverrideEq'
ALLOWED_AXIOMS = {'propext', 'Classical.choice', 'Quot.sound'}
PREFIX = 'PyOverride_'

# key (override_translate.ORDER) -> (section of PyOverrideEq.lean, main theorem)
THEOREM = {
    'Curve.evaluate': ('Curve.evaluate', 'PyOverride_Curve_evaluate_eq'),
    'Curve.derivative': ('Curve.derivative', 'PyOverride_Curve_derivative_eq'),
    'Curve.derivative_seq': ('Curve.derivative_seq', 'PyOverride_Curve_derivative_seq_eq'),
    'Surface.derivative': ('Surface.derivative', 'PyOverride_Surface_derivative_eq'),
    'Surface.derivative_seq': ('Surface.derivative_seq', 'PyOverride_Surface_derivative_seq_eq'),
    'Surface.const_par_curve': ('Surface.const_par_curve', 'PyOverride_Surface_const_par_curve_eq'),
}
# further theorems audited together with the main ones
EXTRA = {
    'Curve.derivative': ('PyOverride_Curve_derivative_closed_eq', 'PyOverride_Curve_derivative_generic_eq'),
    'Surface.derivative': ('PyOverride_Surface_derivative_closed_eq', 'PyOverride_Surface_derivative_generic_eq'),
    'Surface.derivative_seq': ('PyOverride_Surface_derivative_seq_closed_eq', 'PyOverride_Surface_derivative_seq_generic_eq'),
    'Surface.const_par_curve': ('PyOverride_Surface_const_par_curve_model_eq',),
}
GUARDS = {
    'Curve.evaluate': 'a curve: 2-d control net, exactly one basis, ncomp >= 1, ONE positional parameter (the code ignores '
                      'further ones and the `tensor` argument); equal to Obj.evaluate (generic model) + squeeze',
    'Curve.derivative': 'a curve: 2-d control net, exactly one basis, ncomp >= 1; d an int >= 0, above a bool; generic path '
                        '(not rational or d < 2 or d > 3): guards of PyObject_derivative_eq (non-empty parameter list when '
                        'the basis is not periodic); closed forms d = 2, 3: NO domain check and NO snap in the code (nor in '
                        'the model): equal to Obj.curveDerivativeWith curveOutcome + squeeze',
    'Curve.derivative_seq': 'd a non-empty sequence of ints >= 0, above a ONE-element sequence; otherwise as Curve.derivative; '
                            'equal to Obj.curveDerivativeWith curveOutcome (.lst ..) (.seq ..) + squeeze',
    'Surface.derivative': 'a surface: 3-d control net, exactly two bases, ncomp >= 1; d a PAIR of ints >= 0, above a bool, '
                          'tensor=True; generic path: guards of PyObject_derivative_eq; closed forms (seven multi-indices of '
                          'total order 2, 3): no domain check / snap; equal to Obj.surfaceDerivativeWith surfaceOutcome + squeeze',
    'Surface.derivative_seq': 'as Surface.derivative with above a PAIR of bools (one side per direction)',
    'Surface.const_par_curve': 'a surface: 3-d control net, exactly two bases, ncomp >= 1; each basis has as many functions as '
                               'the net has points in its direction (MODEL/CODE GAP: the Curve(..) constructor reshapes cp to '
                               '(n, ncomps) and raises ValueError otherwise, Obj.constParCurve does not check); equal to '
                               'Obj.constParCurve mapped through ofObj',
}
# translated and elaborated, no equality theorem (yet)
TRANSLATION_ONLY = ()

_MEM = {}
_read = P3._read
_write_if_changed = P3._write_if_changed
_lake_build = P3._lake_build
_errors = P3._errors
_sections = P3._sections
_section_deps = P3._section_deps


def _cache_dir():
    verif = os.path.dirname(os.path.dirname(os.path.dirname(os.path.abspath(__file__))))
    d = os.path.join(verif, '.cache', 'pyoverride')
    os.makedirs(d, exist_ok=True)
    return d


def _print_axioms(lean_dir, names):
    from vlib.model import _lean_env
    src = 'import %s\n' % EQ_MOD + ''.join('#print axioms %s\n' % n for n in names)
    with tempfile.NamedTemporaryFile('w', suffix='.lean', delete=False, dir=tempfile.gettempdir()) as f:
        f.write(src)
        path = f.name
    try:
        r = subprocess.run(['lean', path], cwd=lean_dir, env=_lean_env(), stdout=subprocess.PIPE,
                           stderr=subprocess.STDOUT, text=True, timeout=1200)
    finally:
        os.unlink(path)
    out = r.stdout
    res = {n: None for n in names}
    for m in re.finditer(r"'([^']+)' depends on axioms: \[([^\]]*)\]", out, flags=re.S):
        res[m.group(1)] = sorted(a.strip() for a in m.group(2).replace('\n', ' ').split(',') if a.strip())
    for m in re.finditer(r"'([^']+)' does not depend on any axioms", out):
        res[m.group(1)] = []
    return res


def _keys():
    return [k for k in T.ORDER]


def _run(srcs, lean_dir):
    """Translate, build, check.  Returns (translation result, {key: reason of failure}, axioms, notes, eq build ok)."""
    gen_path = os.path.join(lean_dir, GEN_REL)
    eq_text = _read(os.path.join(lean_dir, EQ_REL))
    notes = []
    stub = set()
    elab_fail = {}
    for _attempt in range(6):
        r = T.translate(srcs, stub=tuple(stub))
        _write_if_changed(gen_path, r['lean'])
        ok, log, secs = _lake_build(lean_dir, GEN_MOD)
        notes.append('build %s: %s in %.1fs' % (GEN_MOD, 'ok' if ok else 'FAILED', secs))
        if ok:
            break
        errs = _errors(log, GEN_REL)
        hit = set()
        for ln, msg in errs:
            for key, info in r['methods'].items():
                if info['lines'] and info['lines'][0] <= ln <= info['lines'][1]:
                    hit.add(key)
                    elab_fail.setdefault(key, 'generated definition does not elaborate: ' + msg)
        if not hit:
            tail = ' '.join(log.split())[-400:]
            return r, {k: 'generated module does not build: ' + tail for k in r['methods']}, {}, notes, None
        stub |= hit
    else:
        return r, {k: 'generated module does not build after leaving out %s' % sorted(stub) for k in r['methods']}, {}, notes, None
    failed = {}
    for key, info in r['methods'].items():
        if key in elab_fail:
            failed[key] = elab_fail[key]
        elif not info['ok']:
            failed[key] = info['detail']
    secs_ = _sections(eq_text)
    deps = _section_deps(eq_text, secs_)
    have_sections = {name for _, _, name in secs_ if name}
    ok, log, secs = _lake_build(lean_dir, EQ_MOD)
    notes.append('build %s: %s in %.1fs' % (EQ_MOD, 'ok' if ok else 'FAILED', secs))
    sec_failed = {}
    axioms = {}
    if not ok:
        errs = _errors(log, EQ_REL)
        if not errs:
            tail = ' '.join(log.split())[-400:]
            sec_failed = {name: 'equality module does not build: ' + tail for name in have_sections}
        for ln, msg in errs:
            where = [name for a, b, name in secs_ if a <= ln <= b]
            name = where[0] if where else None
            if name is None:
                for s in have_sections:
                    sec_failed.setdefault(s, 'a helper lemma of PyOverrideEq.lean fails (line %d): %s' % (ln, msg))
            else:
                sec_failed.setdefault(name, 'PyOverrideEq.lean:%d: %s' % (ln, msg))
        for name in list(have_sections):
            bad = sorted(d for d in deps.get(name, ()) if d in sec_failed and 'depends on' not in sec_failed[d])
            if name not in sec_failed and bad:
                sec_failed[name] = 'depends on the failed obligation(s) %s' % ', '.join(bad)
    else:
        names = sorted({thm for k, (_, thm) in THEOREM.items() if k in r['methods'] and k not in TRANSLATION_ONLY}
                       | {t for k, v in EXTRA.items() if k in r['methods'] for t in v})
        axioms = _print_axioms(lean_dir, names)
    for key in r['methods']:
        if key in failed or key in TRANSLATION_ONLY:
            continue
        sec, thm = THEOREM.get(key, (None, None))
        if sec is None or sec not in have_sections:
            failed[key] = 'no section `### method: %s` in %s' % (key, EQ_REL)
        elif sec in sec_failed:
            failed[key] = sec_failed[sec]
        elif ok:
            ax = axioms.get(thm)
            if ax is None:
                failed[key] = 'theorem %s not found in the built module' % thm
            elif not set(ax) <= ALLOWED_AXIOMS:
                failed[key] = 'theorem %s uses axioms %s' % (thm, ','.join(sorted(set(ax) - ALLOWED_AXIOMS)))
            else:
                for ex in EXTRA.get(key, ()):
                    axx = axioms.get(ex)
                    if axx is None or not set(axx) <= ALLOWED_AXIOMS:
                        failed[key] = 'theorem %s did not check or uses other axioms (%r)' % (ex, axx)
    return r, failed, axioms, notes, ok


MODEL_FILES = P3.MODEL_FILES + ('Splipy/Model/DerivSpline.lean', 'Splipy/Model/Sections.lean',
                                'Splipy/Lemmas/PyObjectLib.lean', 'Splipy/Lemmas/PyObjectEq.lean',
                                'Splipy/Generated/PyObject.lean')


def _sources(sp):
    root = os.path.dirname(os.path.abspath(sp.__file__))
    srcs = {k: _read(os.path.join(root, v)) for k, v in T.FILES.items()}
    srcs['utils'] = _read(os.path.join(root, 'utils', '__init__.py'))
    srcs['object'] = _read(os.path.join(root, 'splineobject.py'))      # pinned: the `shape` property
    return srcs


def _obligations(r, failed, axioms, t3):
    """t3: {PyObject key: obligation} of the SplineObject methods."""
    obl = []
    for k in _keys():
        info = r['methods'].get(k)
        if info is None:
            continue
        sig = T.SIGS[k]
        thm = THEOREM.get(k, (None, None))[1] if k not in TRANSLATION_ONLY else None
        good = k not in failed
        detail = failed.get(k, '')
        if good:
            bad = sorted(c for c in info.get('calls', []) if c not in T.SIGS and not (t3.get(c) or {}).get('ok'))
            if bad:
                good = False
                detail = 'calls the translated SplineObject method(s) %s, whose t3 obligation fails' % ', '.join(bad)
        kind = 'translation-only' if k in TRANSLATION_ONLY else 'equality'
        if good and k in TRANSLATION_ONLY:
            detail = 'translation-only: translated (%s) and elaborates; no equality theorem' % info['detail']
        elif good:
            detail = 'translated (%s); %s checked against the fresh definition' % (info['detail'], ', '.join((thm,) + EXTRA.get(k, ())))
            if k in GUARDS:
                detail += ' [guards: %s]' % GUARDS[k]
        if good:
            detail += ' [idealised: %s]' % T.IDEALISED
        obl.append({'name': PREFIX + k.replace('.', '_'), 'ok': bool(good), 'class': None, 'detail': detail[:1100], 'theorem': thm,
                    'axioms': axioms.get(thm) if thm else None, 'python': '%s.%s' % (sig['cls'], sig['py']), 'kind': kind,
                    'key': k, 'calls': list(info.get('calls', []))})
    return obl


def regenerate_pyoverride(sp, lean_dir):
    """Returns the list of obligations (dicts with 'name', 'ok', 'detail', 'class', 'theorem', 'axioms', 'key')."""
    lean_dir = os.path.abspath(lean_dir)
    # 1. the SplineObject methods the overrides call (t3): regenerates Generated/PyObject.lean
    try:
        t3l = P3.regenerate_pyobject(sp, lean_dir)
    except Exception as e:  # noqa: BLE001
        t3l = []
        t3err = '%s: %s' % (type(e).__name__, e)
    else:
        t3err = None
    t3 = {o['name'][len('PyObject_'):]: o for o in t3l}
    srcs = _sources(sp)
    h = hashlib.sha256()
    for part in (srcs['curve'], srcs['surface'], srcs['utils'], srcs['object'], _read(os.path.join(lean_dir, EQ_REL)),
                 _read(os.path.join(lean_dir, LIB_REL)), _read(T.__file__), _read(T.O.__file__), _read(T.B.__file__),
                 _read(os.path.abspath(__file__)), lean_dir, json.dumps({k: bool(v.get('ok')) for k, v in sorted(t3.items())})):
        h.update(part.encode())
        h.update(b'\0')
    for rel in MODEL_FILES:
        h.update(_read(os.path.join(lean_dir, rel)).encode())
    key = h.hexdigest()[:24]
    gen_path = os.path.join(lean_dir, GEN_REL)
    if key in _MEM and os.path.exists(gen_path):
        return _MEM[key]
    cpath = os.path.join(_cache_dir(), key + '.json')
    if os.path.exists(cpath) and os.path.exists(gen_path) and not os.environ.get('VERIF_PYOVERRIDE_NOCACHE'):
        try:
            c = json.load(open(cpath))
            if c.get('generated_sha') == hashlib.sha256(_read(gen_path).encode()).hexdigest():
                _MEM[key] = c['obligations']
                return c['obligations']
        except Exception:  # noqa: BLE001
            pass

    def all_fail(msg):
        return [{'name': PREFIX + k.replace('.', '_'), 'ok': False, 'class': None, 'detail': msg,
                 'theorem': THEOREM.get(k, (None, None))[1], 'axioms': None, 'key': k, 'calls': []} for k in _keys()]
    if t3err:
        return all_fail('the t3 obligations (SplineObject) could not be computed: ' + t3err)
    if not srcs['curve'] or not srcs['surface'] or not srcs['utils']:
        return all_fail('splipy/curve.py, splipy/surface.py or splipy/utils/__init__.py not found in the overlay')
    try:
        r, failed, axioms, notes, built = _run(srcs, lean_dir)
    except SyntaxError as e:
        return all_fail('source does not parse: %s' % e)
    except T.Untranslatable as e:
        return all_fail('not translatable: %s' % e)
    except Exception as e:  # noqa: BLE001   (fail closed on a translator bug)
        return all_fail('translator error: %s: %s' % (type(e).__name__, e))
    obl = _obligations(r, failed, axioms, t3)
    _MEM[key] = obl
    try:
        with open(cpath, 'w') as f:
            json.dump({'obligations': obl, 'notes': notes, 'digest': r['digest'],
                       'generated_sha': hashlib.sha256(_read(gen_path).encode()).hexdigest()}, f, indent=1)
    except Exception:  # noqa: BLE001
        pass
    return obl


def obligations_for(sp, lean_dir, methods):
    """The obligations of the named specialisations (keys of override_translate.ORDER, e.g. 'Curve.derivative'; a bare
    `Class.method` selects every specialisation of that Python method) together with the override methods they call."""
    allo = regenerate_pyoverride(sp, lean_dir)
    by = {o['key']: o for o in allo}
    want, todo = set(), []
    for m in methods:
        ks = [k for k in by if k == m or (by[k].get('python') == m)]
        todo += ks or [m]
    while todo:
        m = todo.pop()
        if m in want:
            continue
        want.add(m)
        todo += [c for c in (by.get(m) or {}).get('calls', []) if c in T.SIGS and c not in want]
    out = [o for o in allo if o['key'] in want]
    for m in sorted(want - set(by)):       # fail closed on an unknown key
        out.append({'name': PREFIX + m.replace('.', '_'), 'ok': False, 'class': None, 'detail': 'no such translated method',
                    'theorem': None, 'axioms': None, 'key': m, 'calls': []})
    return out


# ---------------------------------------------------------------------------------------------------
# sensitivity self-test: a small source mutation must break the obligation(s) of the mutated Python method (all its
# specialisations) and nothing else; comment / whitespace / docstring changes must break nothing.
# name: (file key, old text, new text, Python methods whose obligations must fail)

CE, CD, CDS, SD, SDS = 'Curve.evaluate', 'Curve.derivative', 'Curve.derivative_seq', 'Surface.derivative', 'Surface.derivative_seq'
CPC = 'Surface.const_par_curve'
MUTS = {
 # --- Curve.evaluate
 'ce_weight_column':   ('curve', "                result[..., i] /= result[..., -1]\n            result = np.delete(result, self.dimension, -1)", "                result[..., i] /= result[..., 0]\n            result = np.delete(result, self.dimension, -1)", [CE]),
 'ce_delete_column':   ('curve', "            result = np.delete(result, self.dimension, -1)\n\n        # Squeeze the singleton dimensions if we only have one point\n        if squeeze:\n            result = result.reshape(self.dimension)", "            result = np.delete(result, 0, -1)\n\n        # Squeeze the singleton dimensions if we only have one point\n        if squeeze:\n            result = result.reshape(self.dimension)", [CE]),
 'ce_no_validate':     ('curve', "        self._validate_domain(*params)\n\n        # Evaluate the derivatives of the corresponding bases at the corresponding points\n        # and build the result array\n        N = self.bases[0]", "\n        # Evaluate the derivatives of the corresponding bases at the corresponding points\n        # and build the result array\n        N = self.bases[0]", [CE]),
 'ce_derivative_order':('curve', "N = self.bases[0].evaluate(params[0], sparse=True)", "N = self.bases[0].evaluate(params[0], 1, sparse=True)", [CE]),
 # --- Curve.derivative (both spellings are the same Python method)
 'cd2_dropped_factor': ('curve', "result[:, i] = (d2[:, i] * W * W - 2 * W1 *", "result[:, i] = (d2[:, i] * W * W - W1 *", [CD, CDS]),
 'cd2_sign':           ('curve', "(d1[:, i] * W - d0[:, i] * W1) - d0[:, i] * W2 * W) / W / W / W", "(d1[:, i] * W - d0[:, i] * W1) + d0[:, i] * W2 * W) / W / W / W", [CD, CDS]),
 'cd2_power':          ('curve', "- d0[:, i] * W2 * W) / W / W / W", "- d0[:, i] * W2 * W) / W / W", [CD, CDS]),
 'cd3_factor':         ('curve', "result[:, i] = (G1*W - 3*G*W1) /W/W/W/W", "result[:, i] = (G1*W - 2*G*W1) /W/W/W/W", [CD, CDS]),
 'cd3_H2_sign':        ('curve', "H2 =  d3[:,i]*W + d2[:,i]*W1 - d1[:,i]*W2 - d0[:,i]*W3", "H2 =  d3[:,i]*W - d2[:,i]*W1 - d1[:,i]*W2 - d0[:,i]*W3", [CD, CDS]),
 'cd3_G1_term':        ('curve', "G1 =  H2*W - 2*H*W2 - H1*W1", "G1 =  H2*W - 2*H*W2 - H1*W2", [CD, CDS]),
 'cd_dispatch_bound':  ('curve', "if not self.rational or d < 2 or d > 3:", "if not self.rational or d < 2 or d > 2:", [CD, CDS]),
 'cd_jet_order':       ('curve', "d1 = np.array(self.bases[0].evaluate(t, 1, above) @ self.controlpoints)", "d1 = np.array(self.bases[0].evaluate(t, 2, above) @ self.controlpoints)", [CD, CDS]),
 'cd_jet_side':        ('curve', "d0 = np.array(self.bases[0].evaluate(t, 0, above) @ self.controlpoints)", "d0 = np.array(self.bases[0].evaluate(t, 0) @ self.controlpoints)", [CD, CDS]),
 'cd_weight_column':   ('curve', "W1 = d1[:, -1]  # W'(t)", "W1 = d1[:, 0]  # W'(t)", [CD, CDS]),
 'cd_squeeze_row':     ('curve', "result = np.array(result[0, :]).reshape(self.dimension)", "result = np.array(result[-1, :]).reshape(self.dimension)", [CD, CDS]),
 'cd_above_index':     ('curve', "            above = above[0]\n        t = ensure_listlike(t)", "            above = above[-1]\n        t = ensure_listlike(t)", [CDS]),
 'cd_default_arg':     ('curve', "def derivative(self, t, d=1, above=True, tensor=True):", "def derivative(self, t, d=2, above=True, tensor=True):", [CD, CDS]),
 'curve_import_rebind':('curve', "from .utils import ensure_listlike, is_singleton", "from .utils import ensure_listlike, ensure_flatlist as is_singleton", [CE, CD, CDS]),
 # --- Surface.derivative
 'sd_11_dropped_factor': ('surface', "result[:,:,i] = (dH1dv*W - 2*H1*dWdv) /W/W/W", "result[:,:,i] = (dH1dv*W - H1*dWdv) /W/W/W", [SD, SDS]),
 'sd_20_wrong_G':      ('surface', "                result[:,:,i] = G1 /W/W/W\n", "                result[:,:,i] = G2 /W/W/W\n", [SD, SDS]),
 'sd_G1_factor':       ('surface', "G1   = dH1du*W - 2*H1*dWdu", "G1   = dH1du*W - H1*dWdu", [SD, SDS]),
 'sd_30_factor':       ('surface', "result[:,:,i] = (dG1du*W -3*G1*dWdu) /W/W/W/W", "result[:,:,i] = (dG1du*W -2*G1*dWdu) /W/W/W/W", [SD, SDS]),
 'sd_dG2du_factor':    ('surface', "dG2du   = d2H2duv*W + dH2dv*dWdu - 2*dH2du*dWdv - 2*H2*d2Wduv", "dG2du   = d2H2duv*W + dH2dv*dWdu - 2*dH2du*dWdv - H2*d2Wduv", [SD, SDS]),
 'sd_above_side':      ('surface', "dNvs = [self.bases[1].evaluate(v, d, above[1])", "dNvs = [self.bases[1].evaluate(v, d, above[0])", [SD, SDS]),
 'sd_dispatch_bound':  ('surface', "if not self.rational or np.sum(derivs) < 2 or np.sum(derivs) > 3:", "if not self.rational or np.sum(derivs) < 2 or np.sum(derivs) > 2:", [SD, SDS]),
 'sd_weight_component':('surface', "dWdv  = d0ud1v[:,:,-1]", "dWdv  = d1ud0v[:,:,-1]", [SD, SDS]),
 'sd_jet_order':       ('surface', "d2ud0v = evaluate([dNus[2], dNvs[0]], self.controlpoints, tensor)", "d2ud0v = evaluate([dNus[1], dNvs[0]], self.controlpoints, tensor)", [SD, SDS]),
 'sd_branch_table':    ('surface', "                elif derivs == (2,1):\n                    result[:,:,i] = (dG1dv*W -3*G1*dWdv) /W/W/W/W", "                elif derivs == (1,2):\n                    result[:,:,i] = (dG1dv*W -3*G1*dWdv) /W/W/W/W", [SD, SDS]),
 'sd_unknown_syntax':  ('surface', "        u = ensure_listlike(u)\n        v = ensure_listlike(v)\n        result = np.zeros", "        u = ensure_listlike(u)\n        while False: pass\n        v = ensure_listlike(v)\n        result = np.zeros", [SD, SDS]),
 'seeded_C03_2':       ('surface', ('patch', 'seeded/C03_2/patch.diff'), None, [SD, SDS]),
 'seeded_C03_7':       ('surface', ('patch', 'seeded/C03_7/patch.diff'), None, [SD, SDS]),
 # --- Surface.const_par_curve
 'cpc_mult_bound':     ('surface', "mult = min(b.continuity(knot), b.order-1)", "mult = min(b.continuity(knot), b.order)", [CPC]),
 'cpc_matmul_order':   ('surface', "            C = b.insert_knot(knot) @ C", "            C = C @ b.insert_knot(knot)", [CPC]),
 'cpc_row_index':      ('surface', "i  = max(bisect_left(b.knots, knot) - 1,0) % b.num_functions()", "i  = max(bisect_left(b.knots, knot),0) % b.num_functions()", [CPC]),
 'cpc_contract_axis':  ('surface', "cp = np.tensordot(C[i,:], self.controlpoints, axes=(0, direction))", "cp = np.tensordot(C[i,:], self.controlpoints, axes=(0, 1-direction))", [CPC]),
 'cpc_other_basis':    ('surface', "return Curve(self.bases[1-direction], cp, self.rational)", "return Curve(self.bases[direction], cp, self.rational)", [CPC]),
 'cpc_pardim':         ('surface', "direction = check_direction(direction, 2)", "direction = check_direction(direction, 3)", [CPC]),
 'cpc_pinned_shape':   ('object', "        return self.controlpoints.shape[:-1]", "        return self.controlpoints.shape[:-2]", [CPC]),
 'seeded_C15_1':       ('surface', ('patch', 'seeded/C15_1/patch.diff'), None, [CPC]),
 'surface_import_rebind': ('surface', "from .splineobject import SplineObject, evaluate", "from .splineobject import SplineObject, transpose_fix as evaluate", [SD, SDS, CPC]),
 # --- nothing may fail
 'comment_only':       ('curve', "        # Evaluate the derivatives of the corresponding bases at the corresponding points\n        # and build the result array\n        N = self.bases[0]", "        # evaluate the basis functions   \n        N = self.bases[0]", []),
 'docstring_only':     ('surface', '"""  Evaluate the derivative of the surface at the given parametric values.', '"""  Evaluate a derivative of the surface at the given parametric values (reworded).', []),
 'whitespace_only':    ('curve', "        W  = d0[:, -1]  # W(t)", "        W = d0[:,-1]      # W(t)", []),
 'other_method':       ('curve', "        return nominator / np.power(magnitude, 2)", "        return nominator / np.power(magnitude, 3)", []),
}


def _apply_patch(text, patch_rel, fname):
    """Apply a seeded unified diff (relative to /verif) to the text of splipy/<fname>; None if it does not apply."""
    verif = os.path.dirname(os.path.dirname(os.path.dirname(os.path.abspath(__file__))))
    d = tempfile.mkdtemp(prefix='pyoverride-patch-')
    try:
        os.makedirs(os.path.join(d, 'splipy'))
        with open(os.path.join(d, 'splipy', fname), 'w', encoding='utf-8') as f:
            f.write(text)
        r = subprocess.run(['patch', '-p1', '-s', '-i', os.path.join(verif, patch_rel)], cwd=d, stdout=subprocess.PIPE,
                           stderr=subprocess.STDOUT, text=True)
        if r.returncode != 0:
            return None
        return _read(os.path.join(d, 'splipy', fname))
    finally:
        import shutil
        shutil.rmtree(d, ignore_errors=True)


def selftest(sp, lean_dir, names=None):
    """Runs every mutation of MUTS on the overlay's source *text* against a private copy of the lake project."""
    import shutil
    srcs = _sources(sp)
    tmp = tempfile.mkdtemp(prefix='pyoverride-selftest-')
    priv = os.path.join(tmp, 'lean')
    res = {}
    try:
        shutil.copytree(lean_dir, priv, symlinks=True)
        P3.regenerate_pyobject(sp, priv)
        r0, failed0, _a, _n, _ok = _run(srcs, priv)
        base_bad = [k for k in _keys() if k in failed0]
        print('%-26s %s failed=%s' % ('(unmutated)', 'as expected' if not base_bad else 'UNEXPECTED', base_bad), flush=True)
        res['(unmutated)'] = {'expected': [], 'failed': base_bad, 'as_expected': not base_bad}
        for nm, (which, old, new, methods) in MUTS.items():
            if names and nm not in names:
                continue
            text = srcs[which]
            if isinstance(old, tuple) and old[0] == 'patch':
                mtext = _apply_patch(text, old[1], T.FILES.get(which, 'splineobject.py'))
                if mtext is None:
                    res[nm] = {'expected': methods, 'failed': None, 'as_expected': False, 'note': 'patch does not apply'}
                    print('%-26s PATCH DOES NOT APPLY' % nm, flush=True)
                    continue
            elif text.count(old) < 1:
                res[nm] = {'expected': methods, 'failed': None, 'as_expected': False, 'note': 'pattern not found'}
                print('%-26s PATTERN NOT FOUND' % nm, flush=True)
                continue
            else:
                mtext = text.replace(old, new, 1)
            mut = dict(srcs)
            mut[which] = mtext
            try:
                r, failed, _ax, _notes, _ok = _run(mut, priv)
                bad = [k for k in _keys() if k in failed]
            except Exception as e:  # noqa: BLE001
                bad = list(_keys())
                failed = {k: '%s: %s' % (type(e).__name__, e) for k in bad}
            expect = sorted(methods)
            good = sorted(bad) == expect
            res[nm] = {'expected': expect, 'failed': bad, 'as_expected': good, 'why': {k: failed[k][:160] for k in bad[:3]}}
            print('%-26s %s expected=%s failed=%s' % (nm, 'as expected' if good else 'UNEXPECTED', expect, bad), flush=True)
            if not good:
                for k in bad[:3]:
                    print('    %s: %s' % (k, failed[k][:200]), flush=True)
    finally:
        shutil.rmtree(tmp, ignore_errors=True)
    return res


if __name__ == '__main__':
    from vlib import impl, model
    sp_, _info = impl.load()
    if '--selftest' in sys.argv:
        out = selftest(sp_, model.LEAN_DIR, [a for a in sys.argv[1:] if not a.startswith('--')])
        sys.exit(0 if all(v['as_expected'] for v in out.values()) else 1)
    for o in regenerate_pyoverride(sp_, model.LEAN_DIR):
        print('%-40s %-5s %-16s %s' % (o['name'], 'ok' if o['ok'] else 'FAIL', o.get('kind', ''), o['detail'][:170]))
