"""Source-derived obligations for the Cython kernel `splipy/basis_eval.pyx` (work package t2).

`regenerate_pyx(sp, lean_dir)` is called from the `regenerate` hooks of the properties that rest on
the hand-written Lean model of the kernel (C01, C20):

1. the CURRENT `basis_eval.pyx` of the implementation overlay is translated, keeping its imperative
   structure, into `lean/Splipy/Generated/Pyx.lean` (`harness/translate/pyx_translate.py`; written on
   every run, never committed; untranslatable source => a marker file without definitions);
2. `lean/Splipy/Lemmas/PyxEq.lean` — the equality theorems "generated imperative code = model
   `Splipy/Model/Basis.lean`" — is compiled against the fresh file and its theorems are audited
   (`#print axioms` within {propext, Classical.choice, Quot.sound}); when the module does not build,
   the file is elaborated once more with `#print axioms` appended, so that every theorem gets its own
   verdict (a theorem that fails, or rests on one that fails, shows `sorryAx`);
3. one obligation per function is returned: {'name', 'ok', 'detail'} with `ok` = translation succeeded
   AND every theorem listed for the function below checked.

The result is cached per (source digest, lean_dir) for the life of the process.
"""
import hashlib
import os
import re
import subprocess
import sys
import tempfile

_HARNESS = os.path.dirname(os.path.dirname(os.path.abspath(__file__)))
if _HARNESS not in sys.path:          # only needed when this file is run as a script
    sys.path.insert(0, _HARNESS)

from translate import pyx_translate as T  # noqa: E402

MODULE = 'Splipy.Lemmas.PyxEq'
EQ_FILE = os.path.join('Splipy', 'Lemmas', 'PyxEq.lean')
GEN_FILE = os.path.join('Splipy', 'Generated', 'Pyx.lean')
NS = 'Splipy.PyxEq.'
ALLOWED_AXIOMS = {'propext', 'Classical.choice', 'Quot.sound'}

# function -> theorems of Lemmas/PyxEq.lean that make up its obligation
THEOREMS = {
    'my_bisect_left': ['my_bisect_left_eq'],
    'my_bisect_right': ['my_bisect_right_eq'],
    'evaluate': ['evaluate_value_level', 'evaluate_deriv_level', 'evaluate_triangle', 'evaluate_point',
                 'evaluate_eq', 'evaluate_eq_of_valid', 'evaluate_defaults'],
    'snap': ['snap_eq'],
}
WHAT = {
    'my_bisect_left': 'generated while loop = model bisectLeft (fuel >= hi)',
    'my_bisect_right': 'generated while loop = model bisectRight (fuel >= hi)',
    'evaluate': 'in-place value/derivative levels = levelVal/levelDer on the old array; triangle = model triangle; '
                'main-loop body = evalAt; whole function = rows of evalRow (data, indices), indptr, shape; defaults',
    'snap': 'generated snap = model snap entry by entry',
}

_cache = {}


def _write_if_changed(path, text):
    old = open(path, encoding='utf-8').read() if os.path.exists(path) else None
    if old != text:
        os.makedirs(os.path.dirname(path), exist_ok=True)
        tmp = path + '.tmp%d' % os.getpid()
        with open(tmp, 'w', encoding='utf-8') as f:
            f.write(text)
        os.replace(tmp, path)
        return True
    return False


def _lake(lean_dir, targets, timeout=3600):
    r = subprocess.run(['lake', 'build'] + list(targets), cwd=lean_dir, stdout=subprocess.PIPE,
                       stderr=subprocess.STDOUT, text=True, timeout=timeout)
    return r.returncode == 0, r.stdout


def _lean_env(lean_dir):
    r = subprocess.run(['lake', 'env', 'printenv'], cwd=lean_dir, stdout=subprocess.PIPE, stderr=subprocess.PIPE, text=True)
    env = {}
    for ln in r.stdout.splitlines():
        if '=' in ln:
            k, v = ln.split('=', 1)
            env[k] = v
    return env or None


def _parse_axioms(out, names):
    res = {n: None for n in names}
    for m in re.finditer(r"'([^']+)' depends on axioms: \[([^\]]*)\]", out, flags=re.S):
        res[m.group(1)] = sorted(a.strip() for a in m.group(2).replace('\n', ' ').split(',') if a.strip())
    for m in re.finditer(r"'([^']+)' does not depend on any axioms", out):
        res[m.group(1)] = []
    return res


def _run_lean(lean_dir, text, timeout=1800):
    with tempfile.NamedTemporaryFile('w', suffix='.lean', delete=False, dir=tempfile.gettempdir()) as f:
        f.write(text)
        path = f.name
    try:
        r = subprocess.run(['lean', path], cwd=lean_dir, env=_lean_env(lean_dir), stdout=subprocess.PIPE,
                           stderr=subprocess.STDOUT, text=True, timeout=timeout)
    finally:
        os.unlink(path)
    return r.stdout


def _audit(lean_dir):
    """Returns ({qualified theorem: axioms or None}, note, first error text)."""
    names = [NS + t for ts in THEOREMS.values() for t in ts]
    ok, log = _lake(lean_dir, [MODULE])
    if ok:
        out = _run_lean(lean_dir, 'import %s\n' % MODULE + ''.join('#print axioms %s\n' % n for n in names))
        return _parse_axioms(out, names), 'module builds', ''
    # the module does not build: elaborate the file once with `#print axioms` appended; Lean goes on
    # after a failed declaration (it is admitted with `sorryAx`), so every theorem gets a verdict
    src = open(os.path.join(lean_dir, EQ_FILE), encoding='utf-8').read()
    imports = [i for i in re.findall(r'^import\s+(\S+)', src, flags=re.M) if i != 'Splipy.Generated.Pyx']
    okd, logd = _lake(lean_dir, imports + ['Splipy.Lemmas.PyxLib'])
    if not okd:
        return {n: None for n in names}, 'imports of PyxEq do not build', logd[-600:]
    okg, logg = _lake(lean_dir, ['Splipy.Generated.Pyx'])
    if not okg:
        return {n: None for n in names}, 'generated file does not compile', _first_error(logg)
    out = _run_lean(lean_dir, src + '\n' + ''.join('#print axioms %s\n' % n for n in names))
    return _parse_axioms(out, names), 'module does not build; per-theorem verdicts', _first_error(out) or _first_error(log)


def _first_error(log):
    m = re.search(r'error: (.*?)(?:\n\S|\Z)', log, flags=re.S)
    return (m.group(1).strip()[:400] if m else '')


def regenerate_pyx(sp, lean_dir):
    """Translate the overlay's basis_eval.pyx, write Generated/Pyx.lean, check the equality theorems.
    Returns the list of obligations [{'name', 'ok', 'detail'}] (one per function)."""
    path = os.path.join(os.path.dirname(sp.__file__), 'basis_eval.pyx')
    try:
        src = open(path, encoding='utf-8').read()
    except OSError as e:
        src = None
        reason = 'cannot read %s: %s' % (path, e)
    key = (hashlib.sha256((src or '').encode()).hexdigest(), os.path.abspath(lean_dir))
    if key in _cache:
        return [dict(o) for o in _cache[key]]
    translated, digest, reason_t, failed_fns = False, None, '', {}
    if src is not None:
        try:
            r = T.translate(src)
            text, digest, translated, failed_fns = r['lean'], r['digest'], True, r['failed']
        except T.Untranslatable as e:
            reason_t = 'basis_eval.pyx is outside the translated subset: %s' % e
            text = T.untranslatable_text(e)
    else:
        reason_t = reason
        text = T.untranslatable_text(reason)
    _write_if_changed(os.path.join(lean_dir, GEN_FILE), text)
    obligations = []
    if not translated:
        for f in T.FUNCS:
            obligations.append({'name': 'pyx:' + f, 'ok': False, 'detail': reason_t[:500]})
    else:
        ax, note, err = _audit(lean_dir)
        for f in T.FUNCS:
            if f in failed_fns:
                obligations.append({'name': 'pyx:' + f, 'ok': False,
                                    'detail': ('%s is outside the translated subset: %s' % (f, failed_fns[f]))[:500]})
                continue
            bad = []
            for t in THEOREMS[f]:
                a = ax.get(NS + t)
                if a is None:
                    bad.append('%s: did not check' % t)
                elif not set(a) <= ALLOWED_AXIOMS:
                    bad.append('%s: rests on %s' % (t, ','.join(sorted(set(a) - ALLOWED_AXIOMS))))
            if bad:
                detail = 'translation ok (digest of the generated Lean %s); %s; %s; first error: %s' % (digest, note, '; '.join(bad), err)
                obligations.append({'name': 'pyx:' + f, 'ok': False, 'detail': detail[:900]})
            else:
                obligations.append({'name': 'pyx:' + f, 'ok': True,
                                    'detail': 'translated from the overlay source (digest of the generated Lean %s) and proved equal to the model: %s [%s]'
                                              % (digest, WHAT[f], ', '.join(THEOREMS[f]))})
    _cache[key] = [dict(o) for o in obligations]
    return obligations


if __name__ == '__main__':   # manual use: python harness/props/_pyx.py   (honours VERIF_REPO / VERIF_LEAN_DIR)
    import json
    from vlib import impl, model
    sp_, _ = impl.load()
    res = regenerate_pyx(sp_, model.LEAN_DIR)
    print(json.dumps(res, indent=1))
    sys.exit(0 if all(o['ok'] for o in res) else 1)
