"""C11 — source-derived effect inference (AST abstract interpretation), regenerated on every run.

For every operation of the contract table whose source is a method of SplineObject / Curve /
Surface / Volume or a function of curve_factory / surface_factory / volume_factory, the body is
interpreted abstractly (flow-sensitive, callees of the library inlined context-sensitively) to
infer an *effect summary*:

  stores    through which PARAMETERS the body may write (attribute / subscript assignment,
            augmented assignment, `del`, calls of library methods that themselves store through
            their receiver, numpy/list methods that mutate in place, `+=` on a parameter object);
            a parameter that is first rebound to a clone (`x = x.clone()`) is a local: no store
  returns   what may be returned: a parameter itself, a *view/alias* of a parameter's state
            (attribute, slice, numpy view, shallow copy, container of its internals), a fresh value
            (copying constructor / clone / deepcopy / numpy arithmetic), None, or unknown
  captures  (t, s): a reference to state of parameter s is stored into an attribute of parameter t

Abstract values are sets of tags: ('P',k) the object passed as parameter k; ('R',k) mutable state
reachable from it; ('EP',k)/('ER',k) a fresh container holding the object / its internals;
('S',k) a shallow copy; F fresh; C a class/constructor; NONE; U unknown; NE "non-empty sequence
for pardim >= 1" (loops over an operand's bases run at least once: the property quantifies over
pardim 1-3).

Assumptions (the trusted part of this analysis, reported in the evidence):
  * numpy / scipy functions do not write their inputs, except the in-place forms listed in
    MUTATING_METHODS / `out=`; the functions in NP_VIEW_FUNCS / VIEW_METHODS return views, every
    other numpy function used here returns a fresh array;
  * method calls are resolved BY NAME over the analysed classes (receiver types are not inferred):
    the union over all definitions is taken, which over-approximates;
  * a call that cannot be resolved yields U (unknown) for its value and, when an argument carries
    operand state, an unknown store; unknown aspects stay premises of the dynamic experiment.
"""
import ast
import os

CLASS_FILES = [('SplineObject', 'splineobject.py'), ('Curve', 'curve.py'), ('Surface', 'surface.py'),
               ('Volume', 'volume.py'), ('BSplineBasis', 'basis.py'),
               # auxiliary classes (models and writers): instances have type 'aux'
               ('SplineModel', 'splinemodel.py'), ('ObjectCatalogue', 'splinemodel.py'), ('TopologicalNode', 'splinemodel.py'),
               ('Orientation', 'splinemodel.py'), ('NodeView', 'splinemodel.py'), ('VertexDict', 'splinemodel.py'),
               ('G2', os.path.join('io', 'g2.py')), ('SVG', os.path.join('io', 'svg.py')), ('STL', os.path.join('io', 'stl.py')),
               ('ASCII_STL_Writer', os.path.join('io', 'stl.py')), ('BINARY_STL_Writer', os.path.join('io', 'stl.py'))]
AUX_CLASSES = ('SplineModel', 'ObjectCatalogue', 'TopologicalNode', 'Orientation', 'NodeView', 'VertexDict', 'G2', 'SVG', 'STL',
               'ASCII_STL_Writer', 'BINARY_STL_Writer')
MODULE_FILES = [('splineobject', 'splineobject.py'), ('utils', os.path.join('utils', '__init__.py')),
                ('curve_factory', 'curve_factory.py'), ('surface_factory', 'surface_factory.py'),
                ('volume_factory', 'volume_factory.py'), ('curve', 'curve.py'), ('surface', 'surface.py'),
                ('volume', 'volume.py'), ('basis', 'basis.py'), ('splinemodel', 'splinemodel.py'),
                ('svg', os.path.join('io', 'svg.py')), ('g2', os.path.join('io', 'g2.py')), ('stl', os.path.join('io', 'stl.py'))]
CONSTRUCTORS = {'SplineObject', 'Curve', 'Surface', 'Volume', 'BSplineBasis'} | set(AUX_CLASSES)
IMMUTABLE_ATTRS = {'dimension', 'rational', 'order', 'periodic', 'pardim', 'shape', 'size', 'ndim', 'dtype',
                   '_intended_pardim', 'itemsize', 'nbytes'}
NP_ALIASES = {'np', 'numpy', 'splinalg', 'scipy', 'math', 'itertools', 'inspect', 'bisect', 're', 'operator'}
NP_VIEW_FUNCS = {'reshape', 'transpose', 'asarray', 'asanyarray', 'atleast_1d', 'atleast_2d', 'squeeze', 'ravel',
                 'swapaxes', 'moveaxis', 'rollaxis', 'broadcast_to', 'flip', 'flipud', 'fliplr', 'diagonal',
                 'expand_dims', 'real', 'imag', 'ascontiguousarray', 'nditer', 'ndenumerate'}
VIEW_METHODS = {'reshape', 'transpose', 'view', 'ravel', 'squeeze', 'swapaxes', 'diagonal', '__getitem__'}
MUTATING_METHODS = {'sort', 'fill', 'resize', 'put', 'itemset', 'partition', 'setfield', 'setflags', 'byteswap',
                    'append', 'extend', 'insert', 'pop', 'remove', 'clear', 'update', 'setdefault', 'reverse',
                    '__setitem__', '__delitem__', 'add', 'discard'}
CONTAINER_ADD = {'append', 'extend', 'insert', 'add', 'update', 'setdefault'}
PURE_BUILTINS = {'len', 'range', 'int', 'float', 'abs', 'min', 'max', 'sum', 'isinstance', 'any', 'all', 'str', 'print',
                 'bool', 'round', 'repr', 'hasattr', 'ValueError', 'RuntimeError', 'IndexError', 'TypeError',
                 'ImportError', 'NotImplementedError', 'format', 'divmod', 'pow', 'id', 'callable', 'issubclass',
                 'atan2', 'sqrt', 'sin', 'cos', 'tan', 'acos', 'asin', 'ceil', 'floor', 'norm', 'bisect_left',
                 'bisect_right', 'deepcopy', 'frozenset', 'complex', 'Counter', 'product', 'permutations', 'chain',
                 'open', 'IOError', 'KeyError', 'OrderedDict', 'hash', 'ord', 'chr', 'OrientationError', 'TwinError', 'savetxt',
                 'namedtuple', 'IFEMConnection', 'AttributeError', 'NotImplemented', 'Exception', 'StopIteration', 'next'}
CONTAINER_BUILTINS = {'list', 'tuple', 'sorted', 'reversed', 'set', 'zip', 'enumerate', 'iter', 'map', 'filter', 'dict'}

C = ('C',)
U = ('U',)
NE = ('NE',)
NONE = ('NONE',)
SL = ('SL',)          # a slice / tuple index (subscripting an array with it gives a view)
TRUE = ('TRUE',)
FALSE = ('FALSE',)
fs = frozenset
ROOT_KINDS = ('P', 'R', 'EP', 'ER', 'S')
OBJ_CLASSES = ('SplineObject', 'Curve', 'Surface', 'Volume')


def Fr(ty='?'):
    return ('F', ty)


VF = fs([Fr()])
VU = fs([U])
# parameter names -> type of the value (only used for the parameters of the operation analysed)
PARAM_TYPES = {'obj': {'curve', 'crv', 'surf', 'surface', 'vol', 'volume', 'path', 'shape', 'spline1', 'spline2',
                       'bottom', 'top', 'left', 'right', 'cpa', 'cpb', 'curves', 'surfaces'},
               'basis': {'basis', 'bspline', 'basis1', 'basis2', 'basis3'},
               'blist': {'bases'}}


def param_type(name):
    for ty, names in PARAM_TYPES.items():
        if name in names:
            return ty
    return '?'


def is_root(t):
    return t[0] in ROOT_KINDS


def is_fresh(t):
    return t[0] == 'F'


def roots(v, kinds=ROOT_KINDS):
    return {t[1] for t in v if t[0] in kinds}


def types_of(v):
    out = set()
    for t in v:
        if t[0] in ROOT_KINDS:
            out.add(t[2])
        elif t[0] == 'F':
            out.add(t[1])
        elif t[0] == 'U':
            out.add('?')
    return out


def retag(v, mapping):
    """Map tag kinds (keeping root and type): {'P':'R', ...}; kinds not mentioned are kept, None drops."""
    out = set()
    for t in v:
        if t[0] in mapping:
            k = mapping[t[0]]
            if k is not None:
                out.add((k,) + t[1:])
        else:
            out.add(t)
    return fs(out)


def elem_type(ty):
    return {'blist': 'basis', 'arr': 'arr', 'arr1': 'num', 'obj': 'arr', 'olist': 'obj'}.get(ty, '?')


def elements_of(v):
    """Abstract value of an element obtained by iterating / integer-indexing v."""
    out = set()
    for t in v:
        if t[0] in ('P', 'R', 'S'):
            et = elem_type(t[2])
            out.add(Fr('num') if et == 'num' else ('R', t[1], et))
        elif t[0] == 'EP':
            out.add(('P', t[1], t[2]))
        elif t[0] == 'ER':
            out.add(('R', t[1], t[2]))
        elif t[0] == 'F':
            out.add(Fr(elem_type(t[1]) if t[1] in ('blist', 'arr', 'arr1', 'olist') else '?'))
        elif t[0] in ('C', 'U'):
            out.add(t)
        elif t[0] == 'NONE':
            out.add(Fr())
    return fs(out) or VF


def container_of(vals):
    """Fresh container (list/tuple/vararg) holding the given values."""
    out = set()
    tys = set()
    for v in vals:
        for t in v:
            if t[0] == 'P':
                out.add(('EP', t[1], t[2]))
            elif t[0] in ('R', 'S'):
                out.add(('ER', t[1], t[2]))
            elif t[0] in ('EP', 'ER', 'U', 'C'):
                out.add(t)
            elif t[0] == 'F':
                tys.add(t[1])
    cty = 'blist' if tys == {'basis'} else ('olist' if tys == {'obj'} else '?')
    out.add(Fr(cty))
    return fs(out)


class Summary:
    def __init__(self):
        self.stores = set()       # roots (ints) or 'U'
        self.returns = set()      # tags
        self.captures = set()     # (target root, source root)
        self.unknown = []         # reasons
        self.cloned = set()       # params rebound to a clone
        self.why = {}             # root -> where the first store through it was seen
        self.self_tags = set()    # what the first parameter may hold references to at exit (constructors)

    def merge_effects(self, other):
        self.stores |= other.stores
        for k, v in other.why.items():
            self.why.setdefault(k, v)
        self.captures |= other.captures
        for u in other.unknown:
            if u not in self.unknown and len(self.unknown) < 40:
                self.unknown.append(u)


class Sources:
    """Parsed library sources: classes (with aliases resolved) and module-level functions."""

    def __init__(self, srcdir):
        self.srcdir = srcdir
        self.modfuncs = {}
        self.fn_class = {}
        trees = {}
        for _, rel in CLASS_FILES + MODULE_FILES:
            if rel not in trees:
                with open(os.path.join(srcdir, rel), encoding='utf-8') as f:
                    trees[rel] = ast.parse(f.read(), filename=rel)
        raw = {}
        for cname, rel in CLASS_FILES:
            for node in trees[rel].body:
                if isinstance(node, ast.ClassDef) and node.name == cname:
                    raw[cname] = self._class_methods(node)
        # aliases that point into another class (get_derivative_surface = SplineObject.get_derivative_spline)
        for cname, (methods, pending) in raw.items():
            for name, target in pending:
                if isinstance(target, ast.Attribute) and isinstance(target.value, ast.Name):
                    other = raw.get(target.value.id)
                    if other and target.attr in other[0]:
                        methods[name] = other[0][target.attr]
        self.classes = {c: m for c, (m, _) in raw.items()}
        for cname, methods in self.classes.items():
            for fn in methods.values():
                self.fn_class.setdefault(id(fn), cname)
        for mname, rel in MODULE_FILES:
            self.modfuncs[mname] = {n.name: n for n in trees[rel].body if isinstance(n, ast.FunctionDef)}
        self.pyx_writes = self._scan_pyx(os.path.join(srcdir, 'basis_eval.pyx'))

    @staticmethod
    def _scan_pyx(path):
        """{function: indices of the array arguments it writes} for the Cython kernel, by a textual scan:
        a name is written if it occurs as `name[...] =`; typed memoryviews `cdef T[:] x = arg` alias arg.
        A function that writes anything else than its own locals / argument aliases is left out (unknown)."""
        import re
        out = {}
        try:
            text = open(path, encoding='utf-8').read()
        except OSError:
            return out
        for m in re.finditer(r'^def\s+(\w+)\s*\((.*?)\):\s*$(.*?)(?=^def\s|^cdef\s|^cpdef\s|\Z)', text, flags=re.S | re.M):
            name, params, body = m.group(1), m.group(2), m.group(3)
            parts, depth, cur = [], 0, ''
            for ch in params:
                if ch in '[(':
                    depth += 1
                elif ch in '])':
                    depth -= 1
                if ch == ',' and depth == 0:
                    parts.append(cur)
                    cur = ''
                else:
                    cur += ch
            parts.append(cur)
            pnames = [re.findall(r'\w+', q.rsplit(']', 1)[-1].split('=')[0])[-1] for q in parts if q.strip()]
            alias = {}
            for a in re.finditer(r'cdef\s+[\w\.]+\s*\[[^\]]*\]\s*(\w+)\s*=\s*(\w+)\s*$', body, flags=re.M):
                alias[a.group(1)] = a.group(2)
            local_arrays = set(re.findall(r'cdef\s+[\w\.]+\s*\[[^\]]*\]\s*(\w+)\s*=\s*np\.', body))
            written = set(re.findall(r'^\s*(\w+)\s*\[[^\]]*\]\s*=[^=]', body, flags=re.M))
            idx, ok = set(), True
            for w in written:
                tgt = alias.get(w, w)
                if tgt in pnames:
                    idx.add(pnames.index(tgt))
                elif w in local_arrays or w in alias:
                    continue
                else:
                    ok = ok and (w not in pnames)
            if ok:
                out[name] = sorted(idx)
        return out

    @staticmethod
    def _class_methods(cls):
        methods, pending = {}, []
        for n in cls.body:
            if isinstance(n, ast.FunctionDef):
                methods[n.name] = n
            elif isinstance(n, ast.Assign) and len(n.targets) == 1 and isinstance(n.targets[0], ast.Name):
                if isinstance(n.value, ast.Name) and n.value.id in methods:
                    methods[n.targets[0].id] = methods[n.value.id]
                elif isinstance(n.value, ast.Attribute):
                    pending.append((n.targets[0].id, n.value))
        return methods, pending

    def methods_named(self, name, types=None):
        """Definitions of method `name` in the classes a receiver of the given types may have."""
        out = []
        for c, m in self.classes.items():
            if name not in m:
                continue
            if types is not None and '?' not in types:
                want = set()
                if 'obj' in types:
                    want |= set(OBJ_CLASSES)
                if 'basis' in types:
                    want.add('BSplineBasis')
                for ty in types:
                    if ty.startswith('aux:'):
                        want.add(ty[4:])
                        if ty == 'aux:BINARY_STL_Writer':
                            want.add('ASCII_STL_Writer')
                if c not in want:
                    continue
            out.append((c, m[name]))
        if (types is None or '?' in types) and any(c not in AUX_CLASSES for c, _ in out):
            # a receiver of unknown type: the auxiliary classes only when nothing else has the method
            out = [(c, m) for c, m in out if c not in AUX_CLASSES or (types and ('aux:' + c) in types)]
        return out

    def function(self, modname, name):
        return self.modfuncs.get(modname, {}).get(name)

    def any_function(self, name, prefer=None):
        order = ([prefer] if prefer else []) + ['utils', 'splineobject', 'curve_factory', 'surface_factory', 'volume_factory']
        for m in order:
            f = self.function(m, name)
            if f is not None:
                return m, f
        return None


def _is_classmethod(fn):
    return any(isinstance(d, ast.Name) and d.id == 'classmethod' for d in fn.decorator_list)


class Analyzer:
    MAX_DEPTH = 12

    def __init__(self, sources):
        self.src = sources
        self.memo = {}
        self.in_progress = {}

    # -- entry -------------------------------------------------------------------------------
    def analyze_op(self, fn, modname, cls=None):
        """Top-level analysis: parameter i is bound to {('P', i, type)} (a `*args` parameter to the
        container {('EP', i, type)}); `cls` of a classmethod is not numbered."""
        a = fn.args
        names = [x.arg for x in a.posonlyargs + a.args]
        env = {}
        idx = 0
        for i, n in enumerate(names):
            if i == 0 and _is_classmethod(fn):
                env[n] = fs([C])
                continue
            if i == 0 and cls is not None:
                ty = 'basis' if cls == 'BSplineBasis' else ('obj' if cls in OBJ_CLASSES else 'aux:' + cls)
            else:
                ty = param_type(n)
            env[n] = fs([('P', idx, ty)])
            idx += 1
        if a.vararg:
            env[a.vararg.arg] = fs([('EP', idx, param_type(a.vararg.arg)), Fr(), NE])
            idx += 1
        for n in a.kwonlyargs:
            env[n.arg] = VF
        if a.kwarg:
            env[a.kwarg.arg] = VF
        self.memo.clear()
        return self._run(fn, env, modname, 0)

    # -- function bodies ---------------------------------------------------------------------
    def call_function(self, fn, modname, posvals, kwvals, starred, depth, drop_first=False, recv=None):
        """Inline a library function with the given abstract arguments."""
        a = fn.args
        names = [x.arg for x in a.posonlyargs + a.args]
        env = {}
        pos = list(posvals)
        if recv is not None:
            pos = [recv] + pos
        elif drop_first or _is_classmethod(fn):
            pos = [fs([C])] + pos
        extra = fs().union(*[elements_of(v) for v in starred]) if starred else None
        for i, n in enumerate(names):
            if i < len(pos):
                env[n] = pos[i]
            elif n in kwvals:
                env[n] = kwvals[n]
            elif extra is not None:
                env[n] = extra | VF
            else:
                env[n] = self.default_of(fn, i, len(names))
        if a.vararg:
            rest = pos[len(names):]
            v = container_of(rest)
            if rest and all(NE in x or True for x in rest):
                v = v | fs([NE])
            if starred:
                sv = fs().union(*starred)
                v = v | retag(sv, {'P': 'R', 'S': 'R'})      # `f(*xs)`: the callee's tuple holds the elements of xs
                if NE in sv:
                    v = v | fs([NE])
            env[a.vararg.arg] = v
        for j, n in enumerate(a.kwonlyargs):
            env[n.arg] = kwvals.get(n.arg, self.const_value(a.kw_defaults[j]))
        if a.kwarg:
            env[a.kwarg.arg] = VF
        key = (id(fn), tuple(sorted((k, tuple(sorted(v))) for k, v in env.items())))
        if key in self.memo:
            return self.memo[key]
        if key in self.in_progress or depth > self.MAX_DEPTH:
            s = Summary()
            if key in self.in_progress:
                s.returns |= self.in_progress[key]      # previous approximation (bottom at first)
            else:
                s.unknown.append('call depth limit at %s' % fn.name)
                s.returns.add(U)
                s.stores.add('U')
            return s
        self.in_progress[key] = set()
        s = None
        for _ in range(3):
            s = self._run(fn, env, modname, depth)
            if s.returns == self.in_progress[key]:
                break
            self.in_progress[key] = set(s.returns)
        del self.in_progress[key]
        self.memo[key] = s
        return s

    @staticmethod
    def const_value(node):
        if isinstance(node, ast.Constant):
            if node.value is None:
                return fs([NONE])
            if node.value is True:
                return fs([TRUE])
            if node.value is False:
                return fs([FALSE])
            return fs([Fr('num')])
        return VF

    def default_of(self, fn, i, npos):
        d = fn.args.defaults
        k = i - (npos - len(d))
        return self.const_value(d[k]) if 0 <= k < len(d) else VF

    def _run(self, fn, env, modname, depth):
        st = _State(self, fn, modname, depth)
        out = st.block(fn.body, dict(env))
        if out is not None:
            st.note_self(out)
        if st.yields:
            st.summary.returns |= set(container_of(st.yields))
        elif out is not None:          # control can fall off the end
            st.summary.returns.add(NONE)
        return st.summary


def _scalar_index(node):
    """Is the subscript expression evidently a single integer index (not a slice/tuple/ellipsis)?"""
    if isinstance(node, (ast.Slice, ast.Tuple, ast.List, ast.Starred)):
        return False
    if isinstance(node, ast.Constant):
        return isinstance(node.value, int)
    return True


class _State:
    def __init__(self, an, fn, modname, depth):
        self.an, self.fn, self.modname, self.depth = an, fn, modname, depth
        self.cls = an.src.fn_class.get(id(fn))
        self.summary = Summary()
        self.yields = []

    # -- helpers -----------------------------------------------------------------------------
    def note_self(self, env):
        a = self.fn.args.posonlyargs + self.fn.args.args
        if a:
            self.summary.self_tags |= set(env.get(a[0].arg, fs()))

    def construct(self, classes, pos, starred, kw):
        """`Cls(args)`: run `__init__` on a fresh receiver; the value is the receiver with whatever
        references `__init__` left in it (a copying constructor leaves none)."""
        src = self.an.src
        out = set()
        for cname in classes:
            ty = 'basis' if cname == 'BSplineBasis' else ('obj' if cname in OBJ_CLASSES else 'aux:' + cname)
            if not ty.startswith('aux:'):
                # SplineObject/Curve/Surface/Volume/BSplineBasis: the copying constructor.  That it keeps no
                # reference to its arguments is itself checked: `X.__init__` are operations of the table
                # (contract fresh, operands = the bases and the control points passed in).
                out.add(Fr(ty))
                continue
            recv = fs([Fr(ty)])
            init = src.classes.get(cname, {}).get('__init__')
            if init is None:
                out.add(Fr(ty))
                continue
            s = self.an.call_function(init, self.modname, pos, kw, starred, self.depth + 1, recv=recv)
            self.summary.merge_effects(s)
            out |= {t for t in s.self_tags if t not in (NE, SL, NONE)} | {Fr(ty)}
        return fs(out)

    def unknown(self, why):
        msg = '%s: %s' % (self.fn.name, why)
        if msg not in self.summary.unknown and len(self.summary.unknown) < 40:
            self.summary.unknown.append(msg)

    def store_through(self, base, why=''):
        for t in base:
            if t[0] in ('P', 'R'):
                self.summary.stores.add(t[1])
                self.summary.why.setdefault(t[1], '%s:%s %s' % (self.fn.name, getattr(self, 'line', '?'), why))
            elif t[0] == 'U':
                self.summary.stores.add('U')
                self.summary.why.setdefault('U', '%s:%s %s' % (self.fn.name, getattr(self, 'line', '?'), why))
                self.unknown('store through an unknown value (%s)' % why)

    def capture(self, base, value, only_objects=False):
        for t in base:
            if t[0] in ('P', 'R'):
                kinds = ('P', 'EP', 'S') if only_objects else ROOT_KINDS
                for s in roots(value, kinds):
                    if s != t[1]:
                        self.summary.captures.add((t[1], s))

    @staticmethod
    def merge(e1, e2):
        if e1 is None:
            return e2
        if e2 is None:
            return e1
        out = {}
        for k in set(e1) | set(e2):
            out[k] = e1.get(k, fs()) | e2.get(k, fs())
        return out

    # -- statements (return the environment after, or None when control does not continue) -----
    def block(self, stmts, env):
        for s in stmts:
            if env is None:
                return None
            env = self.stmt(s, env)
        return env

    def stmt(self, s, env):
        self.line = getattr(s, 'lineno', '?')
        if isinstance(s, ast.Return):
            v = self.expr(s.value, env) if s.value is not None else fs([NONE])
            self.summary.returns |= {t for t in v if t not in (NE, SL)}
            self.note_self(env)
            return None
        if isinstance(s, ast.Raise):
            if s.exc is not None:
                self.expr(s.exc, env)
            return None
        if isinstance(s, (ast.Pass, ast.Import, ast.ImportFrom, ast.Global, ast.Nonlocal, ast.Assert, ast.Break, ast.Continue)):
            return env
        if isinstance(s, ast.Expr):
            self.expr(s.value, env)
            return env
        if isinstance(s, ast.Assign):
            v = self.expr(s.value, env)
            for t in s.targets:
                self.assign(t, v, env, s.value)
            return env
        if isinstance(s, ast.AnnAssign):
            if s.value is not None:
                self.assign(s.target, self.expr(s.value, env), env, s.value)
            return env
        if isinstance(s, ast.AugAssign):
            self.expr(s.value, env)
            t = s.target
            if isinstance(t, ast.Name):
                cur = env.get(t.id, VF)
                # `x += a` mutates an ndarray / SplineObject / BSplineBasis in place (numbers are rebound)
                self.store_through(cur, 'augmented assignment to %s' % t.id)
                self.inplace_dunder(cur)
            else:
                base = self.expr(t.value, env)
                if isinstance(t, ast.Subscript):
                    self.expr(t.slice, env)
                self.store_through(self.base_for_store(t, base), 'augmented assignment')
            return env
        if isinstance(s, ast.Delete):
            for t in s.targets:
                if isinstance(t, (ast.Attribute, ast.Subscript)):
                    self.store_through(self.base_for_store(t, self.expr(t.value, env)), 'del')
                elif isinstance(t, ast.Name):
                    env.pop(t.id, None)
            return env
        if isinstance(s, ast.If):
            self.expr(s.test, env)
            t = self.truth(s.test, env)
            e1 = self.block(s.body, dict(env)) if t is not False else None
            e2 = (self.block(s.orelse, dict(env)) if s.orelse else dict(env)) if t is not True else None
            return self.merge(e1, e2)
        if isinstance(s, (ast.For, ast.While)):
            nonempty = False
            if isinstance(s, ast.For):
                nonempty, binder = self.iteration(s.iter, s.target, env)
            else:
                self.expr(s.test, env)
                binder = None
            cur = dict(env)
            outs = None
            for _ in range(3):
                if binder is not None:
                    binder(cur)
                e = self.block(s.body, dict(cur))
                if e is None:          # body always leaves (return/raise): no second iteration
                    break
                outs = self.merge(outs, e)
                nxt = self.merge(cur, e)
                if nxt == cur:
                    break
                cur = nxt
            after = outs if (nonempty and outs is not None) else self.merge(dict(env), outs)
            if s.orelse and after is not None:
                after = self.block(s.orelse, after)
            return after
        if isinstance(s, ast.Try):
            e = self.block(s.body, dict(env))
            for h in s.handlers:
                e = self.merge(e, self.block(h.body, dict(env)))
            if s.orelse and e is not None:
                e = self.block(s.orelse, e)
            if s.finalbody:
                e = self.block(s.finalbody, e if e is not None else dict(env))
            return e
        if isinstance(s, ast.With):
            for it in s.items:
                v = self.expr(it.context_expr, env)
                if it.optional_vars is not None:
                    self.assign(it.optional_vars, v, env, None)
            return self.block(s.body, env)
        if isinstance(s, (ast.FunctionDef, ast.ClassDef)):
            env[s.name] = VU
            return env
        self.unknown('statement %s' % type(s).__name__)
        return env

    def truth(self, test, env):
        """True / False when the test is decided by constants (None / True / False arguments and defaults), else None."""
        if isinstance(test, ast.UnaryOp) and isinstance(test.op, ast.Not):
            t = self.truth(test.operand, env)
            return None if t is None else (not t)
        if isinstance(test, ast.Compare) and len(test.ops) == 1 and isinstance(test.ops[0], (ast.Is, ast.IsNot)) \
                and isinstance(test.comparators[0], ast.Constant) and test.comparators[0].value is None:
            v = fs(t for t in self.expr(test.left, env) if t not in (NE, SL))
            if not v:
                return None
            if v == fs([NONE]):
                r = True
            elif NONE not in v and U not in v and not any(t[0] == 'P' for t in v):
                r = False       # fresh values, constants and object state are not None; a parameter may be
            else:
                return None
            return r if isinstance(test.ops[0], ast.Is) else (not r)
        if isinstance(test, ast.Name):
            v = fs(t for t in env.get(test.id, fs()) if t not in (NE, SL))
            if v and v <= fs([TRUE]):
                return True
            if v and v <= fs([FALSE, NONE]):
                return False
        return None

    def iteration(self, iter_node, target, env):
        """(non-empty?, binder(env)) for `for target in iter_node`; zip/enumerate are bound element-wise."""
        if (isinstance(iter_node, ast.Call) and isinstance(iter_node.func, ast.Name) and iter_node.func.id in ('zip', 'enumerate')
                and isinstance(target, (ast.Tuple, ast.List)) and not iter_node.keywords):
            vals = [self.expr(a, env) for a in iter_node.args]
            if iter_node.func.id == 'enumerate' and len(target.elts) == 2 and len(vals) >= 1:
                elems = [VF, elements_of(vals[0])]
                ne = NE in vals[0]
            elif iter_node.func.id == 'zip' and len(target.elts) == len(vals):
                elems = [elements_of(v) for v in vals]
                ne = any(NE in v for v in vals)     # call arity matches pardim (see module docstring)
            else:
                elems = None
            if elems is not None:
                def binder(e, elems=elems):
                    for t, x in zip(target.elts, elems):
                        self.assign(t, x, e, None)
                return ne, binder
        it = self.expr(iter_node, env)
        elem = elements_of(it)

        def binder(e):
            self.assign(target, elem, e, None)
        return NE in it, binder

    def base_for_store(self, target, base):
        """The value written through by `base.attr = …` / `base[i] = …`."""
        if isinstance(target, ast.Attribute):
            # rebinding an attribute of a shallow copy does not touch the original
            return fs(t for t in base if t[0] != 'S')
        # subscript store into a fresh container (EP/ER) writes the container only
        return fs(t for t in base if t[0] not in ('EP', 'ER', 'S'))

    def assign(self, target, v, env, value_node):
        if isinstance(target, ast.Name):
            new = v or VF
            if value_node is not None and self._is_clone_of(value_node, target.id):
                self.summary.cloned.add(target.id)
            env[target.id] = new
        elif isinstance(target, (ast.Tuple, ast.List)):
            if value_node is not None and isinstance(value_node, (ast.Tuple, ast.List)) and len(value_node.elts) == len(target.elts):
                vals = [self.expr(e, env) for e in value_node.elts]
                for t, x in zip(target.elts, vals):
                    self.assign(t, x, env, None)
            else:
                el = elements_of(v)
                for t in target.elts:
                    self.assign(t.value if isinstance(t, ast.Starred) else t, el, env, None)
        elif isinstance(target, ast.Attribute):
            base = self.expr(target.value, env)
            self.store_through(self.base_for_store(target, base), 'attribute %s' % target.attr)
            self.capture(base, v)
            self.taint_local(target.value, base, v, env)
        elif isinstance(target, ast.Subscript):
            base = self.expr(target.value, env)
            self.expr(target.slice, env)
            self.store_through(self.base_for_store(target, base), 'subscript')
            is_list = 'blist' in types_of(base) or 'olist' in types_of(base)
            self.capture(base, v, only_objects=not is_list)
            self.taint_local(target.value, base, fs(t for t in v if t[0] in ('P', 'EP', 'S') or (is_list and is_root(t))), env)
        elif isinstance(target, ast.Starred):
            self.assign(target.value, v, env, None)

    @staticmethod
    def _is_clone_of(node, name):
        return (isinstance(node, ast.Call) and isinstance(node.func, ast.Attribute) and node.func.attr == 'clone'
                and isinstance(node.func.value, ast.Name) and node.func.value.id == name)

    def taint_local(self, base_node, base, v, env):
        """`local.x = operand_state`: the fresh local now holds a reference to operand state."""
        if isinstance(base_node, ast.Name) and not roots(base, ('P', 'R')):
            add = fs(t for t in container_of([v]) if not is_fresh(t))
            if add:
                env[base_node.id] = env.get(base_node.id, VF) | add

    def inplace_dunder(self, cur):
        """`x += a` where x may be a library object: run __iadd__ (translate etc.) for its stores."""
        if roots(cur, ('P', 'R', 'S')) and types_of(cur) & {'obj', 'basis', '?'}:
            for _, m in self.an.src.methods_named('__iadd__', types_of(cur)):
                s = self.an.call_function(m, self.modname, [VF], {}, [], self.depth + 1, recv=cur)
                self.summary.merge_effects(s)

    # -- expressions ---------------------------------------------------------------------------
    def attribute(self, v, attr):
        if attr in IMMUTABLE_ATTRS:
            return fs([Fr('num')]) | (fs([NE]) if attr == 'pardim' else fs())
        out = set()
        for t in v:
            if t[0] in ('P', 'R', 'S'):
                ty = {'bases': 'blist', 'controlpoints': 'arr', 'knots': 'arr1'}.get(attr, '?')
                if attr == 'T':
                    ty = t[2]
                out.add(('R', t[1], ty))
                if attr == 'bases':
                    out.add(NE)
            elif t[0] == 'F':
                ty = {'bases': 'blist', 'controlpoints': 'arr', 'knots': 'arr1'}.get(attr, '?')
                out.add(Fr(ty))
                if attr == 'bases':
                    out.add(NE)
            elif t[0] in ('EP', 'ER', 'NONE'):
                out.add(Fr())
            elif t[0] in ('C', 'U'):
                out.add(t)
        return fs(out) or VF

    def expr(self, e, env):
        if e is None:
            return fs([NONE])
        if isinstance(e, ast.Constant):
            if e.value is None:
                return fs([NONE])
            if e.value is Ellipsis:
                return fs([Fr(), SL])
            if e.value is True:
                return fs([TRUE])
            if e.value is False:
                return fs([FALSE])
            return fs([Fr('num')])
        if isinstance(e, ast.Name):
            if e.id in env:
                return env[e.id]
            if e.id in CONSTRUCTORS or e.id == 'cls':
                return fs([C])
            return VF
        if isinstance(e, ast.Attribute):
            return self.attribute(self.expr(e.value, env), e.attr)
        if isinstance(e, ast.Subscript):
            v = self.expr(e.value, env)
            idx = self.expr(e.slice, env)
            scalar = _scalar_index(e.slice) and SL not in idx
            out = set()
            for t in v:
                if t[0] in ('P', 'R', 'S'):
                    ty = t[2]
                    if scalar:
                        out |= set(elements_of(fs([t])))
                    elif ty == 'blist':
                        out.add(('ER', t[1], 'basis'))      # a slice of a list: new list, same elements
                        out.add(Fr('blist'))
                    else:
                        out.add(('R', t[1], ty if ty in ('arr', 'arr1') else '?'))   # numpy view / unknown
                elif t[0] in ('EP', 'ER'):
                    if scalar:
                        out |= set(elements_of(fs([t])))
                    else:
                        out.add(t)
                        out.add(Fr())
                elif t[0] == 'F':
                    out |= set(elements_of(fs([t]))) if scalar else {t}
                elif t[0] in ('C', 'U'):
                    out.add(t)
            if NE in v and isinstance(e.slice, ast.Slice) and e.slice.lower is None and e.slice.upper is None:
                out.add(NE)          # x[::-1] of a non-empty sequence
            return fs(out) or VF
        if isinstance(e, ast.Slice):
            for x in (e.lower, e.upper, e.step):
                if x is not None:
                    self.expr(x, env)
            return fs([Fr(), SL])
        if isinstance(e, (ast.Tuple, ast.List, ast.Set)):
            vals = []
            for x in e.elts:
                if isinstance(x, ast.Starred):
                    vals.append(elements_of(self.expr(x.value, env)))
                else:
                    vals.append(self.expr(x, env))
            v = container_of(vals)
            return v | (fs([NE]) if e.elts else fs()) | fs([SL])
        if isinstance(e, ast.Dict):
            vals = [self.expr(x, env) for x in e.values if x is not None]
            for k in e.keys:
                if k is not None:
                    self.expr(k, env)
            return container_of(vals)
        if isinstance(e, ast.BinOp):
            a, b = self.expr(e.left, env), self.expr(e.right, env)
            opname = {ast.Add: 'add', ast.Sub: 'sub', ast.Mult: 'mul', ast.Div: 'truediv', ast.FloorDiv: 'floordiv'}.get(type(e.op))
            if opname:      # arithmetic on a library object is a call of its operator method
                for x, y, fmt in ((a, b, '__%s__'), (b, a, '__r%s__')):
                    if 'obj' in types_of(x) and (roots(x, ('P', 'R', 'S')) or any(is_fresh(t) and t[1] == 'obj' for t in x)):
                        if self.an.src.methods_named(fmt % opname, {'obj'}):
                            return self.method_call(fmt % opname, fs(t for t in x if t[0] in ('P', 'R', 'S') and t[2] == 'obj' or t == Fr('obj')), [y], [], {})
            keep = fs(t for t in (a | b) if t[0] in ('EP', 'ER', 'SL'))       # list concatenation keeps the references
            ne = fs([NE]) if (isinstance(e.op, ast.Add) and (NE in a or NE in b)) else fs()
            unk = fs([U]) if ((U in a and not is_obj_arith(a)) or (U in b and not is_obj_arith(b))) else fs()
            listy = {'blist', 'olist'} & (types_of(a) | types_of(b))
            ty = (listy.pop() if listy else ('num' if types_of(a) | types_of(b) <= {'num'} else 'arr'))
            if keep and not listy:
                ty = '?'
            return fs([Fr(ty)]) | keep | ne | unk
        if isinstance(e, ast.UnaryOp):
            v = self.expr(e.operand, env)
            return fs([Fr('num' if types_of(v) <= {'num'} else 'arr')])
        if isinstance(e, ast.BoolOp):
            out = fs()
            for x in e.values:
                out |= self.expr(x, env)
            return out
        if isinstance(e, ast.Compare):
            self.expr(e.left, env)
            for x in e.comparators:
                self.expr(x, env)
            return fs([Fr('num')])
        if isinstance(e, ast.IfExp):
            self.expr(e.test, env)
            t = self.truth(e.test, env)
            if t is True:
                return self.expr(e.body, env)
            if t is False:
                return self.expr(e.orelse, env)
            return self.expr(e.body, env) | self.expr(e.orelse, env)
        if isinstance(e, (ast.ListComp, ast.SetComp, ast.GeneratorExp, ast.DictComp)):
            env2 = dict(env)
            ne = True
            for g in e.generators:
                nonempty, binder = self.iteration(g.iter, g.target, env2)
                binder(env2)
                ne = ne and nonempty and not g.ifs
                for c in g.ifs:
                    self.expr(c, env2)
            if isinstance(e, ast.DictComp):
                self.expr(e.key, env2)
                el = self.expr(e.value, env2)
            else:
                el = self.expr(e.elt, env2)
            return container_of([el]) | (fs([NE]) if ne else fs())
        if isinstance(e, ast.Call):
            return self.call(e, env)
        if isinstance(e, ast.Starred):
            return self.expr(e.value, env)
        if isinstance(e, (ast.JoinedStr, ast.FormattedValue)):
            return fs([Fr('num')])
        if isinstance(e, ast.Lambda):
            return VU
        if isinstance(e, (ast.Yield, ast.YieldFrom)):
            v = self.expr(e.value, env) if e.value is not None else VF
            self.yields.append(elements_of(v) if isinstance(e, ast.YieldFrom) else v)
            return VF
        if isinstance(e, ast.NamedExpr):
            v = self.expr(e.value, env)
            self.assign(e.target, v, env, e.value)
            return v
        self.unknown('expression %s' % type(e).__name__)
        return VU

    # -- calls ---------------------------------------------------------------------------------
    def args_of(self, call, env):
        pos, starred, kw = [], [], {}
        for a in call.args:
            if isinstance(a, ast.Starred):
                starred.append(self.expr(a.value, env))
            else:
                pos.append(self.expr(a, env))
        for k in call.keywords:
            v = self.expr(k.value, env)
            if k.arg is not None:
                kw[k.arg] = v
        return pos, starred, kw

    def inline(self, fns, pos, starred, kw, recv=None, drop_first=False, modname=None):
        """Union of the inlined summaries of the candidate functions; returns the value."""
        out = set()
        for fn in fns:
            s = self.an.call_function(fn, modname or self.modname, pos, kw, starred, self.depth + 1,
                                      drop_first=drop_first, recv=recv)
            self.summary.merge_effects(s)
            out |= s.returns
        return fs(out) or VF

    def call(self, e, env):
        f = e.func
        pos, starred, kw = self.args_of(e, env)
        allargs = fs().union(*(pos + starred + list(kw.values()))) if (pos or starred or kw) else fs()
        src = self.an.src

        if isinstance(f, ast.Name):
            name = f.id
            val = env.get(name)
            if val is not None:
                if C in val:                                    # dynamic constructor: `constructor(*args, raw=True)`
                    return self.construct(('Curve', 'Surface', 'Volume', 'SplineObject'), pos, starred, kw)
                for t in val:
                    if t[0] == 'AG':                            # attrgetter(name)(x)
                        return self.attribute(pos[0] if pos else VF, t[1])
                    if t[0] == 'MC':                            # methodcaller(name)(x)
                        return self.method_call(t[1], pos[0] if pos else VF, [], [], {})
                if roots(val, ('P', 'R', 'S')):                 # obj(t): __call__
                    return self.method_call('__call__', val, pos, starred, kw)
                if all(is_fresh(t) or t in (NE, SL) for t in val) and types_of(val) & {'obj', 'basis'}:
                    return self.method_call('__call__', val, pos, starred, kw)
                return self.unknown_call('call of local `%s`' % name, allargs)
            if name in CONSTRUCTORS:
                return self.construct((name,), pos, starred, kw)
            if name == 'super':
                return fs([('SUPER',)])
            if name == 'type':
                return fs([C])
            if name == 'slice':
                return fs([Fr(), SL])
            if name in ('attrgetter', 'methodcaller') and e.args and isinstance(e.args[0], ast.Constant):
                return fs([('AG' if name == 'attrgetter' else 'MC', e.args[0].value)])
            if name in PURE_BUILTINS:
                return fs([Fr('num')])
            if name in CONTAINER_BUILTINS or name in ('combinations', 'product', 'permutations', 'chain', 'uniquify'):
                vals = [elements_of(v) for v in pos + starred]
                ne = bool(pos) and all(NE in v for v in pos) if name != 'zip' else any(NE in v for v in pos)
                return container_of(vals) | (fs([NE]) if ne else fs())
            if name == 'csr_matrix':
                return fs([Fr('arr')])
            hit = src.any_function(name, prefer=self.modname)
            if hit is not None:
                return self.inline([hit[1]], pos, starred, kw, modname=hit[0])
            return self.unknown_call('call of `%s`' % name, allargs)

        if isinstance(f, ast.Attribute):
            attr = f.attr
            base = f.value
            # module functions
            if isinstance(base, ast.Name) and base.id not in env:
                if base.id == 'copy':
                    if attr == 'deepcopy':
                        return fs(Fr(ty) for ty in (types_of(pos[0]) if pos else {'?'})) or VF
                    if attr == 'copy':
                        return retag(pos[0] if pos else VF, {'P': 'S', 'R': 'ER', 'NE': None}) | VF
                if base.id in NP_ALIASES:
                    return self.numpy_call(attr, pos, kw, allargs)
                if base.id in ('curve_factory', 'surface_factory', 'volume_factory'):
                    fn = src.function(base.id, attr)
                    if fn is not None:
                        return self.inline([fn], pos, starred, kw, modname=base.id)
                    return self.unknown_call('call of %s.%s' % (base.id, attr), allargs)
                if base.id in src.classes or base.id == 'cls':
                    return self.class_call(base.id, attr, pos, starred, kw, allargs)
                if base.id in ('state', 'etree', 'os', 'sys', 'warnings'):
                    return VF
                if base.id == 'basis_eval':          # the Cython kernel: summaries checked against the .pyx (pyx_writes)
                    w = self.an.src.pyx_writes.get(attr)
                    if w is None:
                        return self.unknown_call('call of basis_eval.%s' % attr, allargs)
                    for i in w:
                        if i < len(pos):
                            self.store_through(pos[i], 'basis_eval.%s writes its argument %d' % (attr, i))
                    return fs([Fr('arr')])
            if isinstance(base, ast.Attribute) and isinstance(base.value, ast.Name) and base.value.id in NP_ALIASES:
                return self.numpy_call(attr, pos, kw, allargs)          # np.linalg.inv, np.polynomial…
            if (isinstance(base, ast.Attribute) and isinstance(base.value, ast.Attribute)
                    and isinstance(base.value.value, ast.Name) and base.value.value.id in NP_ALIASES):
                return self.numpy_call(attr, pos, kw, allargs)
            recv = self.expr(base, env)
            if ('SUPER',) in recv:
                selfname = self.fn.args.args[0].arg if self.fn.args.args else None
                rv = env.get(selfname, VU)
                fns = [m for c, m in src.methods_named(attr, {'obj'}) if c != self.cls] or [m for _, m in src.methods_named(attr)]
                return self.inline(fns, pos, starred, kw, recv=rv)
            if C in recv and not roots(recv):
                if attr == '__subclasses__':
                    return fs([C])
                return self.class_call(None, attr, pos, starred, kw, allargs)
            # a method call on a local fresh container: remember what is put into it
            if isinstance(base, ast.Name) and attr in CONTAINER_ADD and not roots(recv, ('P', 'R')) and not any(t in ('obj', 'basis') or t.startswith('aux:') for t in types_of(recv)):
                add = fs(t for t in container_of(pos) if not is_fresh(t))
                if add:
                    env[base.id] = env.get(base.id, VF) | add
                return fs([NONE])
            return self.method_call(attr, recv, pos, starred, kw)

        v = self.expr(f, env)
        if C in v:
            return self.construct(('Curve', 'Surface', 'Volume', 'SplineObject'), pos, starred, kw)
        return self.unknown_call('call of a computed callee', allargs)

    def unknown_call(self, what, allargs):
        self.unknown(what)
        if roots(allargs, ('P', 'R')):
            self.summary.stores.add('U')
            self.summary.why.setdefault('U', '%s:%s %s' % (self.fn.name, getattr(self, 'line', '?'), what))
        # a callee that received no operand state cannot hand any back
        return VU if (roots(allargs) or U in allargs) else VF

    def class_call(self, cname, attr, pos, starred, kw, allargs):
        """`Curve.make_splines_identical(a, b)` / `SplineObject.method(obj, …)` / `cls.method(…)`."""
        src = self.an.src
        if attr == '__subclasses__':
            return fs([C])
        if cname in AUX_CLASSES:
            cands = src.methods_named(attr, {'aux:' + cname})
        elif cname in src.classes and cname != 'BSplineBasis' or cname in (None, 'cls'):
            cands = src.methods_named(attr, {'obj'})
            own = [(c, m) for c, m in cands if c == cname]
            cands = own or cands
            if self.cls in AUX_CLASSES and cname in (None, 'cls'):
                cands = src.methods_named(attr, {'aux:' + self.cls})
        else:
            cands = src.methods_named(attr, {'basis'})
        if not cands:
            return self.unknown_call('class call .%s' % attr, allargs)
        out = set()
        for _, m in cands:
            if _is_classmethod(m):
                out |= self.inline([m], pos, starred, kw, drop_first=True)
            else:   # unbound call: first argument is the receiver
                out |= self.inline([m], pos[1:], starred, kw, recv=pos[0] if pos else VU)
        return fs(out)

    PURE_METHODS = {'copy', 'astype', 'tolist', 'flatten', 'dot', 'sum', 'min', 'max', 'mean', 'prod', 'cumsum', 'all',
                    'any', 'argmin', 'argmax', 'nonzero', 'round', 'conj', 'toarray', 'todense', 'tocsr', 'tocsc',
                    'lower', 'upper', 'strip', 'split', 'join', 'format', 'index', 'count', 'keys', 'items', 'values',
                    'get', 'startswith', 'endswith', 'replace', 'group', 'search', 'findall', 'indices', 'tobytes',
                    'item', 'repeat', 'take', 'compress', 'clip', 'std', 'var', 'trace', 'searchsorted', 'argsort',
                    'intersection', 'union', 'difference', 'isdisjoint', 'most_common', 'elements'}

    def method_call(self, attr, recv, pos, starred, kw):
        src = self.an.src
        tys = types_of(recv)
        rooted = bool(roots(recv, ('P', 'R', 'S')))
        libtypes = {t for t in tys if t in ('obj', 'basis', '?') or t.startswith('aux:')}
        cands = [m for _, m in src.methods_named(attr, libtypes)] if libtypes else []
        allargs = fs().union(*(pos + starred + list(kw.values()))) if (pos or starred or kw) else fs()
        out = set()
        if cands:
            if attr == 'clone':
                return fs(Fr(ty) for ty in tys) or VF          # copy.deepcopy(self)
            out |= set(self.inline(cands, pos, starred, kw, recv=fs(t for t in recv if t not in (NE, SL))))
            if not (tys - libtypes - {'num'}) or not (tys - libtypes):
                return fs(out)
        # numpy / list / str methods (receiver is, or may be, an array or a list)
        if attr in self.PURE_METHODS:
            return fs(out) | fs([Fr('arr')])
        if attr in VIEW_METHODS:
            return fs(out) | (retag(recv, {'P': 'R', 'S': 'R', 'NE': None, 'SL': None}) or VF)
        if attr in MUTATING_METHODS:
            if attr in CONTAINER_ADD:
                self.capture(recv, allargs, only_objects=False)
            self.store_through(fs(t for t in recv if t[0] in ('P', 'R', 'U') and (t[0] == 'U' or t[2] not in ('obj', 'basis'))),
                               'in-place method .%s()' % attr)
            return fs(out) | fs([NONE, Fr()])
        if cands:
            return fs(out)
        self.unknown('method .%s() not resolved' % attr)
        if rooted or roots(allargs, ('P', 'R')):
            self.summary.stores.add('U')
            self.summary.why.setdefault('U', '%s:%s method .%s() not resolved' % (self.fn.name, getattr(self, 'line', '?'), attr))
        return VU if (rooted or roots(allargs) or U in recv or U in allargs) else VF

    def numpy_call(self, name, pos, kw, allargs):
        if 'out' in kw:
            self.store_through(kw['out'], 'numpy out=')
        if name in NP_VIEW_FUNCS:
            v = pos[0] if pos else VF
            return retag(v, {'P': 'R', 'S': 'R', 'NE': None, 'SL': None}) | fs([Fr('arr')])
        if name in ('copyto', 'put', 'place', 'putmask', 'fill_diagonal', 'put_along_axis'):
            if pos:
                self.store_through(pos[0], 'numpy.%s' % name)
            return fs([NONE])
        return fs([Fr('arr')])


def is_obj_arith(v):
    return False


# ------------------------------------------------------------------------------------------------
# per-operation effects for the contract table

RET_KINDS = ('param', 'view', 'fresh', 'none', 'unknown')


class Effect:
    def __init__(self, analysed, operands=(), stores=(), stores_unknown=False, returns=(), captures=(), unknown=(),
                 cloned=(), where='', why=None):
        self.why = dict(why or {})
        self.analysed = analysed
        self.operands = list(operands)
        self.stores = sorted(stores)
        self.stores_unknown = stores_unknown
        self.returns = sorted(returns)          # [(kind, k)]
        self.captures = sorted(captures)
        self.unknown = list(unknown)
        self.cloned = sorted(cloned)
        self.where = where

    @property
    def returns_unknown(self):
        return any(k == 'unknown' for k, _ in self.returns)

    @property
    def coverage(self):
        if not self.analysed:
            return 'none'
        return 'full' if not (self.stores_unknown or self.returns_unknown) else 'partial'

    def as_dict(self):
        return {'analysed': self.analysed, 'operands': self.operands, 'stores': self.stores,
                'stores_unknown': self.stores_unknown, 'returns': ['%s %s' % (k, i) if k in ('param', 'view') else k for k, i in self.returns],
                'captures': [list(c) for c in self.captures], 'unknown': self.unknown[:6], 'cloned_params': self.cloned,
                'coverage': self.coverage, 'where': self.where, 'why': {str(k): v for k, v in self.why.items()}}


def classify_returns(tags):
    out = set()
    for t in tags:
        if t[0] == 'P':
            out.add(('param', t[1]))
        elif t[0] in ('R', 'EP', 'ER', 'S'):
            out.add(('view', t[1]))
        elif t[0] in ('F', 'C', 'AG', 'MC'):
            out.add(('fresh', 0))
        elif t[0] == 'NONE':
            out.add(('none', 0))
        elif t[0] == 'U':
            out.add(('unknown', 0))
    return out


def locate(src, opname):
    """(FunctionDef, module name, is-method) for a table name, or None."""
    public = opname.split(':')[0]
    owner, _, name = public.partition('.')
    if owner in src.classes:
        fn = src.classes[owner].get(name)
        if fn is None:
            return None
        if any(isinstance(d, ast.Name) and d.id == 'property' for d in fn.decorator_list):
            pass
        mod = {'SplineObject': 'splineobject', 'Curve': 'curve', 'Surface': 'surface', 'Volume': 'volume', 'BSplineBasis': 'basis',
               'G2': 'g2', 'SVG': 'svg', 'STL': 'stl'}.get(owner, 'splinemodel')
        return fn, mod, True
    if owner == 'svg':
        fn = src.function('svg', name)
        return (fn, 'svg', False) if fn is not None else None
    if owner in ('curve_factory', 'surface_factory', 'volume_factory'):
        fn = src.function(owner, name)
        return (fn, owner, False) if fn is not None else None
    return None


def consistent(contract, eff, allow_view_return=False):
    """Python mirror of the Lean relation `Splipy.Heap.Consistent` (used for reporting and for the
    old-tree regression test; the obligation itself is decided in Lean)."""
    if not eff.analysed:
        return True, ''
    ops = eff.operands
    recv = ops[0] if ops else 0
    op_stores = [k for k in eff.stores if k in ops]
    alias_rets = [] if allow_view_return else [(k, i) for k, i in eff.returns if k in ('param', 'view') and i in ops]
    caps = [(t, s) for t, s in eff.captures if s in ops and t != s]
    if contract in ('query', 'fresh'):
        if op_stores:
            return False, 'stores through operand parameter(s) %s' % op_stores
        if alias_rets:
            return False, 'may return %s' % ', '.join('%s of parameter %d' % ('the object' if k == 'param' else 'a view/alias', i) for k, i in alias_rets)
        if caps:
            return False, 'keeps a reference to operand state: %s' % caps
        return True, ''
    if contract in ('inplace', 'procedure'):
        bad = [k for k in op_stores if k != recv]
        if bad:
            return False, 'stores through operand parameter(s) %s other than the receiver' % bad
        want = ('param', recv) if contract == 'inplace' else ('none', 0)
        wrong = [r for r in eff.returns if r != want and r[0] != 'unknown']
        if wrong:
            return False, 'may return %s instead of %s' % (wrong, 'the receiver' if contract == 'inplace' else 'None')
        caps = [(t, s) for t, s in caps if t == recv]
        if caps:
            return False, 'receiver keeps a reference to state of another operand: %s' % caps
        return True, ''
    if contract == 'procedure_all':
        wrong = [r for r in eff.returns if r != ('none', 0) and r[0] != 'unknown']
        if wrong:
            return False, 'may return %s instead of None' % wrong
        return True, ''
    return True, ''


def operand_params(entry, fn, is_method):
    """Indices (in the analysis' numbering) of the parameters that are the operation's operands."""
    override = OPERAND_PARAMS.get(entry.name)
    if override is not None:
        return list(override)
    if entry.shape in ('OO', 'PATH+C', 'PATH+S'):
        return [0, 1]
    if entry.shape == 'LOOP4':
        return [0] if fn.args.vararg and not fn.args.args else [0, 1, 2, 3]
    return [0]


# operand parameters that are not "parameter 0 (and 1)"
OPERAND_PARAMS = {
    'SplineObject.__init__': [1, 2], 'Curve.__init__': [1, 2], 'Surface.__init__': [1, 2, 3], 'Volume.__init__': [1, 2, 3, 4],
    'curve_factory.interpolate': [1], 'curve_factory.least_square_fit': [1],
    'surface_factory.interpolate': [1], 'surface_factory.least_square_fit': [1],
    'volume_factory.interpolate': [1], 'volume_factory.least_square_fit': [1],
    # models and writers: the operand is the patch handed in, not the receiver
    'SplineModel.__init__': [3], 'SplineModel.add': [1], 'SplineModel.__getitem__': [1], 'SplineModel.cps': [],
    'ObjectCatalogue.add': [1], 'ObjectCatalogue.lookup': [1], 'ObjectCatalogue.__call__': [1], 'ObjectCatalogue.__getitem__': [1],
    'Orientation.compute': [0, 1], 'G2.write': [1], 'SVG.write': [1], 'SVG.write_curve': [2], 'SVG.write_surface': [1],
    'SVG.transform': [1], 'svg.bezier_representation': [0], 'STL.write': [1], 'STL.write_surface': [1],
}


def infer_all(srcdir, table):
    """{op name: Effect} for every contracted entry of the table."""
    src = Sources(srcdir)
    an = Analyzer(src)
    out = {}
    for e in table:
        if not e.contracted:
            continue
        loc = locate(src, e.name)
        if loc is None:
            out[e.name] = Effect(False, where='no source function in the analysed files')
            continue
        fn, modname, is_method = loc
        s = an.analyze_op(fn, modname, cls=e.name.split('.')[0] if is_method else None)
        stores = {k for k in s.stores if k != 'U'}
        out[e.name] = Effect(True, operand_params(e, fn, is_method), stores, 'U' in s.stores, classify_returns(s.returns),
                             s.captures, s.unknown, s.cloned, '%s.py:%d' % (modname, fn.lineno), s.why)
    return out


# ------------------------------------------------------------------------------------------------
# sensitivity self-test of the inference: contract violations planted in a scratch copy of the sources

MUTANTS = [
    ('center-divides-in-place', 'splineobject.py', "        result = self.controlpoints\n        for N in Ns[::-1]:",
     "        self.controlpoints /= 2\n        result = self.controlpoints\n        for N in Ns[::-1]:", 'SplineObject.center'),
    ('bounding-box-returns-cps', 'splineobject.py', "        return result\n\n    def center(self):",
     "        return self.controlpoints\n\n    def center(self):", 'SplineObject.bounding_box'),
    ('append-no-clone', 'curve.py', "extending_curve = curve.clone()", "extending_curve = curve", 'Curve.append'),
    ('make-periodic-shares-bases-list', 'splineobject.py', "        bases = list(self.bases)\n        bases[direction] = basis",
     "        bases = self.bases\n        bases[direction] = basis", 'SplineObject.make_periodic'),
    ('split-no-clone', 'splineobject.py', "splitting_obj = self.clone()", "splitting_obj = self", 'SplineObject.split'),
    ('scale-returns-none', 'splineobject.py',
     "        self.controlpoints = np.reshape(np.array(cp), self.controlpoints.shape)\n\n        return self\n\n    def rotate",
     "        self.controlpoints = np.reshape(np.array(cp), self.controlpoints.shape)\n\n    def rotate", 'SplineObject.scale'),
    ('loft-no-clone', 'surface_factory.py', "curves = [c.clone().set_dimension(3) for c in curves]",
     "curves = [c.set_dimension(3) for c in curves]", 'surface_factory.loft'),
    ('lower-order-returns-self', 'splineobject.py', "        if all(l == 0 for l in lowers):\n            return self.clone()",
     "        if all(l == 0 for l in lowers):\n            return self", 'SplineObject.lower_order'),
    ('radd-shallow', 'splineobject.py', "    def __radd__(self, x):\n        return self + x",
     "    def __radd__(self, x):\n        return copy.copy(self)", 'SplineObject.__radd__'),
    ('add-shallow (seeded C11_1)', 'splineobject.py', "    def __add__(self, x):\n        new_obj = copy.deepcopy(self)",
     "    def __add__(self, x):\n        new_obj = copy.copy(self)", 'SplineObject.__add__'),
    ('constructor-asarray (seeded C11_2)', 'splineobject.py', "        self.controlpoints = np.array(controlpoints)",
     "        self.controlpoints = np.asarray(controlpoints)", 'SplineObject.__init__'),
    ('derivative-spline-shares-basis', 'splineobject.py', "            return constructor(*args, raw=True)\n\n\n    def tangent",
     "            r = constructor(*args, raw=True)\n            r.bases = bases\n            return r\n\n\n    def tangent",
     'SplineObject.get_derivative_spline'),
    ('append-keeps-other-basis', 'curve.py', "        self.bases = [BSplineBasis(p, new_knot)]", "        self.bases = [curve.bases[0]]", 'Curve.append'),
    ('evaluate-rational-in-place', 'splineobject.py',
     "        result = evaluate(Ns, self.controlpoints, tensor)\n\n        # For rational objects, we divide out",
     "        result = self.controlpoints\n\n        # For rational objects, we divide out", 'SplineObject.evaluate'),
    ('revolve-no-clone', 'volume_factory.py',
     "    surf = surf.clone()  # clone input surface, throw away old reference\n    surf.set_dimension(3)",
     "    surf.set_dimension(3)", 'volume_factory.revolve'),
    ('const-par-curve-no-basis-clone', 'surface.py', "b    = self.bases[direction].clone()", "b    = self.bases[direction]", 'Surface.const_par_curve'),
    ('section-point-view (the repaired defect)', 'splineobject.py', "        return self.controlpoints[slices].copy()",
     "        return self.controlpoints[slices]", 'SplineObject.section'),
    ('swap-curve-returns-none (the repaired defect)', 'splineobject.py', "        if self.pardim == 1:\n            return self\n",
     "        if self.pardim == 1:\n            return\n", 'SplineObject.swap'),
    ('extrude-no-clone (the repaired defect)', 'volume_factory.py', "    surf = surf.clone()  # don't mess with the input surface\n",
     "", 'volume_factory.extrude'),
]


def selftest(srcdir, table, by_name):
    import shutil
    import tempfile

    def bad_ops(d):
        eff = infer_all(d, table)
        return {n for n, e in eff.items() if not consistent(by_name[n].kind, e, by_name[n].allow_view_return)[0]}
    base = bad_ops(srcdir)
    flagged, missed, na = 0, [], []
    for name, rel, old, new, opn in MUTANTS:
        d = tempfile.mkdtemp(prefix='c11-mutant-')
        try:
            dst = os.path.join(d, 'splipy')
            shutil.copytree(srcdir, dst, ignore=shutil.ignore_patterns('*.so', '__pycache__', '*.c'))
            p = os.path.join(dst, rel)
            text = open(p, encoding='utf-8').read()
            if old not in text:
                na.append(name)
                continue
            with open(p, 'w', encoding='utf-8') as f:
                f.write(text.replace(old, new, 1))
            if opn in bad_ops(dst) - base:
                flagged += 1
            else:
                missed.append(name)
        finally:
            shutil.rmtree(d, ignore_errors=True)
    total = len(MUTANTS) - len(na)
    return {'ok': not missed and total >= 12, 'flagged': flagged, 'total': total, 'missed': missed, 'not_applicable': na}
