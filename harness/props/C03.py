"""C03 — derivatives are the true partial derivatives of the evaluated map.

Correspondence: `derivative()` of the REAL classes (so the `Curve` / `Surface` overrides run) in every
spelling of `d` (int / tuple / list), `above` (bool / list / tuple), `tensor`, scalar and list parameters,
at every knot from both sides, for every multi-index up to total order p+1, versus the Lean model
`Obj.derivativeCall` (dispatch `curveOutcome` / `surfaceOutcome` on top of `derivativeGeneric`,
`curveDerivativeRational`, `surfaceDerivativeRational`); `get_derivative_spline` (all directions, periodic
too) versus `Obj.getDerivativeSpline`; `tangent`, `Surface.normal`, `Curve.binormal`, `Curve.normal`
versus the un-normalised model vectors (normalised in floats on this side).  The model mirrors the code.

Source-derived obligations: `regenerate` translates the current `Curve.derivative` / `Surface.derivative`
(harness/translate/deriv_dispatch.py) into lean/Splipy/Generated/C03.lean and builds
lean/Splipy/Generated/C03Obligations.lean; one result per theorem.

Oracle (model independent): exact `Fraction` differentiation.  Non-rational: Σ Π dB · P.  Rational: the
general Leibniz recursion x_a = (n_a − Σ_{i<a} C(a,i) x_i W_{a−i}) / W from exact jets of numerator and weight,
one-sided per direction as `above` selects.  Where the API returns numbers they must be these; a rational
order the API does not support must raise RuntimeError (never numbers, never another exception).
"""
from fractions import Fraction as F
import itertools
import math
import os
import re
import subprocess
import tempfile

import numpy as np

from vlib import gen, exact
from vlib import leanproof
from vlib.compare import diff, Err
from vlib.val import line, Word
from translate import deriv_dispatch

ID = 'C03'
PYOVERRIDE_METHODS = ['Curve.derivative', 'Surface.derivative']   # Curve/Surface overrides re-translated and proved equal to the hand model each run
PYOBJECT_METHODS = ['derivative']   # splineobject.py methods re-translated and proved equal to the hand model each run
RTOL = 1e-8
ATOL = 1e-10
RULE = ('objects: curves/surfaces/volumes, dim 2-3, orders 1..4 (volumes 1..3), open and periodic directions, interior '
        'multiplicities up to the order (C^-1 knots included), rational with weights 2^-3..2^3; calls: every multi-index up to total '
        'order p+1 (volumes <= 3), d as int / tuple / list, above as bool / list / tuple (per-direction mixes), tensor True/False, '
        'scalar parameters; parameters: every knot of the domain, span interiors, periodic points periods away, a few points '
        'outside (generic path); rational volumes with weights varying in every direction and the mixed multi-indices (1,1,0), (1,0,1), (0,1,1), (1,1,1) as tuple and list (must be refused or be the true mixed partial); get_derivative_spline for every direction / None / invalid / rational; tangent (each direction and '
        'None), Surface.normal (2-D and 3-D), Curve.binormal, Curve.normal.  distinct = distinct protocol lines; non-trivial = '
        'parameters inside the domain.')
REQUIRED_TAGS = ['class=curve', 'class=surface', 'class=volume', 'rational', 'nonrational', 'd=int', 'd=tup', 'd=lst',
                 'above=bool', 'above=seq', 'above=mixed-seq', 'tensor=False', 'scalar-form', 'order=0', 'order>degree',
                 'path=generic', 'path=generic-first-rational', 'path=closed-curve', 'path=closed-surface', 'path=refused',
                 'left@interior-knot', 'periodic-dir', 'kind=dspline', 'dspline-periodic', 'dspline-all', 'kind=tangent',
                 'kind=snormal', 'kind=binormal', 'kind=cnormal', 'outside',
                 'rational-volume-mixed:tup', 'rational-volume-mixed:lst',
                 'kind=history', 'history:dspline-after-reparam', 'history:dspline-after-reverse', 'history:dspline-after-swap',
                 'history:dspline-after-insert', 'history:dspline-after-raise', 'history:dspline-after-clone',
                 'history:deriv-after-reparam', 'history:eval-after-reverse', 'history:tangent-after-reparam',
                 'history:swap-same-shape', 'history:two-ops']
ASSUMPTIONS = ['parameters of closed-form (rational, total order 2-3) calls are inside the domain: outside it the code divides by a zero weight (NaN), which the exact model cannot mirror',
               'the left limit at the start of a non-periodic direction is not requested (C01 covers that convention)',
               'Curve.binormal: accelerations are exactly zero or far from numpy.allclose\'s 1e-8 threshold']
TRUSTED_EXTRA = ['harness/translate/deriv_dispatch.py (Python ast -> Dispatch.Table and closed-form expressions, fails closed); '
                 'the semantics Splipy.Dispatch.Table.outcome of the table language']

# finding classes (shared with the translator's obligations).  K_LIST, K_ABOVE, K_LEFT, K_ZERO were repaired in
# /repo (cd5762c, ea90458, 9f6e350): the labels stay so that a returning defect is reported under its name.
K_LIST = deriv_dispatch.K_LIST                      # rational Surface.derivative, d not a tuple -> zeros   (fixed)
K_ABOVE = deriv_dispatch.K_ABOVE                    # closed forms: `above` list/tuple used by truthiness   (fixed)
K_LEFT = deriv_dispatch.K_LEFT                      # rational left limit at a C^-1 knot used right-hand n, W (fixed)
K_TENSOR = 'rational-surface-closed-form-tensor-false-indexerror'
K_ZERO = 'rational-derivative-order-zero-returns-zero'                                                  # (fixed)
K_DSNAN = 'derivative-spline-nan-at-discontinuity'
K_DSONE = 'derivative-spline-periodic-single-controlpoint'   # C[i,i] overwritten by C[i,(i+1)%n] when n == 1

_GEN = {'info': None}


# ---------------------------------------------------------------------------------------------
# argument spellings

def _py_d(d):
    k, v = d
    return int(v) if k == 'int' else (tuple(v) if k == 'tup' else list(v))


def _py_above(s):
    k, v = s['above']
    if k == 'bool':
        return bool(v)
    return tuple(v) if s.get('atuple') else list(v)


def _enc_d(d):
    return [Word(d[0]), d[1]]


def _enc_above(a):
    return [Word(a[0]), a[1]]


def _meaning(d, pd):
    """Multi-index a documented spelling denotes (None: spelling outside the documented ones)."""
    k, v = d
    if k == 'int':
        return [v] * pd
    return list(v) if len(v) == pd else None


def _sides(a, pd):
    k, v = a
    if k == 'bool':
        return [bool(v)] * pd
    return [bool(x) for x in v] if len(v) == pd else None


# ---------------------------------------------------------------------------------------------
# generators

def _vary_weights(rng, o):
    cps = np.array(o['cps'], dtype=float)
    flat = cps.reshape(-1, cps.shape[-1])
    for r in flat:
        r[-1] = rng.choice([0.125, 0.25, 0.5, 1.0, 1.0, 2.0, 4.0, 8.0])
    o['cps'] = cps.tolist()


def _dir_points(rng, b, n, sides_may_be_left, per_span=1, outside=True):
    info = gen.basis_info(b)
    pts = gen.eval_points(rng, b, per_span=per_span, outside=outside)
    if sides_may_be_left and b['periodic'] < 0:
        pts = [t for t in pts if t != info['start']]
    ks = set(gen.distinct_knots(b))
    knots = [t for t in pts if t in ks]
    rest = [t for t in pts if t not in ks]
    rng.shuffle(knots)
    rng.shuffle(rest)
    out = []
    while len(out) < n and (knots or rest):
        src = knots if (knots and (len(out) % 2 == 0 or not rest)) else rest
        out.append(src.pop())
    return out


def _above_variants(pd):
    out = [('bool', True, False), ('bool', False, False)]
    for t in itertools.product([True, False], repeat=pd):
        out.append(('seq', list(t), False))
        out.append(('seq', list(t), True))
    return out


def _multi_indices(pd, total):
    return [list(t) for t in itertools.product(range(total + 1), repeat=pd) if sum(t) <= total]


def _obj(rng, pardim, rational, tier, k):
    o = gen.rand_object(rng, pardim=pardim, rational=rational, pmax=4 if pardim < 3 else 3,
                        max_interior=2 if pardim < 3 else 1, periodic_prob=0.3,
                        dim=(3 if k % 3 == 0 else None),
                        wide=(tier == 'thorough' and rng.random() < 0.1))
    if rational and rng.random() < 0.7:
        _vary_weights(rng, o)
    return o


def _deriv_spec(rng, o, idx, dk, above, tensor, scalar=False, npts=None, outside=False):
    pd = len(o['bases'])
    if dk == 'int':
        d = ['int', idx[0]]
    else:
        d = [dk, list(idx)]
    ak, av, atuple = above
    left = (ak == 'bool' and not av) or (ak == 'seq' and not all(av))
    n = npts or {1: 5, 2: 3, 3: 2}[pd]
    if scalar:
        n = 1
    params = [_dir_points(rng, b, n, left) for b in o['bases']]
    if not tensor or scalar:
        m = min(len(p) for p in params)
        params = [p[:m] for p in params]
    if outside:
        nonper = [i for i, b in enumerate(o['bases']) if b['periodic'] < 0]
        if nonper:
            i = rng.choice(nonper)
            info = gen.basis_info(o['bases'][i])
            params[i][rng.randrange(len(params[i]))] = rng.choice([info['start'] - 0.25, info['end'] + 0.5])
    return {'kind': 'deriv', 'obj': o, 'params': params, 'd': d, 'above': [ak, av], 'atuple': bool(atuple),
            'tensor': bool(tensor), 'scalar': bool(scalar)}


def generate(rng, tier):
    specs = []
    nobj = 40 if tier == 'quick' else 700
    cyc = {1: 0, 2: 0, 3: 0}
    for oi in range(nobj):
        pardim = [1, 2, 1, 2, 3][oi % 5]
        rational = (oi // 5) % 2 == 0 if oi % 5 != 4 else (oi // 5) % 3 == 0
        if oi % 5 in (2, 3):
            rational = not rational
        o = _obj(rng, pardim, rational, tier, oi)
        pd = pardim
        pmax = max(b['order'] for b in o['bases']) - 1
        total = min(pmax + 1, {1: 5, 2: 4, 3: 3}[pd])
        total = max(total, {1: 4, 2: 3, 3: 2}[pd] if rational else 1)
        avs = _above_variants(pd)
        mis = _multi_indices(pd, total)
        if pd == 3 and tier == 'quick':
            hi = [m for m in mis if sum(m) > 1]
            mis = [m for m in mis if sum(m) <= 1] + rng.sample(hi, min(4, len(hi)))
        if pd == 2 and tier == 'quick' and len(mis) > 12:
            low = [m for m in mis if sum(m) <= 3]
            hi = [m for m in mis if sum(m) > 3]
            mis = low + rng.sample(hi, min(2, len(hi)))
        for idx in mis:
            cyc[pd] += 1
            c = cyc[pd]
            kinds = ['tup', 'lst', 'int'] if (pd == 1 or len(set(idx)) == 1) else ['tup', 'lst', 'tup']
            dk = kinds[c % 3]
            above = avs[(c * 7 + oi) % len(avs)]
            tensor = not (c % 4 == 1)
            specs.append(_deriv_spec(rng, o, idx, dk, above, tensor, scalar=(c % 9 == 4)))
            # the closed-form window of rational curves / surfaces: every spelling of d and a second `above`
            if rational and pd <= 2 and 2 <= sum(idx) <= 3:
                for dk2 in kinds:
                    if dk2 != dk:
                        specs.append(_deriv_spec(rng, o, idx, dk2, avs[(c * 5 + 1) % len(avs)], True, npts=2))
                if c % 2 == 0:
                    specs.append(_deriv_spec(rng, o, idx, 'tup', avs[(c * 3 + 2) % len(avs)], False, npts=2))
        # spellings outside the documented ones (correspondence only)
        if oi % 4 == 0:
            if pd == 1:
                specs.append(_deriv_spec(rng, o, [2, 1], rng.choice(['tup', 'lst']), avs[0], True, npts=2))
            else:
                s = _deriv_spec(rng, o, [1] * pd, 'tup', avs[0], True, npts=2)
                s['d'] = [rng.choice(['tup', 'lst']), [1]]          # short sequence: padded by ensure_listlike
                specs.append(s)
        # outside the domain / unequal lengths: ValueError on the generic path
        if not rational and oi % 3 == 0:
            specs.append(_deriv_spec(rng, o, [1] + [0] * (pd - 1), 'tup', avs[0], True, outside=True))
            if pd > 1:
                s = _deriv_spec(rng, o, [1] + [0] * (pd - 1), 'tup', avs[0], True, npts=3)
                if len(s['params'][0]) > 1:
                    s['params'][0] = s['params'][0][:-1]
                    s['tensor'] = False
                    specs.append(s)
        # derivative splines
        for k in range(pd):
            specs.append({'kind': 'dspline', 'obj': o, 'dir': k, 'dirspell': rng.choice(['int', 'str']),
                          'params': [_dir_points(rng, b, {1: 5, 2: 3, 3: 2}[pd], False, outside=False) for b in o['bases']]})
        if oi % 2 == 0:
            specs.append({'kind': 'dspline', 'obj': o, 'dir': -1, 'dirspell': 'int',
                          'params': [_dir_points(rng, b, 2, False, outside=False) for b in o['bases']]})
        if oi % 6 == 1:
            specs.append({'kind': 'dspline', 'obj': o, 'dir': pd, 'dirspell': 'int', 'params': [[] for _ in o['bases']]})
        # tangents / normals
        for j in range(2):
            above = avs[(oi * 3 + j * 5) % len(avs)]
            ak, av, atuple = above
            left = (ak == 'bool' and not av) or (ak == 'seq' and not all(av))
            tensor = not (pd > 1 and (oi + j) % 3 == 0)
            n = {1: 4, 2: 3, 3: 2}[pd]
            params = [_dir_points(rng, b, n, left) for b in o['bases']]
            if not tensor:
                m = min(len(p) for p in params)
                params = [p[:m] for p in params]
            base = {'obj': o, 'params': params, 'above': [ak, av], 'atuple': bool(atuple), 'tensor': tensor}
            specs.append(dict(base, kind='tangent', dir=(-1 if j == 0 else rng.randrange(pd))))
            if pd == 2:
                specs.append(dict(base, kind='snormal'))
            if pd == 1:
                specs.append(dict(base, kind='binormal', tensor=True))
                specs.append(dict(base, kind='cnormal', tensor=True))
    specs.extend(_mixed_rational_volume_specs(rng, tier))
    specs.extend(_history_specs(rng, tier))
    return specs


MIXED_FIRST = [[1, 1, 0], [1, 0, 1], [0, 1, 1], [1, 1, 1]]


def _mixed_rational_volume_specs(rng, tier):
    """Rational volumes (no closed-form override: generic path) with weights varying in every direction, orders >= 2,
    and the mixed multi-indices whose entries are all <= 1 but whose total order is >= 2, as tuple and as list: the
    API must refuse them (RuntimeError) or return the true mixed partial of n/W."""
    specs = []
    nobj = 2 if tier == 'quick' else 20
    for k in range(nobj):
        o = gen.rand_object(rng, pardim=3, rational=True, pmin=2, pmax=3, max_interior=1, periodic_prob=0.2,
                            max_mult=1)
        _vary_weights(rng, o)
        avs = _above_variants(3)
        for j, idx in enumerate(MIXED_FIRST):
            for dk in ('tup', 'lst'):
                s = _deriv_spec(rng, o, idx, dk, avs[(k * 5 + j) % len(avs)], True, npts=2)
                s['mixed_first'] = True
                specs.append(s)
    return specs


# ---------------------------------------------------------------------------------------------
# histories: query, in-place operations, the same query again (hidden per-object state)

def _same_shape_basis(rng, b):
    """A basis with the order / multiplicity pattern of `b` but different (non-uniform) knot values."""
    ks = b['knots']
    dist = sorted(set(ks))
    new = gen.increasing(rng, len(dist), start=rng.choice([0.0, -1.0, 2.0]), uniform=False)
    m = dict(zip(dist, new))
    return {'order': b['order'], 'knots': [m[k] for k in ks], 'periodic': b['periodic']}


def _hist_obj(rng, pardim, periodic_ok, rational, same_shape=False):
    for _ in range(50):
        o = gen.rand_object(rng, pardim=pardim, rational=rational, pmax=4 if pardim < 3 else 3, pmin=2,
                            max_interior=2, periodic_prob=0.3 if periodic_ok else 0.0, max_mult=1)
        if any(b['periodic'] >= 0 and gen.basis_info(b)['n'] < 2 for b in o['bases']):
            continue
        if same_shape and pardim == 2:
            b1 = o['bases'][0]
            o['bases'][1] = _same_shape_basis(rng, b1)
            n = gen.basis_info(b1)['n']
            ncomp = len(np.array(o['cps']).reshape(-1, np.array(o['cps']).shape[-1])[0])
            o['cps'] = gen.rand_cps(rng, [n, n], ncomp, o['rational'])
        return o
    raise AssertionError('no history object')


def _hist_ops(rng, o, first):
    """One operation (list form) valid on the ORIGINAL bases; `first` picks the kind."""
    pd = len(o['bases'])
    d = rng.randrange(pd)
    if first == 'reparam':
        s0 = rng.choice([0.0, -1.0, 2.0, 0.5])
        info = gen.basis_info(o['bases'][d])
        length = (info['end'] - info['start']) * rng.choice([2.0, 0.5, 4.0, 3.0, 0.25])   # never the old length
        return ['reparam', d, s0, s0 + length]
    if first == 'reverse':
        return ['reverse', d]
    if first == 'swap':
        return ['swap', 0, 1] if pd < 3 else ['swap'] + rng.sample(range(3), 2)
    if first == 'insert':
        info = gen.basis_info(o['bases'][d])
        ks = [x for x in gen.distinct_knots(o['bases'][d]) if info['start'] <= x <= info['end']]
        i = rng.randrange(len(ks) - 1)
        return ['insert', d, ks[i] + (ks[i + 1] - ks[i]) * rng.choice([0.5, 0.25, 0.75])]
    if first == 'raise':
        am = [0] * pd
        am[d] = 1
        return ['raise', am if pd > 1 else [1]]
    if first == 'translate':
        dim = np.array(o['cps']).shape[-1] - (1 if o['rational'] else 0)
        return ['translate', [gen.dyadic(rng, -2, 2) for _ in range(dim)]]
    if first == 'scale':
        return ['scale', [rng.choice([2.0, 0.5, 4.0])]]
    if first == 'clone':
        return ['clone']
    raise AssertionError(first)


def _history_specs(rng, tier):
    specs = []
    reps = 2 if tier == 'quick' else 14
    kinds = ['reparam', 'reverse', 'swap', 'insert', 'raise', 'translate', 'scale', 'clone']
    k = 0
    for rep in range(reps):
        for first in kinds:
            for qk in ['dspline', 'deriv', 'eval', 'tangent']:
                k += 1
                pd = [1, 2, 2, 1, 2, 3][k % 6] if qk != 'dspline' else [1, 2, 2, 2][k % 4]
                if first == 'swap' and pd == 1:
                    pd = 2
                rational = (qk != 'dspline') and k % 3 == 0
                same = first == 'swap' and pd == 2 and k % 2 == 0
                periodic_ok = first not in ('insert', 'raise') and not same
                o = _hist_obj(rng, pd, periodic_ok, rational, same_shape=same)
                ops = [_hist_ops(rng, o, first)]
                if k % 3 == 1 and first not in ('insert', 'raise'):
                    ops.append(_hist_ops(rng, o, rng.choice(['reparam', 'reverse', 'clone', 'translate'])))
                elif k % 3 == 2 and first in ('insert', 'raise'):
                    ops.append(_hist_ops(rng, o, rng.choice(['reparam', 'reverse', 'clone'])))
                left = rng.random() < 0.4
                fr = [0.25, 0.5, 0.75, 1.0, 0.125, 0.875] + ([] if left else [0.0])
                n = {1: 4, 2: 3, 3: 2}[pd]
                fracs = [rng.sample(fr, n) for _ in range(pd)]
                if qk == 'dspline':
                    # differentiate the direction the first operation touches
                    qd = ops[0][1] if ops[0][0] in ('reparam', 'reverse', 'insert') else rng.randrange(pd)
                    q = {'q': 'dspline', 'dir': qd, 'fracs': fracs}
                elif qk == 'deriv':
                    tot = 1 if rational or pd == 3 else rng.choice([1, 1, 2])
                    idx = [0] * pd
                    for _ in range(tot):
                        idx[rng.randrange(pd)] += 1
                    q = {'q': 'deriv', 'fracs': fracs, 'd': [rng.choice(['tup', 'lst']), idx],
                         'above': ['bool', not left], 'tensor': True}
                elif qk == 'eval':
                    q = {'q': 'eval', 'fracs': fracs, 'tensor': True}
                else:
                    q = {'q': 'tangent', 'fracs': fracs, 'dir': rng.randrange(pd), 'above': ['bool', not left], 'tensor': True}
                specs.append({'kind': 'history', 'obj': o, 'ops': ops, 'query': q, 'same_shape': bool(same)})
    return specs


# ---------------------------------------------------------------------------------------------
# model / implementation

def model_line(s):
    k = s['kind']
    eo = gen.enc_object(s['obj'])
    if k == 'deriv':
        return line('c03_deriv', eo, gen.TOL, s['params'], _enc_d(s['d']), _enc_above(s['above']), s['tensor'])
    if k == 'history':
        return line('c03_history', eo, gen.TOL, [_enc_op(op) for op in s['ops']], _enc_query(s['query']))
    if k == 'dspline':
        return line('c03_dspline', eo, gen.TOL, s['dir'])
    if k == 'tangent':
        return line('c03_tangent', eo, gen.TOL, s['params'], s['dir'], _enc_above(s['above']), s['tensor'])
    if k == 'snormal':
        return line('c03_snormal', eo, gen.TOL, s['params'], _enc_above(s['above']), s['tensor'])
    if k == 'binormal':
        return line('c03_binormal', eo, gen.TOL, s['params'][0], _enc_above(s['above']))
    if k == 'cnormal':
        return line('c03_cnormal', eo, gen.TOL, s['params'][0], _enc_above(s['above']))
    raise AssertionError(k)


def _enc_op(op):
    return [Word(op[0])] + list(op[1:])


def _enc_query(q):
    k = q['q']
    if k == 'dspline':
        return [Word('dspline'), q['dir']]
    if k == 'deriv':
        return [Word('deriv'), q['fracs'], _enc_d(q['d']), _enc_above(q['above']), q['tensor']]
    if k == 'tangent':
        return [Word('tangent'), q['fracs'], q['dir'], _enc_above(q['above']), q['tensor']]
    return [Word('eval'), q['fracs'], q['tensor']]


def _apply_op(obj, op):
    k = op[0]
    if k == 'reparam':
        obj.reparam((op[2], op[3]), direction=op[1])
    elif k == 'reverse':
        obj.reverse(op[1])
    elif k == 'swap':
        if obj.pardim > 1:
            obj.swap(op[1], op[2])
        else:
            obj.swap()
    elif k == 'insert':
        obj.insert_knot(op[2], op[1])
    elif k == 'raise':
        obj.raise_order(*op[1])
    elif k == 'translate':
        obj.translate(list(op[1]))
    elif k == 'scale':
        obj.scale(*op[1])
    elif k == 'clone':
        obj = obj.clone()
    else:
        raise AssertionError(k)
    return obj


def _frac_params(obj, fracs):
    return [[float(obj.start(k)) + f * (float(obj.end(k)) - float(obj.start(k))) for f in fs] for k, fs in enumerate(fracs)]


def _run_query(obj, q):
    k = q['q']
    with np.errstate(all='ignore'):
        if k == 'dspline':
            return gen.obj_observables(obj.get_derivative_spline(q['dir']))
        ps = _frac_params(obj, q['fracs'])
        if k == 'deriv':
            return _flat(obj.derivative(*ps, d=_py_d(q['d']), above=bool(q['above'][1]), tensor=q['tensor']))
        if k == 'eval':
            return _flat(obj.evaluate(*ps))
        r = obj.tangent(*ps, direction=q['dir'], above=bool(q['above'][1]), tensor=q['tensor'])
        return [_flat(x) for x in r] if isinstance(r, tuple) else [_flat(r)]


def _run_history(sp, s):
    """[query before, 'ok', query after on the same object, query after on a clone]."""
    obj = gen.mk_object(sp, s['obj'])
    before = _run_query(obj, s['query'])
    for op in s['ops']:
        obj = _apply_op(obj, op)
    after = _run_query(obj, s['query'])
    after_clone = _run_query(obj.clone(), s['query'])
    return [before, Word('ok'), after, after_clone], obj


def _flat(a):
    return np.asarray(a, dtype=float).reshape(-1).tolist()


def _call_params(s):
    ps = [list(p) for p in s['params']]
    if s.get('scalar'):
        return [p[0] for p in ps]
    return ps


def _call_deriv(sp, s):
    o = gen.mk_object(sp, s['obj'])
    return o.derivative(*_call_params(s), d=_py_d(s['d']), above=_py_above(s), tensor=s['tensor'])


def _dir_arg(s):
    if s['dir'] < 0:
        return None
    if s.get('dirspell') == 'str' and s['dir'] < 3:
        return 'uvw'[s['dir']]
    return s['dir']


def _call_kind(sp, s):
    k = s['kind']
    o = gen.mk_object(sp, s['obj'])
    if k == 'tangent':
        return o.tangent(*[list(p) for p in s['params']], direction=_dir_arg(s), above=_py_above(s), tensor=s['tensor'])
    if k == 'snormal':
        return o.normal(*[list(p) for p in s['params']], above=_py_above(s), tensor=s['tensor'])
    if k == 'binormal':
        return o.binormal(list(s['params'][0]), above=_py_above(s))
    if k == 'cnormal':
        return o.normal(list(s['params'][0]), above=_py_above(s))
    raise AssertionError(k)


def run_impl(sp, s):
    k = s['kind']
    if k == 'history':
        return _run_history(sp, s)[0]
    if k == 'deriv':
        with np.errstate(all='ignore'):
            return _flat(_call_deriv(sp, s))
    if k == 'dspline':
        o = gen.mk_object(sp, s['obj'])
        with np.errstate(all='ignore'):
            r = o.get_derivative_spline(_dir_arg(s))
        if s['dir'] < 0:
            return [gen.obj_observables(x) for x in r]
        return gen.obj_observables(r)
    with np.errstate(all='ignore'):
        r = _call_kind(sp, s)
    if k == 'tangent' and isinstance(r, tuple):
        return [_flat(x) for x in r]
    if k == 'tangent':
        return [_flat(r)]
    return _flat(r)


def _unit_rows(vec):
    """model `[shape, flat, normsq]` -> flat list of the normalised rows (None where the norm vanishes)."""
    shape, flat, nsq = vec
    nc = int(shape[-1])
    out = []
    for i, q in enumerate(nsq):
        nrm = math.sqrt(float(q))
        row = flat[i * nc:(i + 1) * nc]
        out.append(None if nrm == 0.0 else [float(x) / nrm for x in row])
    return out, nc


def _cmp_unit(iv, vec, path):
    rows, nc = _unit_rows(vec)
    iv = list(iv)
    if len(iv) != len(rows) * nc:
        return '%s: impl has %d numbers, model %d' % (path, len(iv), len(rows) * nc)
    for i, row in enumerate(rows):
        got = iv[i * nc:(i + 1) * nc]
        if row is None:
            continue          # 0/0 in the implementation: direction undefined
        for c in range(nc):
            if not (abs(got[c] - row[c]) <= 1e-8):
                return '%s[%d][%d]: impl %.17g vs model %.17g' % (path, i, c, got[c], row[c])
    return None


def _cmp_query(q, iv, mv, path):
    if isinstance(mv, str) and mv.startswith('err:'):
        return diff(iv, mv, RTOL, ATOL, path=path)
    k = q['q']
    if k == 'dspline':
        return diff(iv, mv, RTOL, ATOL, path=path)
    if k in ('deriv', 'eval'):
        if len(iv) != len(mv[1]):
            return '%s: impl has %d numbers, model %d' % (path, len(iv), len(mv[1]))
        return diff(iv, mv[1], RTOL, ATOL, path=path)
    if len(iv) != len(mv):
        return '%s: impl returned %d tangent fields, model %d' % (path, len(iv), len(mv))
    for j, (a, b) in enumerate(zip(iv, mv)):
        d = _cmp_unit(a, b, '%s[%d]' % (path, j))
        if d:
            return d
    return None


def compare(s, iv, mv):
    k = s['kind']
    if isinstance(iv, Err) or (isinstance(mv, str) and mv.startswith('err:')):
        return diff(iv, mv, RTOL, ATOL)
    if k == 'history':
        if str(mv[1]) != 'ok':
            return '$: model operation raised %s, implementation did not' % mv[1]
        return (_cmp_query(s['query'], iv[0], mv[0], '$.before') or _cmp_query(s['query'], iv[2], mv[2], '$.after')
                or _cmp_query(s['query'], iv[3], mv[2], '$.after-clone'))
    if k == 'deriv':
        flat = mv[1]
        if len(iv) != len(flat):
            return '$: impl has %d numbers, model %d' % (len(iv), len(flat))
        return diff(iv, flat, RTOL, ATOL)
    if k == 'dspline':
        return diff(iv, mv, RTOL, ATOL)
    if k == 'tangent':
        if len(iv) != len(mv):
            return '$: impl returned %d tangent fields, model %d' % (len(iv), len(mv))
        for j, (a, b) in enumerate(zip(iv, mv)):
            d = _cmp_unit(a, b, '$[%d]' % j)
            if d:
                return d
        return None
    return _cmp_unit(iv, mv, '$')


# ---------------------------------------------------------------------------------------------
# exact differentiation (definitions only)

def _fc(o):
    return exact.obj_arrays(o)[1]


def _contract(fc, rows):
    t = fc
    for r in rows:
        t = np.tensordot(np.array(r, dtype=object), t, axes=(0, 0))
    return [F(x) for x in np.asarray(t, dtype=object).reshape(-1)]


def exact_derivative(o, fc, pt, idx, rights):
    """(value as list of Fractions | None when the one-sided limit is outside the domain, magnitude scale)."""
    bases = o['bases']
    pd = len(bases)
    rows = [[exact.basis_row(b, pt[k], a, rights[k]) for a in range(idx[k] + 1)] for k, b in enumerate(bases)]

    def jet(a):
        return _contract(fc, [rows[k][a[k]] for k in range(pd)])

    if not o['rational']:
        v = jet(idx)
        return v, max([1.0] + [abs(float(x)) for x in v])
    subs = sorted(itertools.product(*[range(i + 1) for i in idx]), key=lambda a: (sum(a), a))
    J = {a: jet(a) for a in subs}
    W = J[subs[0]][-1]
    if W == 0:
        return None, 1.0
    x, sc = {}, {}
    dim = len(J[subs[0]]) - 1
    for a in subs:
        acc = list(J[a][:dim])
        mag = [abs(float(v)) for v in acc]
        for i in subs:
            if i != a and all(i[k] <= a[k] for k in range(pd)):
                c = 1
                for k in range(pd):
                    c *= math.comb(a[k], i[k])
                w = J[tuple(a[k] - i[k] for k in range(pd))][-1]
                for j in range(dim):
                    acc[j] -= c * x[i][j] * w
                    mag[j] += c * sc[i][j] * abs(float(w))
        x[a] = [v / W for v in acc]
        sc[a] = [m / abs(float(W)) for m in mag]
    a = tuple(idx)
    return x[a], max([1.0] + sc[a])


def _in_domain(o, params):
    for b, ps in zip(o['bases'], params):
        if b['periodic'] < 0 and ps:
            info = gen.basis_info(b)
            if any(t < info['start'] - gen.TOL or t > info['end'] + gen.TOL for t in ps):
                return False
    return True


def _points(s):
    """(index into the flat result, parameter tuple) for every evaluation point of the call."""
    params = s['params']
    pd = len(params)
    if s.get('tensor', True) and not s.get('scalar'):
        return [list(p) for p in itertools.product(*params)]
    m = min(len(p) for p in params)
    return [[params[k][i] for k in range(pd)] for i in range(m)]


def _close(got, want, scale, rtol=2e-8):
    return all(abs(float(g) - float(w)) <= 1e-10 + rtol * scale for g, w in zip(got, want))


def _cross(a, b):
    return [a[1] * b[2] - a[2] * b[1], a[2] * b[0] - a[0] * b[2], a[0] * b[1] - a[1] * b[0]]


def _unit(v):
    n = math.sqrt(sum(float(x) * float(x) for x in v))
    return None if n == 0.0 else [float(x) / n for x in v]


def _oracle_deriv(sp, s):
    o = s['obj']
    pd = len(o['bases'])
    idx = _meaning(s['d'], pd)
    rights = _sides(s['above'], pd)
    if idx is None or rights is None:
        return []
    if not _in_domain(o, s['params']):
        return []
    if not s['tensor'] and len({len(p) for p in s['params']}) != 1:
        return []
    call = 'derivative(d=%r, above=%r, tensor=%r)' % (_py_d(s['d']), _py_above(s), s['tensor'])
    try:
        with np.errstate(all='ignore'):
            res = np.asarray(_call_deriv(sp, s), dtype=float).reshape(-1)
    except Exception as e:  # noqa: BLE001
        if o['rational'] and sum(idx) >= 2 and isinstance(e, (RuntimeError, NotImplementedError)):
            return []       # an order the API does not support is refused
        return ['%s raised %s: %s' % (call, type(e).__name__, str(e)[:80])]
    fc = _fc(o)
    dim = fc.shape[-1] - (1 if o['rational'] else 0)
    pts = _points(s)
    if res.size != len(pts) * dim:
        return ['%s returned %d numbers for %d points of dimension %d' % (call, res.size, len(pts), dim)]
    for i, pt in enumerate(pts):
        want, scale = exact_derivative(o, fc, pt, idx, rights)
        if want is None:
            continue
        want = want[:dim]
        got = res[i * dim:(i + 1) * dim]
        if not np.all(np.isfinite(got)) or not _close(got, want, scale):
            return ['%s at %r (sides %r) is %r, the derivative of the evaluated map is %r' % (
                call, pt, rights, [float(x) for x in got], [float(x) for x in want])]
    return []


def _oracle_dspline(sp, s):
    o = s['obj']
    pd = len(o['bases'])
    if o['rational'] or s['dir'] >= pd:
        return []
    dirs = list(range(pd)) if s['dir'] < 0 else [s['dir']]
    if any(o['bases'][k]['order'] < 2 for k in dirs):
        return []           # a piecewise constant direction has no derivative spline (order 0)
    obj = gen.mk_object(sp, o)
    try:
        with np.errstate(all='ignore'):
            r = obj.get_derivative_spline(_dir_arg(s))
    except Exception as e:  # noqa: BLE001
        return ['get_derivative_spline(%r) raised %s: %s' % (_dir_arg(s), type(e).__name__, str(e)[:80])]
    ds = list(r) if s['dir'] < 0 else [r]
    fc = _fc(o)
    fails = []
    params = s['params']
    for k, dso in zip(dirs, ds):
        unit = [1 if j == k else 0 for j in range(pd)]
        with np.errstate(all='ignore'):
            try:
                val = np.asarray(dso.evaluate(*[list(p) for p in params]), dtype=float)
                der = np.asarray(obj.derivative(*[list(p) for p in params], d=tuple(unit)), dtype=float)
            except Exception as e:  # noqa: BLE001
                return ['evaluating the derivative spline (direction %d) raised %s: %s' % (k, type(e).__name__, str(e)[:80])]
        val = val.reshape(-1)
        der = der.reshape(-1)
        dim = fc.shape[-1]
        pts = [list(p) for p in itertools.product(*params)]
        if val.size != len(pts) * dim:
            return ['derivative spline (direction %d) has dimension %d, expected %d' % (k, val.size // max(1, len(pts)), dim)]
        for i, pt in enumerate(pts):
            want, scale = exact_derivative(o, fc, pt, unit, [True] * pd)
            got = val[i * dim:(i + 1) * dim]
            if not np.all(np.isfinite(got)) or not _close(got, want, scale):
                fails.append('get_derivative_spline(%d).evaluate%r = %r but the derivative is %r' % (
                    k, tuple(pt), [float(x) for x in got], [float(x) for x in want]))
                break
            if not _close(got, der[i * dim:(i + 1) * dim], scale):
                fails.append('get_derivative_spline(%d).evaluate%r differs from derivative(d=%r)' % (k, tuple(pt), tuple(unit)))
                break
    return fails


def _oracle_vec(sp, s):
    """tangent / normal / binormal: normalised exact first derivatives and their cross products."""
    o = s['obj']
    k = s['kind']
    pd = len(o['bases'])
    rights = _sides(s['above'], pd)
    if rights is None or not _in_domain(o, s['params']):
        return []
    fc = _fc(o)
    dim = fc.shape[-1] - (1 if o['rational'] else 0)
    if k in ('binormal', 'cnormal') and dim != 3:
        return []
    if k == 'snormal' and dim not in (2, 3):
        return []
    if k == 'tangent' and s['dir'] >= pd:
        return []
    if not s['tensor'] and len({len(p) for p in s['params']}) != 1:
        return []
    try:
        with np.errstate(all='ignore'):
            r = _call_kind(sp, s)
    except Exception as e:  # noqa: BLE001
        return ['%s(above=%r, tensor=%r) raised %s: %s' % (k, _py_above(s), s['tensor'], type(e).__name__, str(e)[:80])]
    pts = _points(s)

    def D(pt, idx):
        v, _ = exact_derivative(o, fc, pt, idx, rights)
        return None if v is None else v[:dim]

    def unitvec(j):
        return [1 if i == j else 0 for i in range(pd)]

    fields = []   # (name, got flat array, function pt -> expected un-normalised vector or None)
    if k == 'tangent':
        if pd == 1 or s['dir'] >= 0:
            j = 0 if pd == 1 else s['dir']
            fields.append(('tangent(direction=%d)' % j, np.asarray(r, dtype=float).reshape(-1), lambda pt, j=j: D(pt, unitvec(j))))
        else:
            if not isinstance(r, tuple) or len(r) != pd:
                return ['tangent() did not return one field per direction']
            for j in range(pd):
                fields.append(('tangent()[%d]' % j, np.asarray(r[j], dtype=float).reshape(-1), lambda pt, j=j: D(pt, unitvec(j))))
        odim = dim
    elif k == 'snormal':
        odim = 3
        if dim == 2:
            fields.append(('normal', np.asarray(r, dtype=float).reshape(-1), lambda pt: [0, 0, 1]))
        else:
            def f(pt):
                a, b = D(pt, [1, 0]), D(pt, [0, 1])
                return None if a is None or b is None else _cross(a, b)
            fields.append(('normal', np.asarray(r, dtype=float).reshape(-1), f))
    else:
        odim = 3

        def fb(pt):
            a, b = D(pt, [1]), D(pt, [2])
            if a is None or b is None or all(x == 0 for x in b):
                return None           # vanishing acceleration: the binormal is a free choice
            return _cross(a, b)

        def fn(pt):
            b = fb(pt)
            a = D(pt, [1])
            return None if b is None else _cross(b, a)
        fields.append((k, np.asarray(r, dtype=float).reshape(-1), fb if k == 'binormal' else fn))
    for name, got, f in fields:
        if got.size != len(pts) * odim:
            return ['%s returned %d numbers for %d points' % (name, got.size, len(pts))]
        for i, pt in enumerate(pts):
            w = f(pt)
            u = None if w is None else _unit(w)
            if u is None:
                continue
            g = got[i * odim:(i + 1) * odim]
            if not np.all(np.isfinite(g)) or any(abs(g[c] - u[c]) > 1e-7 for c in range(odim)):
                return ['%s(above=%r) at %r is %r, expected the normalised %r' % (name, _py_above(s), pt, [float(x) for x in g], u)]
    return []


def _oracle_query(obj, q, tag):
    """The query on `obj` against the exact derivatives of the object's CURRENT spec."""
    o = gen.spec_of_object(obj)
    pd = len(o['bases'])
    fc = _fc(o)
    dim = fc.shape[-1] - (1 if o['rational'] else 0)
    ps = _frac_params(obj, q['fracs'])
    pts = [list(p) for p in itertools.product(*ps)]
    k = q['q']
    try:
        with np.errstate(all='ignore'):
            if k == 'dspline':
                if o['rational'] or o['bases'][q['dir']]['order'] < 2:
                    return []
                unit = [1 if j == q['dir'] else 0 for j in range(pd)]
                ds = obj.get_derivative_spline(q['dir'])
                got = np.asarray(ds.evaluate(*ps), dtype=float).reshape(-1)
                der = np.asarray(obj.derivative(*ps, d=tuple(unit)), dtype=float).reshape(-1)
                idx, rights, odim = unit, [True] * pd, fc.shape[-1]
            elif k == 'deriv':
                idx = _meaning(q['d'], pd)
                rights = [bool(q['above'][1])] * pd
                got = np.asarray(obj.derivative(*ps, d=_py_d(q['d']), above=bool(q['above'][1]), tensor=q['tensor']), dtype=float).reshape(-1)
                der, odim = None, dim
            elif k == 'eval':
                idx, rights, odim, der = [0] * pd, [True] * pd, dim, None
                got = np.asarray(obj.evaluate(*ps), dtype=float).reshape(-1)
            else:
                idx = [1 if j == q['dir'] else 0 for j in range(pd)]
                rights, odim, der = [bool(q['above'][1])] * pd, dim, None
                got = np.asarray(obj.tangent(*ps, direction=q['dir'], above=bool(q['above'][1]), tensor=q['tensor']), dtype=float).reshape(-1)
    except Exception as e:  # noqa: BLE001
        if o['rational'] and k == 'deriv' and isinstance(e, RuntimeError) and sum(idx) >= 2:
            return []
        return ['%s: %s raised %s: %s' % (tag, k, type(e).__name__, str(e)[:80])]
    if got.size != len(pts) * odim:
        return ['%s: %s returned %d numbers for %d points' % (tag, k, got.size, len(pts))]
    for i, pt in enumerate(pts):
        want, scale = exact_derivative(o, fc, pt, idx, rights)
        if want is None:
            continue
        want = want[:odim]
        g = got[i * odim:(i + 1) * odim]
        if k == 'tangent':
            u = _unit(want)
            if u is None:
                continue
            if not np.all(np.isfinite(g)) or any(abs(g[c] - u[c]) > 1e-7 for c in range(odim)):
                return ['%s: tangent(direction=%d) at %r is %r, the normalised derivative of the current object is %r' % (tag, q['dir'], pt, [float(x) for x in g], u)]
            continue
        if not np.all(np.isfinite(g)) or not _close(g, want, scale):
            what = 'get_derivative_spline(%d).evaluate' % q['dir'] if k == 'dspline' else k
            return ['%s: %s at %r is %r, the current object gives %r' % (tag, what, pt, [float(x) for x in g], [float(x) for x in want])]
        if der is not None and not _close(g, der[i * odim:(i + 1) * odim], scale):
            return ['%s: get_derivative_spline(%d).evaluate%r differs from derivative(d=%r)' % (tag, q['dir'], tuple(pt), tuple(idx))]
    return []


def _oracle_history(sp, s):
    obj = gen.mk_object(sp, s['obj'])
    q = s['query']
    fails = _oracle_query(obj, q, 'before')
    try:
        with np.errstate(all='ignore'):
            _run_query(obj, q)          # the first query may leave state behind on the object
            for op in s['ops']:
                obj = _apply_op(obj, op)
    except Exception as e:  # noqa: BLE001
        return fails + ['history %r raised %s: %s' % (s['ops'], type(e).__name__, str(e)[:80])]
    fails += _oracle_query(obj, q, 'after %r' % (s['ops'],))
    fails += _oracle_query(obj.clone(), q, 'clone after %r' % (s['ops'],))
    return fails[:3]


def oracle(sp, s):
    k = s['kind']
    if k == 'history':
        return _oracle_history(sp, s)
    if k == 'deriv':
        return _oracle_deriv(sp, s)
    if k == 'dspline':
        return _oracle_dspline(sp, s)
    return _oracle_vec(sp, s)


# ---------------------------------------------------------------------------------------------
# classification, tags

def _cm1_knots(b):
    """Interior knots of multiplicity >= order (the map may jump there)."""
    info = gen.basis_info(b)
    ks = b['knots']
    return {x for x in set(ks) if info['start'] < x < info['end'] and sum(1 for y in ks if y == x) >= b['order']}


def _left_at_jump(s):
    o = s['obj']
    pd = len(o['bases'])
    rights = _sides(s['above'], pd) or [True] * pd
    for k, b in enumerate(o['bases']):
        if not rights[k] and k < len(s['params']):
            jumps = _cm1_knots(b)
            if jumps:
                info = gen.basis_info(b)
                T = info['end'] - info['start']
                for t in s['params'][k]:
                    tt = t
                    if b['periodic'] >= 0 and (t < info['start'] or t > info['end']):
                        tt = (t - info['start']) % T + info['start']
                    if tt in jumps:
                        return True
    return False


def _path(s):
    o = s['obj']
    pd = len(o['bases'])
    items = [s['d'][1]] if s['d'][0] == 'int' else list(s['d'][1])
    if not items:
        return 'odd'
    if pd == 1:
        n = items[0]
        if o['rational'] and 2 <= n <= 3:
            return 'closed-curve'
        tot = n
    else:
        full = (items * pd)[:pd] if s['d'][0] == 'int' else (items + [items[-1]] * pd)[:max(pd, len(items))]
        tot = sum(full)
        if pd == 2 and o['rational'] and 2 <= tot <= 3:
            if not s['tensor']:
                return 'closed-surface-indexerror'
            # `derivs = tuple(ensure_listlike(d, 2))`: every spelling of a pair reaches the branch table
            return 'closed-surface' if len(full) == 2 else 'closed-surface-zeros'
    if o['rational'] and tot > 1:
        return 'refused'
    if o['rational'] and tot == 1:
        return 'generic-first-rational'
    return 'generic'


def classify(s, res=None):
    k = s['kind']
    o = s['obj']
    pd = len(o['bases'])
    if k == 'history':
        return None
    if k == 'deriv':
        idx = _meaning(s['d'], pd)
        if not o['rational'] or idx is None:
            return None
        tot = sum(idx)
        if tot == 0:
            return K_ZERO
        closed = pd <= 2 and 2 <= tot <= 3
        if pd == 2 and closed and not s['tensor']:
            return K_TENSOR
        if pd == 2 and closed and s['d'][0] != 'tup':
            return K_LIST
        if closed and s['above'][0] == 'seq' and not all(s['above'][1]):
            return K_ABOVE
        if _left_at_jump(s):
            return K_LEFT
        return None
    if k == 'dspline':
        dirs = range(pd) if s['dir'] < 0 else [s['dir']]
        if any(d < pd and _cm1_knots(o['bases'][d]) for d in dirs):
            return K_DSNAN
        if any(d < pd and o['bases'][d]['periodic'] >= 0 and gen.basis_info(o['bases'][d])['n'] == 1 for d in dirs):
            return K_DSONE
        return None
    if o['rational']:
        if k in ('binormal', 'cnormal') and s['above'][0] == 'seq' and not all(s['above'][1]):
            return K_ABOVE
        if _left_at_jump(s):
            return K_LEFT
    return None


def tags(s, res):
    k = s['kind']
    o = s['obj']
    pd = len(o['bases'])
    if k == 'history':
        out = ['kind=history', 'class=' + {1: 'curve', 2: 'surface', 3: 'volume'}[pd], 'rational' if o['rational'] else 'nonrational']
        for op in s['ops']:
            out.append('history:%s-after-%s' % (s['query']['q'], op[0]))
        if len(s['ops']) > 1:
            out.append('history:two-ops')
        if s.get('same_shape'):
            out.append('history:swap-same-shape')
        if any(b['periodic'] >= 0 for b in o['bases']):
            out.append('periodic-dir')
        return out
    out = ['kind=' + k, 'class=' + {1: 'curve', 2: 'surface', 3: 'volume'}[pd], 'rational' if o['rational'] else 'nonrational']
    if any(b['periodic'] >= 0 for b in o['bases']):
        out.append('periodic-dir')
    if 'params' in s and any(s['params']) and not _in_domain(o, s['params']):
        out.append('outside')
    if k == 'deriv':
        out += ['d=' + s['d'][0], 'above=' + s['above'][0], 'path=' + _path(s)]
        if s['above'][0] == 'seq' and len(set(s['above'][1])) > 1:
            out.append('above=mixed-seq')
        if s.get('atuple') and s['above'][0] == 'seq':
            out.append('above=tuple')
        if not s['tensor']:
            out.append('tensor=False')
        if s.get('scalar'):
            out.append('scalar-form')
        if s.get('mixed_first'):
            out.append('rational-volume-mixed:' + s['d'][0])
        idx = _meaning(s['d'], pd)
        if idx is not None:
            out.append('order=%d' % sum(idx))
            if any(i >= b['order'] for i, b in zip(idx, o['bases'])):
                out.append('order>degree')
        else:
            out.append('d=odd-length')
        rights = _sides(s['above'], pd)
        if rights is not None:
            for kk, b in enumerate(o['bases']):
                info = gen.basis_info(b)
                ks = set(gen.distinct_knots(b))
                if not rights[kk] and any(t in ks and info['start'] < t < info['end'] for t in s['params'][kk]):
                    out.append('left@interior-knot')
                    break
        if _left_at_jump(s):
            out.append('left@jump')
    elif k == 'dspline':
        if s['dir'] < 0:
            out.append('dspline-all')
        elif s['dir'] >= pd:
            out.append('dspline-bad-direction')
        elif o['bases'][s['dir']]['periodic'] >= 0:
            out.append('dspline-periodic')
    else:
        out.append('above=' + s['above'][0])
        if not s.get('tensor', True):
            out.append('tensor=False')
    return out


def nontrivial(s, res):
    if s['kind'] == 'history':
        return True
    if s['kind'] == 'dspline':
        return s['dir'] < len(s['obj']['bases'])
    return _in_domain(s['obj'], s['params'])


# ---------------------------------------------------------------------------------------------
# translator hook: source-derived obligations

OBL_MODULE = 'Splipy.Generated.C03Obligations'
OBL_FILE = os.path.join('Splipy', 'Generated', 'C03Obligations.lean')


def _lean_script(lean_dir, src, timeout=900):
    from vlib.model import _lean_env
    with tempfile.NamedTemporaryFile('w', suffix='.lean', delete=False, dir=tempfile.gettempdir()) as f:
        f.write(src)
        path = f.name
    try:
        r = subprocess.run(['lean', path], cwd=lean_dir, env=_lean_env(), stdout=subprocess.PIPE,
                           stderr=subprocess.STDOUT, text=True, timeout=timeout)
        return r.returncode, r.stdout
    finally:
        os.unlink(path)


def _obligations(lean_dir, info):
    names = leanproof.theorems_in(OBL_FILE)
    if not names:
        return [{'name': 'C03Obligations', 'ok': False, 'class': None, 'detail': 'no theorems found in ' + OBL_FILE}]
    ok, log, _ = leanproof.lake_build([OBL_MODULE])
    path = os.path.join(lean_dir, OBL_FILE)
    src = open(path, encoding='utf-8').read()
    lines = src.splitlines()
    starts = sorted((i, m.group(1)) for i, ln in enumerate(lines, 1)
                    for m in [re.match(r'theorem\s+([A-Za-z_][\w\.\']*)', ln)] if m)
    failed = {}
    if not ok:
        for m in re.finditer(r'error: [^\n:]*C03Obligations\.lean:(\d+):\d+: ([^\n]*(?:\n(?!error:|warning:|trace:)[^\n]*){0,3})', log):
            ln_no, msg = int(m.group(1)), ' '.join(m.group(2).split())[:240]
            owner = None
            for st, nm in starts:
                if st <= ln_no:
                    owner = nm
            failed.setdefault(owner or names[0], []).append(msg)
        if not failed:      # the module fails for a reason that is not one of its theorems (import, syntax, Generated.C03)
            failed = {nm: ['module does not build: ' + log[-400:]] for nm in names}
    # which inputs break the failed obligations (evaluated on the generated tables)
    report = {}
    if failed and not all('module does not build' in m for ms in failed.values() for m in ms):
        rc, out = _lean_script(lean_dir, deriv_dispatch.REPORT)
        for ln in re.split(r'\n(?=[a-z_]+ )', out):
            key, _, rest = ln.partition(' ')
            report[key] = ' '.join(rest.split())[:500]
    # axioms of the obligations that did build: re-check them in a scratch file importing only Generated.C03
    axioms = {}
    good = [nm for nm in names if nm not in failed]
    if good:
        if ok:
            pre = 'Splipy.Generated.C03.'
            axioms = {k[len(pre):]: v for k, v in leanproof.print_axioms(OBL_MODULE, [pre + nm for nm in good]).items()}
        else:
            blocks = []
            for j, (st, nm) in enumerate(starts):
                if nm in good:
                    en = starts[j + 1][0] - 1 if j + 1 < len(starts) else len(lines)
                    blk = lines[st - 1:en]
                    while blk and (blk[-1].strip().startswith('/--') or not blk[-1].strip() or blk[-1].startswith('end ')):
                        blk.pop()
                    blocks.append('\n'.join(blk))
            head = 'import Mathlib.Tactic.Ring\nimport Splipy.Generated.C03\nnamespace Splipy.Generated.C03\nopen Splipy Splipy.Dispatch\n'
            tail = '\nend Splipy.Generated.C03\n' + ''.join('#print axioms Splipy.Generated.C03.%s\n' % nm for nm in good)
            rc, out = _lean_script(lean_dir, head + '\n\n'.join(blocks) + tail)
            for m in re.finditer(r"'Splipy\.Generated\.C03\.([^']+)' depends on axioms: \[([^\]]*)\]", out, flags=re.S):
                axioms[m.group(1)] = sorted(a.strip() for a in m.group(2).replace('\n', ' ').split(',') if a.strip())
            for m in re.finditer(r"'Splipy\.Generated\.C03\.([^']+)' does not depend on any axioms", out):
                axioms[m.group(1)] = []
            if 'error' in out:
                for nm in good:
                    axioms.setdefault(nm, None)
    out = []
    for nm in names:
        good_nm = nm not in failed
        detail = '' if good_nm else '; '.join(failed[nm])
        key = nm[len('C03_dispatch_'):]
        if not good_nm and report.get(key):
            detail += ' | offending inputs: ' + report[key]
        ax = axioms.get(nm)
        if good_nm:
            if ax is None:
                good_nm, detail = False, 'theorem did not check in the audit script'
            elif not set(ax) <= leanproof.ALLOWED_AXIOMS:
                good_nm, detail = False, 'axioms: ' + ','.join(ax)
        out.append({'name': nm, 'ok': bool(good_nm), 'class': None if good_nm else deriv_dispatch.CLASS_OF.get(nm),
                    'detail': detail[:900], 'axioms': ax})
    return out


def regenerate(sp, lean_dir):
    pkg = os.path.dirname(os.path.abspath(sp.__file__))      # the overlay the harness imports
    info = deriv_dispatch.regenerate(pkg, lean_dir)
    _GEN['info'] = info
    obl = _obligations(lean_dir, info)
    return {'files': info['files'], 'digest': info['digest'], 'translation_errors': info['errors'],
            'curve_table': info['curve'] and {k: info['curve'][k] for k in ('norm', 'guard', 'sides')},
            'surface_table': info['surface'] and {k: info['surface'][k] for k in ('norm', 'guard', 'sides')},
            'branches': {c: [b['label'] for b in info[c]['branches']] for c in ('curve', 'surface') if info[c]},
            'obligations': obl}

