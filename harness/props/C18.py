"""C18 — global numbering and mesh export are consistent for any patch order / orientation.

Correspondence: the Lean model (lean/Splipy/Model/Numbering.lean on top of the C17 catalogue model)
versus splipy.splinemodel / splipy.io.ofoam on whole model histories (`c18_model`):
  * `generate_cp_numbers()`  : ncps, `cp_numbers` of every top node and of every lower node that was handed
                               a view (compared as a PARTITION: numbers relabelled by first occurrence, plus
                               "numbers used == range(ncps)"),
  * `cps()`                  : rows re-indexed by the same relabelling,
  * `generate_cell_numbers()`: ncells and the arrays (literal),
  * `faces()`                : rows (vertex cycle up to rotation, owner, neighbour, name) as a sorted table,
  * `OpenFOAM.write`         : files `faces/owner/neighbour/boundary` written to a temp dir and parsed back:
                               row ORDER, `nFaces/startFace` entries, declared patch count, the `note` numbers,
  * `IFEMWriter.connections()` as a sorted list,
  * `plans`: ownership of every codimension-1 section of every top node (owned?, position of the owning top
    node, the orientation `read_cp_numbers` computes) read off the REAL nodes, against the history-level
    statement `plansOfObjs` of the model (the function the Lean theorems and the kernel-evaluated witnesses
    use), plus the model-internal check that the catalogue-derived plans equal `plansOfObjs`, plus the decidable
    guard `starOK (plansOfObjs objs) (geomArrays objs)` of `C18_numbering_star` evaluated by the model against the
    harness' own geometric classification of the history (`history_defects` empty); tag `cells:star-fails`;
    the guards `wellOrderedB && noJunkB` of `C18_numbering_partition` (expected true),
  * `fguard`: the decidable guard `facesGuardB` of `C18_faces_assembly_partial` (faces() can be formed, every
    interface is listed by the earlier patch, owner and neighbour cell of every face contain its four vertices)
    against the same certificate recomputed on the real nodes (`faces_certificate`).
Refinement levels: patches of one complex carry 2, 3 or 5 control points per direction on a common lattice
(level 0-3) — what `refine(n)` on all patches yields — generated directly (exact dyadic coordinates).

Oracle (model independent): control points of all patches grouped by quantised coordinates — same global
number <=> same geometric point, numbers exactly 0..ncps-1, `cps()[number]` = coordinates; cell numbers
0..ncells-1 each once (cell shapes from the distinct knots of the spec); faces: every internal cell face
once with owner < neighbour, every boundary face once with the name of the boundary node it lies on, six
faces per cell, the vertex cycle is a cycle of the cell face and its area vector points from owner to
neighbour (geometry from `cps()` and the patches); IFEM: every geometric interface exactly once with
coincident face indices, and the orientation flag, decoded by the IFEM convention (bit 2: swap, bit 1:
first direction of the SLAVE face reversed, bit 0: second direction of the slave face reversed — the
convention the reference data of /repo/test/splinemodel_test.py::test_orient fix), maps the slave face
net onto the master face net.

Known-finding classes (`classify`; every one reproduces on the pinned tree, minimal inputs are the first
specs of `generate`, flag `witness:*`):
  numbering-ignores-edge-and-corner-contact
        `read_cp_numbers` consults only codimension-1 sections owned by OTHER patches.  A patch that, at the
        time it is added, touches an earlier patch in a point that lies on no shared FACE (edge-only or
        corner-only contact; also the L-shape whose corner patch comes last) numbers that point again:
        two unit cubes in edge contact get 16 numbers for 14 points, in corner contact 16 for 15.  Everything
        downstream (cps, faces, OpenFOAM files) inherits the duplicated points.  Model follows the code.
  numbering-self-connected-seam
        a self-connected patch (closed ring as ONE patch) owns both copies of its seam face: the seam points
        are numbered twice; `faces()` then fails (`StopIteration`/`AssertionError`).  Model follows the code.
  cps-rational-valueerror
        `cps()` does `controlpoints.reshape(-1, dimension)`: for rational patches (dimension+1 components) it
        raises ValueError.  Model follows the code.
  openfoam-boundary-count-without-internal-faces   (FIXED in /repo 7181bd9; the label stays so that a regression is
        reported by name) the patch count at the head of the `boundary` file was `len(set(names)) - 1` (the `-1` for
        the `None` of internal faces): a mesh without internal faces (a single cell) declared one patch too few.  The
        code now writes `len(set(names) - {None})`; the model mirrors that, and `C18_openfoam_order` proves
        declared count = number of entries.
"""
import importlib
import itertools
import os
import re
import shutil
import tempfile
from fractions import Fraction as F

import numpy as np

from vlib import gen
from vlib.val import line, Word
from vlib.compare import Err, exc_kind
from props import _complexes as cx
from props import C17 as c17

ID = 'C18'
RTOL = 1e-9
ATOL = 1e-11
KTOL = gen.TOL
QUANT = 2.0 ** 20
RULE = ('models: structured grids up to 2x2x2 / 3x2, L/T/U/O unions, corner-contact pairs, rings of 1-2 patches, tori, '
        'orders 3-4 with interior knots of multiplicity 2..p-1 (knot spans != n-p+1), the same basis on both sides of every interface; two cubes in face/edge/corner contact, two volumes sharing a face with the neighbour in all 48 parametrisations x both insertion orders; surfaces (in 2D and 3D) and volumes; orders 2-3 with 2-5 control points per '
        'direction (refinement levels 0-3 of the same complex: finer lattice per patch), rational nets with shared '
        'weights; every patch in a random one of its 8/48 orientations (even ones for the trilinear face models), random '
        'insertion order (about half of them face-linked histories); trilinear right-handed volume models additionally '
        'through faces() and OpenFOAM.write with random boundary names.  distinct = distinct protocol lines; '
        'non-trivial = at least two patches or two cells.')
REQUIRED_TAGS = ['pardim=2', 'pardim=3', 'faces', 'ofoam', 'ifem:nonempty', 'level=0', 'level=1', 'level=2',
                 'history:linked', 'history:unlinked', 'witness:edge-contact', 'witness:corner-contact',
                 'witness:L-corner-last', 'family:self-connected', 'rational', 'reoriented', 'orient:nonzero',
                 'interface-faces', 'names>1', 'two-volumes-48', 'cells:repeated-interior-knots', 'cells:star-fails', 'star-ok', 'faces-guard:ok', 'faces-guard:fails']

ALL = ['num', 'cps', 'faces', 'ofoam', 'ifem', 'plans']


def _sm(sp):
    return importlib.import_module('splipy.splinemodel')


# ---------------------------------------------------------------------------------------------
# geometry helpers (spec level; model independent)


def _points(p):
    """Geometric points (weights divided out) of a patch spec, shape + (dim,)."""
    a = np.array(p['cps'], dtype=float)
    if p['rational']:
        a = a[..., :-1] / a[..., -1:]
    return a


def _qkey(x):
    return tuple(int(v) for v in np.round(np.asarray(x, dtype=float) * QUANT))


def _gids(patches):
    """Per patch an int array: id of the geometric point of every control point."""
    table = {}
    out = []
    for p in patches:
        pts = _points(p)
        g = np.zeros(pts.shape[:-1], dtype=int)
        for idx in np.ndindex(*g.shape):
            g[idx] = table.setdefault(_qkey(pts[idx]), len(table))
        out.append(g)
    return out, len(table)


def _sec_index(sec):
    return tuple(slice(None) if s is None else s for s in sec)


def history_defects(patches):
    """Which clauses of the star hypothesis of `C18_numbering_partial` the insertion history violates:
    'contact' — a point of a patch occurs in an earlier patch but lies on no face shared with an earlier patch;
    'self'    — a patch contains the same geometric point twice."""
    gids, _ = _gids(patches)
    out = set()
    seen = set()
    faces_seen = set()
    for g in gids:
        d = g.ndim
        flat = g.reshape(-1).tolist()
        if len(set(flat)) != len(flat):
            out.add('self')
        secs = cx.sections(d, d - 1)
        shared = np.zeros(g.shape, dtype=bool)
        mine = []
        for sec in secs:
            key = frozenset(g[_sec_index(sec)].reshape(-1).tolist())
            mine.append(key)
            if key in faces_seen:
                shared[_sec_index(sec)] = True
        for idx in np.ndindex(*g.shape):
            if g[idx] in seen and not shared[idx]:
                out.add('contact')
        seen.update(flat)
        faces_seen.update(mine)
    return out


def linked_order(rng, patches):
    """A random insertion order that keeps the history face-linked (greedy; None if stuck)."""
    left = list(range(len(patches)))
    rng.shuffle(left)
    order = []
    while left:
        for k in left:
            if not (history_defects([patches[i] for i in order + [k]]) & {'contact'}):
                order.append(k)
                left.remove(k)
                break
        else:
            return None
    return order


def cell_shape(p):
    out = []
    for b in p['bases']:
        kn = b['knots'][b['order'] - 1: len(b['knots']) - b['order'] + 1]
        u = [kn[0]]
        for k in kn:
            if abs(k - u[-1]) > KTOL:
                u.append(k)
        out.append(len(u) - 1)
    return out


def right_handed(p):
    """All corner Jacobians of all cells of a trilinear volume patch positive."""
    pts = _points(p)
    n = pts.shape[:-1]
    for i, j, k in itertools.product(range(n[0] - 1), range(n[1] - 1), range(n[2] - 1)):
        for a, b, c in itertools.product((0, 1), repeat=3):
            o = pts[i + a, j + b, k + c]
            e1 = (pts[i + 1 - a, j + b, k + c] - o) * (1 - 2 * a)
            e2 = (pts[i + a, j + 1 - b, k + c] - o) * (1 - 2 * b)
            e3 = (pts[i + a, j + b, k + 1 - c] - o) * (1 - 2 * c)
            if np.dot(np.cross(e1, e2), e3) <= 1e-9:
                return False
    return True


# ---------------------------------------------------------------------------------------------
# generation


def lattice_complex(rng, pardim, dim, cells, npts, orders, rational=False, jitter=True, family='grid'):
    """As cx.cells_complex, on a lattice with 4 steps per cell: npts[d] in {2, 3, 5}."""
    L = 4
    geom = cx.Geometry(rng, pardim, dim, 1.0 / L, jitter, rational)
    bases = [cx.axis_basis(rng, npts[d], orders[d]) for d in range(pardim)]
    patches = []
    for cell in cells:
        def lat_of(idx, cell=cell):
            return tuple(cell[d] * L + idx[d] * (L // (npts[d] - 1)) for d in range(pardim))
        patches.append(cx.patch_from_lattice(rng, geom, lat_of, npts, bases))
    return {'family': family, 'pardim': pardim, 'dim': dim, 'patches': patches, 'flags': []}


REPEATED = {
    3: [[0.5, 0.5], [0.25, 0.5, 0.5], [0.25, 0.25, 0.75], [0.5, 0.5, 0.75, 0.75]],
    4: [[0.5, 0.5], [0.5, 0.5, 0.5], [0.25, 0.25, 0.75], [0.25, 0.5, 0.5, 0.5], [0.375, 0.375, 0.375, 0.75, 0.75]],
}


def repeated_knot_complex(rng, pardim, dim, cells, rational=False, jitter=True, family='grid'):
    """Orders 3-4 with interior knots of multiplicity 2..p-1 in at least one direction (what refine() followed by
    raise_order(), or a repeated insert_knot, produces), the same basis on both sides of every interface: one
    basis per global axis, control points on a common lattice (64 steps per cell; any net is a valid patch)."""
    L = 64
    geom = cx.Geometry(rng, pardim, dim, 1.0 / L, jitter, rational)
    bases = []
    rep_dirs = rng.sample(range(pardim), rng.randint(1, pardim))
    for d in range(pardim):
        if d in rep_dirs:
            p = rng.choice([3, 4])
            inner = rng.choice(REPEATED[p])
            bases.append({'order': p, 'knots': [0.0] * p + list(inner) + [1.0] * p, 'periodic': -1})
        else:
            bases.append(cx.axis_basis(rng, rng.choice([2, 3])))
    npts = [len(b['knots']) - b['order'] for b in bases]
    patches = []
    for cell in cells:
        def lat_of(idx, cell=cell):
            return tuple(cell[d] * L + (idx[d] * L) // (npts[d] - 1) for d in range(pardim))
        patches.append(cx.patch_from_lattice(rng, geom, lat_of, npts, bases))
    return {'family': family, 'pardim': pardim, 'dim': dim, 'patches': patches, 'flags': ['repeated-knots']}


def unit_box(off, pardim=3, dim=3, npts=2):
    """Axis-aligned unit cell at integer offset `off` (orders 2, `npts` points per direction)."""
    b = {'order': 2, 'knots': [0.0, 0.0] + [i / (npts - 1) for i in range(1, npts - 1)] + [1.0, 1.0], 'periodic': -1}
    cps = np.zeros((npts,) * pardim + (dim,))
    for idx in np.ndindex(*cps.shape[:-1]):
        for d in range(pardim):
            cps[idx][d] = off[d] + idx[d] / (npts - 1)
    return {'bases': [dict(b) for _ in range(pardim)], 'cps': cps.tolist(), 'rational': False}


def finish(c, what, names=(), level=0, flags=()):
    patches = c['patches']
    hd = history_defects(patches)
    return {'kind': 'model', 'family': c['family'], 'pardim': c['pardim'], 'dim': c['dim'], 'patches': patches,
            'names': list(names), 'what': list(what), 'level': level, 'orients': c.get('orients'), 'order': c.get('order'),
            'flags': list(c.get('flags', [])) + list(flags), 'history': sorted(hd),
            # closed rings contain distinct edges with the same end vertices ("twins" of dimension 1)
            'twins': c['family'] not in ('ring-2', 'doubly-self-connected')}


def witnesses():
    """Minimal reproducers of the known-finding classes (fixed; always first)."""
    out = []

    def boxes(offs, pardim, dim, fam, flag, what):
        c = {'family': fam, 'pardim': pardim, 'dim': dim, 'patches': [unit_box(o, pardim, dim) for o in offs], 'flags': [flag]}
        return finish(c, what, names=['wall'])

    out.append(boxes([(0, 0, 0), (1, 0, 0)], 3, 3, 'two-cubes-face', 'witness:face-contact', ALL))
    out.append(boxes([(0, 0, 0), (1, 1, 0)], 3, 3, 'two-cubes-edge', 'witness:edge-contact', ALL))
    out.append(boxes([(0, 0, 0), (1, 1, 1)], 3, 3, 'two-cubes-corner', 'witness:corner-contact', ALL))
    out.append(boxes([(1, 0), (0, 1), (0, 0)], 2, 2, 'L-shape', 'witness:L-corner-last', ['num', 'cps', 'ifem', 'plans']))
    out.append(boxes([(0, 0), (1, 0), (0, 1)], 2, 2, 'L-shape', 'witness:L-corner-first', ['num', 'cps', 'ifem', 'plans']))
    out.append(boxes([(0, 0, 0)], 3, 3, 'single-cube', 'witness:single-cell', ALL))
    return out


def scramble(rng, base, keep_right=False, want_linked=None, reorient_prob=0.9):
    c = cx.scramble(rng, base, noise=None, keep_right=keep_right, reorient_prob=reorient_prob)
    if want_linked is True and (history_defects(c['patches']) & {'contact'}):
        order = linked_order(rng, c['patches'])
        if order is not None:
            c['patches'] = [c['patches'][i] for i in order]
            c['orients'] = [c['orients'][i] for i in order]
            c['order'] = [c['order'][i] for i in order]
    return c


def gen_numbering(rng, tier):
    """Arbitrary-order surface and volume models: numbering, cps, cells, connections."""
    specs = []
    n = 110 if tier == 'quick' else 900
    i = 0
    while len(specs) < n:
        i += 1
        pardim = [2, 3, 2, 3, 2][i % 5]
        r = rng.random()
        level = 0
        if r < 0.55:
            base = cx.random_complex(rng, tier, pardim, allow=('grid', 'shape', 'diag', 'ring', 'torus'))
            if base['family'] == 'ring-2':
                # ring_complex draws the bases per patch: the directions spanning the two interfaces (radial, and
                # z for volumes) must carry the same basis in both patches, or the complex is not conforming
                for d in (0, 2):
                    if d < pardim:
                        base['patches'][1]['bases'][d] = dict(base['patches'][0]['bases'][d])
        else:
            # refinement levels: the same kind of complex on a finer lattice per patch
            level = rng.choice([1, 2, 2, 3])
            fam = rng.choice(['grid', 'L', 'T', 'U', 'diag'])
            if fam == 'grid':
                cells = cx.grid_cells(rng.choice([(2, 1), (1, 2), (2, 2), (3, 1)]) if pardim == 2 else
                                      rng.choice([(2, 1, 1), (1, 2, 1), (1, 1, 2), (2, 2, 1), (2, 1, 2)]))
            else:
                cells = cx.SHAPES_2D[fam]
                if pardim == 3:
                    cells = cx.extrude_cells(cells, 1)
            dim = 3 if pardim == 3 else rng.choice([2, 2, 3])
            orders = [rng.choice([2, 2, 3]) for _ in range(pardim)]
            npts = [rng.choice({1: [3], 2: [3, 5], 3: [5]}[level]) for _ in range(pardim)]
            if pardim == 3 and len(cells) > 3:
                npts = [min(x, 3) for x in npts]
            base = lattice_complex(rng, pardim, dim, cells, npts, orders, rational=rng.random() < 0.2,
                                   jitter=rng.random() < 0.8, family=fam + ('-shape' if fam != 'grid' else '') + '-refined')
        c = scramble(rng, base, want_linked=rng.random() < 0.55)
        s = finish(c, ['num', 'cps', 'ifem', 'plans'], level=level)
        if any(p['rational'] for p in s['patches']) and c17.vertex_alias(s):
            continue        # C17 finding rational-vertex-key-ignores-weight: not this property's business
        specs.append(s)
    return specs


NAMES = ['inlet', 'outlet', 'wall', 'top', 'Wall2', 'axis']


def gen_faces(rng, tier):
    """Trilinear right-handed volume models: everything, including faces() and OpenFOAM.write."""
    specs = []
    n = 110 if tier == 'quick' else 700
    tries = 0
    while len(specs) < n:
        tries += 1
        level = rng.choice([0, 0, 1, 1, 2, 3])
        fam = rng.choice(['grid', 'grid', 'grid', 'L', 'T', 'U', 'ring2'] + (['O'] if tier == 'thorough' else []))
        if fam == 'grid':
            cells = cx.grid_cells(rng.choice([(1, 1, 1), (2, 1, 1), (1, 2, 1), (1, 1, 2), (2, 2, 1), (2, 1, 2), (1, 2, 2), (2, 2, 2), (3, 1, 1)]))
        elif fam != 'ring2':
            cells = cx.extrude_cells(cx.SHAPES_2D[fam], rng.choice([1, 1, 2]) if fam == 'L' else 1)
        if fam == 'ring2':
            base = cx.ring_complex(rng, 3, 4, 2, rational=False, radial=2)
            for p in base['patches']:
                p['bases'] = [cx.axis_basis(rng, len(b['knots']) - b['order'], order=2) for b in p['bases']]
            level = 1
        else:
            per = {0: [2], 1: [3], 2: [3, 5], 3: [5]}[level]
            npts = [rng.choice(per) for _ in range(3)]
            if len(cells) > 3:
                npts = [min(x, 3) for x in npts]
            if len(cells) > 5:
                npts = [2, 2, 2]
            if len(cells) > 1 and sum(1 for x in npts if x == 5) > 1:
                npts = [min(x, 3) if i else x for i, x in enumerate(npts)]
            base = lattice_complex(rng, 3, 3, cells, npts, [2, 2, 2], rational=False, jitter=rng.random() < 0.75,
                                   family=fam + ('-shape' if fam != 'grid' else '-' + 'x'.join(str(1 + max(c[d] for c in cells)) for d in range(3))))
        if not all(right_handed(p) for p in base['patches']):
            continue
        c = scramble(rng, base, keep_right=True, want_linked=rng.random() < 0.7)
        names = rng.sample(NAMES, rng.choice([1, 2, 3, 4]))
        specs.append(finish(c, ALL, names=names, level=level))
    # a self-connected trilinear ring (one patch): numbering and faces() under the seam defect
    for _ in range(1 if tier == 'quick' else 6):
        base = cx.ring_complex(rng, 3, 4, 1, rational=False, radial=2)
        for p in base['patches']:
            p['bases'] = [cx.axis_basis(rng, len(b['knots']) - b['order'], order=2) for b in p['bases']]
        c = scramble(rng, base, keep_right=True)
        specs.append(finish(c, ALL, names=['wall'], level=1))
    return specs


def gen_two_volumes(rng, tier):
    """Two volumes sharing one face; the neighbour in every one of its 48 parametrisations, added before
    or after the first (both orders): every relative orientation of an interface, systematically."""
    specs = []
    for rep in range(1 if tier == 'quick' else 3):
        base = lattice_complex(rng, 3, 3, cx.grid_cells(rng.choice([(2, 1, 1), (1, 2, 1), (1, 1, 2)])), [2, 2, 2] if rep == 0 else [rng.choice([2, 3]) for _ in range(3)],
                               [2, 2, 2] if rep % 2 == 0 else [rng.choice([2, 3]) for _ in range(3)], rational=False, jitter=True, family='two-volumes-48')
        if rep % 2 == 1:
            # orders may exceed the number of points chosen above: rebuild consistently
            npts = [rng.choice([3, 5]) for _ in range(3)]
            base = lattice_complex(rng, 3, 3, cx.grid_cells((2, 1, 1)), npts, [rng.choice([2, 3]) for _ in range(3)], jitter=True, family='two-volumes-48')
        a, b = base['patches']
        for perm, flip in cx.all_orientations(3):
            nb = cx.reorient(b, perm, flip)
            for order in ((0, 1), (1, 0)):
                c = dict(base)
                c['patches'] = [[a, nb][i] for i in order]
                c['orients'] = [[[[0, 1, 2], [0, 0, 0]], [list(perm), [int(f) for f in flip]]][i] for i in order]
                c['order'] = list(order)
                c['flags'] = ['two-volumes-48']
                specs.append(finish(c, ['num', 'cps', 'ifem', 'plans'], level=0 if rep == 0 else 1))
    return specs


def gen_repeated_knots(rng, tier):
    """Numbering / cells / connections on patches whose number of knot spans is NOT n - p + 1."""
    specs = []
    for i in range(36 if tier == 'quick' else 300):
        pardim = [2, 3, 2][i % 3]
        fam = rng.choice(['grid', 'grid', 'L', 'T', 'diag'])
        if fam == 'grid':
            cells = cx.grid_cells(rng.choice([(1, 1), (2, 1), (1, 2), (2, 2)]) if pardim == 2 else
                                  rng.choice([(1, 1, 1), (2, 1, 1), (1, 2, 1), (1, 1, 2)]))
        else:
            cells = cx.SHAPES_2D[fam]
            if pardim == 3:
                cells = cx.extrude_cells(cells, 1)
        dim = 3 if pardim == 3 else rng.choice([2, 2, 3])
        base = repeated_knot_complex(rng, pardim, dim, cells, rational=rng.random() < 0.15, jitter=rng.random() < 0.8,
                                     family=fam + ('-shape' if fam != 'grid' else '') + '-repeated-knots')
        c = scramble(rng, base, want_linked=rng.random() < 0.7)
        s = finish(c, ['num', 'cps', 'ifem', 'plans'], level=1)
        if any(p['rational'] for p in s['patches']) and c17.vertex_alias(s):
            continue
        specs.append(s)
    return specs


def generate(rng, tier):
    return (witnesses() + gen_two_volumes(rng, tier) + gen_repeated_knots(rng, tier) + gen_numbering(rng, tier)
            + gen_faces(rng, tier))


# ---------------------------------------------------------------------------------------------
# model side


def model_line(s):
    return line('c18_model', s['pardim'], s['dim'], [gen.enc_object(p) for p in s['patches']], KTOL,
                [Word(n) for n in s['names']], [Word(w) for w in s['what']], bool(s['twins']))


# ---------------------------------------------------------------------------------------------
# implementation side


def _call(f):
    try:
        return f()
    except BaseException as e:  # noqa: BLE001  (StopIteration is an Exception, kept broad on purpose)
        if isinstance(e, (KeyboardInterrupt, SystemExit)):
            raise
        return Err(exc_kind(e), str(e)[:200])


def _arr(a):
    a = np.asarray(a)
    return [list(a.shape), [int(x) for x in a.reshape(-1)]]


_cache = {}


def build(sp, s):
    """Real SplineModel of a spec + everything the property talks about (cached for the oracle)."""
    key = id(s)
    if _cache.get('key') == key:
        return _cache['val']
    sm = _sm(sp)
    objs = [c17.mk_obj(sp, p) for p in s['patches']]
    R = {'objs': objs, 'model': None, 'err': None}
    try:
        model = sm.SplineModel(s['pardim'], s['dim'])
        for o in objs:
            model.add(o, raise_on_twins=bool(s['twins']))
        R['model'] = model
    except Exception as e:  # noqa: BLE001
        R['err'] = Err(exc_kind(e), str(e)[:200])
    _cache['key'] = key
    _cache['val'] = R
    return R


def parse_foam_list(txt):
    body = txt.split('}', 1)[1]
    m = re.search(r'^\s*(\d+)\s*\(\s*$', body, flags=re.M)
    n = int(m.group(1))
    rest = body[m.end():]
    rows = []
    for ln in rest.splitlines():
        ln = ln.strip()
        if not ln or ln == ')':
            continue
        if ln.startswith('('):
            rows.append([float(x) if ('.' in x or 'e' in x or 'n' in x) else int(x) for x in ln.strip('()').split()])
        else:
            rows.append(int(ln))
    return n, rows


def parse_boundary(txt):
    body = txt.split('}', 1)[1]
    m = re.search(r'^\s*(-?\d+)\s*\(\s*$', body, flags=re.M)
    declared = int(m.group(1))
    entries = []
    for mm in re.finditer(r'(\S+)\s*\{\s*type patch;\s*nFaces (\d+);\s*startFace (\d+);\s*\}', body[m.end():]):
        entries.append([mm.group(1), int(mm.group(2)), int(mm.group(3))])
    return declared, entries


def run_ofoam(sp, model):
    of = importlib.import_module('splipy.io.ofoam')
    d = tempfile.mkdtemp(prefix='c18-foam-')
    try:
        with of.OpenFOAM(d) as f:
            f.write(model)
        rd = lambda n: open(os.path.join(d, n)).read()  # noqa: E731
        nf, frows = parse_foam_list(rd('faces'))
        no, owner = parse_foam_list(rd('owner'))
        nn, neigh = parse_foam_list(rd('neighbour'))
        npts, pts = parse_foam_list(rd('points'))
        declared, entries = parse_boundary(rd('boundary'))
        note = re.search(r'nPoints: (\d+) nCells: (\d+) nFaces: (\d+) nInternalFaces: (\d+)', rd('owner'))
        note = [int(x) for x in note.groups()]
        if not (nf == len(frows) == no == len(owner) == nn == len(neigh)) or npts != len(pts):
            return Err('FileInconsistent', 'declared lengths %s' % [nf, len(frows), no, len(owner), nn, len(neigh), npts, len(pts)])
        names = [None] * nf
        for nm, cnt, st in entries:
            for k in range(st, min(st + cnt, nf)):
                names[k] = nm
        rows = [list(fr) + [o, nb, nm if nm is not None else 'None'] for fr, o, nb, nm in zip(frows, owner, neigh, names)]
        return {'rows': rows, 'entries': entries, 'declared': declared, 'note': note, 'points': pts}
    finally:
        shutil.rmtree(d, ignore_errors=True)


def faces_certificate(model, tops, rows):
    where = {}
    for pos, n in enumerate(tops):
        cn = np.asarray(n.cell_numbers)
        if any(x <= 0 for x in cn.shape):
            return False
        for idx in np.ndindex(*cn.shape):
            where[int(cn[idx])] = (pos, idx)

    def corners(c):
        pos, idx = where[c]
        cp = np.asarray(tops[pos].cp_numbers)
        return {int(cp[idx[0] + a, idx[1] + b, idx[2] + cc]) for a in (0, 1) for b in (0, 1) for cc in (0, 1)}

    for f in rows:
        nodes, owner, neigh = set(f[:4]), f[4], f[5]
        if owner not in where or not nodes <= corners(owner):
            return False
        if neigh != -1:
            if neigh not in where or not nodes <= corners(neigh):
                return False
            if where[neigh][0] != where[owner][0] and not where[owner][0] < where[neigh][0]:
                return False
    return True


def run_impl(sp, s):
    sm = _sm(sp)
    R = build(sp, s)
    R['ran'] = True
    if R['err'] is not None:
        return R['err']
    model = R['model']
    what = s['what']
    tops = list(model.catalogue.top_nodes())
    P = model.pardim
    ifem = 'skip'
    if 'ifem' in what:
        ifem = _call(lambda: [[c.master, c.slave, c.midx, c.sidx, c.orient] for c in sm.IFEMWriter(model).connections()])
    R['ifem'] = ifem
    plans = 'skip'
    if 'plans' in what:
        # ownership of every codimension-1 section, as the real nodes have it
        def real_plans():
            rows = []
            for t in tops:
                row = []
                for node, sec in zip(t.lower_nodes[-1], cx.sections(P, P - 1)):
                    owned = node.owner is t
                    ori = 'None' if owned else c17.ori_plain(sm.Orientation.compute(t.obj.section(*sec, unwrap_points=False), node.obj))
                    row.append([owned, next(i for i, x in enumerate(tops) if x is node.owner), ori])
                rows.append(row)
            # the decidable guard `starOK` of C18_numbering_star, stated geometrically (history_defects)
            # guards of C18_numbering_partition (ownership first-come, no junk read): expected to hold on every history
            return [True, not s['history'], True, rows]
        plans = _call(real_plans)
    out = [len(tops), 'skip', 'skip', 'skip', 'skip', 'skip', ifem, plans, 'skip']
    if 'num' not in what:
        return out
    e = _call(model.generate_cp_numbers)
    if isinstance(e, Err):
        out[1] = R['num_err'] = e
        return out
    lower = []
    for d in range(1, P):
        for i, n in enumerate(model.catalogue.nodes(d)):
            if n.cp_numbers is not None:
                lower.append([d, i, _arr(n.cp_numbers)])
    out[1] = [int(model.ncps), [_arr(n.cp_numbers) for n in tops], lower]
    if 'cps' in what:
        out[2] = _call(lambda: np.asarray(model.cps(), dtype=float).tolist())
    model.generate_cell_numbers()
    out[3] = [int(model.ncells), [_arr(n.cell_numbers) for n in tops]]
    if 'faces' in what:
        def named_faces():
            if s['names']:
                for i, node in enumerate(model.boundary()):
                    node.name = s['names'][i % len(s['names'])]
            fs = model.faces()
            return [[int(x) for x in f['nodes']] + [int(f['owner']), int(f['neighbor']), 'None' if f['name'] is None else str(f['name'])] for f in fs]
        out[4] = _call(named_faces)
        # guard of C18_faces_assembly, recomputed on the REAL nodes: faces() can be formed, every interface is listed by
        # the earlier patch, and the owner / neighbour cell of every face has the face's four vertex numbers among
        # its eight corner numbers
        out[8] = (not isinstance(out[4], Err)) and faces_certificate(model, tops, out[4])
        if 'ofoam' in what and not isinstance(out[4], Err):
            o = _call(lambda: run_ofoam(sp, model))
            R['ofoam'] = o
            out[5] = o if isinstance(o, Err) else [o['rows'], o['entries'], o['declared'], o['note'][3]]
    return out


# ---------------------------------------------------------------------------------------------
# comparison (canonical forms)


def _plain(v):
    if isinstance(v, Err):
        return v
    if isinstance(v, list):
        return [_plain(x) for x in v]
    if isinstance(v, F):
        return int(v) if v.denominator == 1 else float(v)
    if isinstance(v, str) and v.startswith('err:'):
        return Err(v[4:])
    if isinstance(v, str) and v in ('true', 'false'):
        return v == 'true'
    return v if isinstance(v, (int, float)) else str(v)


def _relabel(num):
    """first-occurrence relabelling of the numbers in the arrays of the top nodes."""
    lab = {}
    for shape, flat in num[1]:
        for x in flat:
            if x not in lab:
                lab[x] = len(lab)
    return lab


def _cycle(nodes):
    k = nodes.index(min(nodes))
    return nodes[k:] + nodes[:k]


def canonical(v):
    """Observables as the property constrains them (see module docstring)."""
    v = _plain(v)
    if isinstance(v, Err) or not isinstance(v, list):
        return v
    ntops, num, cps, cells, faces, ofoam, ifem, plans, fguard = v
    out = {'ntops': ntops, 'num': num, 'cps': cps, 'cells': cells, 'faces': faces, 'ofoam': ofoam, 'ifem': ifem, 'plans': plans,
           'fguard': fguard}
    lab = None
    if isinstance(num, list):
        lab = _relabel(num)
        used = sorted(lab)
        rl = lambda flat: [lab.get(x, ['unnumbered', x]) for x in flat]  # noqa: E731
        out['num'] = {'ncps': num[0], 'exact-range': used == list(range(num[0])),
                      'tops': [[sh, rl(fl)] for sh, fl in num[1]],
                      'lower': sorted([d, i, [sh, rl(fl)]] for d, i, (sh, fl) in num[2])}
        if isinstance(cps, list):
            inv = sorted((new, old) for old, new in lab.items())
            out['cps'] = [cps[old] if 0 <= old < len(cps) else 'out-of-range' for new, old in inv]
    rn = (lambda n: lab.get(n, ['unnumbered', n])) if lab is not None else (lambda n: n)
    if isinstance(faces, list):
        out['faces'] = sorted((_cycle([rn(n) for n in f[:4]]) + list(f[4:]) for f in faces), key=repr)
    if isinstance(ofoam, list):
        out['ofoam'] = {'rows': [_cycle([rn(n) for n in f[:4]]) + list(f[4:]) for f in ofoam[0]], 'entries': ofoam[1],
                        'declared': ofoam[2], 'ninternal': ofoam[3]}
    if isinstance(ifem, list):
        out['ifem'] = sorted(ifem)
    return out


def _cmp(a, b, path='$'):
    if isinstance(a, Err) or isinstance(b, Err):
        if isinstance(a, Err) and isinstance(b, Err) and a.kind == b.kind:
            return None
        return '%s: impl %r vs model %r' % (path, a, b)
    if isinstance(a, dict) and isinstance(b, dict):
        for k in a:
            d = _cmp(a[k], b.get(k), '%s.%s' % (path, k))
            if d:
                return d
        return None
    if isinstance(a, (list, tuple)) and isinstance(b, (list, tuple)):
        if len(a) != len(b):
            return '%s: length impl %d vs model %d' % (path, len(a), len(b))
        for i, (x, y) in enumerate(zip(a, b)):
            d = _cmp(x, y, '%s[%d]' % (path, i))
            if d:
                return d
        return None
    if isinstance(a, bool) or isinstance(b, bool):
        return None if a == b else '%s: impl %r vs model %r' % (path, a, b)
    if isinstance(a, (int, float)) and isinstance(b, (int, float)):
        if isinstance(a, int) and isinstance(b, int):
            return None if a == b else '%s: impl %d vs model %d' % (path, a, b)
        return None if abs(a - b) <= ATOL + RTOL * max(1.0, abs(b)) else '%s: impl %.17g vs model %.17g' % (path, a, b)
    return None if str(a) == str(b) else '%s: impl %r vs model %r' % (path, a, b)


def compare(s, iv, mv):
    return _cmp(canonical(iv), canonical(mv))


# ---------------------------------------------------------------------------------------------
# oracle


def _node_points(node):
    a = np.asarray(node.obj.controlpoints, dtype=float)
    if node.obj.rational:
        a = a[..., :-1] / a[..., -1:]
    return a


def oracle_numbering(s, model, fails):
    tops = list(model.catalogue.top_nodes())
    by_point, by_number = {}, {}
    coords = {}
    for k, n in enumerate(tops):
        pts = _node_points(n)
        nums = np.asarray(n.cp_numbers)
        if nums.shape != pts.shape[:-1]:
            fails.append('patch %d: cp_numbers has shape %s for a net of shape %s' % (k, nums.shape, pts.shape[:-1]))
            return None
        for idx in np.ndindex(*nums.shape):
            q = _qkey(pts[idx])
            by_point.setdefault(q, set()).add(int(nums[idx]))
            by_number.setdefault(int(nums[idx]), set()).add(q)
            coords[int(nums[idx])] = pts[idx]
    dup = [(q, v) for q, v in by_point.items() if len(v) > 1]
    if dup:
        q, v = dup[0]
        fails.append('%d geometric point(s) carry several global numbers, e.g. %s -> %s (ncps %d for %d distinct points)' % (
            len(dup), [x / QUANT for x in q], sorted(v), model.ncps, len(by_point)))
    mix = [(n, v) for n, v in by_number.items() if len(v) > 1]
    if mix:
        n, v = mix[0]
        fails.append('global number %d is carried by %d distinct geometric points' % (n, len(v)))
    if sorted(by_number) != list(range(model.ncps)):
        fails.append('numbers used are not exactly 0..ncps-1 (ncps %d, %d used, min %s max %s)' % (
            model.ncps, len(by_number), min(by_number), max(by_number)))
    return coords


def oracle_cps(s, model, coords, fails):
    try:
        cps = np.asarray(model.cps(), dtype=float)
    except Exception as e:  # noqa: BLE001
        fails.append('cps() raised %s: %s' % (exc_kind(e), str(e)[:80]))
        return None
    if cps.shape != (model.ncps, s['dim']):
        fails.append('cps() has shape %s, expected (%d, %d)' % (cps.shape, model.ncps, s['dim']))
        return None
    for n, x in coords.items():
        if 0 <= n < len(cps) and not np.allclose(cps[n], x, rtol=1e-9, atol=1e-9):
            fails.append('cps()[%d] = %s but the control point numbered %d is %s' % (n, cps[n].tolist(), n, x.tolist()))
            break
    return cps


def oracle_cells(s, model, fails):
    tops = list(model.catalogue.top_nodes())
    seen = []
    spec_shapes = sorted(tuple(cell_shape(p)) for p in s['patches'])
    got_shapes = []
    for n in tops:
        c = np.asarray(n.cell_numbers)
        got_shapes.append(tuple(c.shape))
        seen += [int(x) for x in c.reshape(-1)]
    # a top node's object is one of the patches: shapes as multisets (up to the axis order of each patch)
    if sorted(tuple(sorted(x)) for x in got_shapes) != sorted(tuple(sorted(x)) for x in spec_shapes) and len(tops) == len(s['patches']):
        fails.append('cell arrays have shapes %s, knot spans of the patches are %s' % (got_shapes, spec_shapes))
    if sorted(seen) != list(range(model.ncells)) or len(seen) != model.ncells:
        fails.append('cell numbers do not enumerate 0..ncells-1 once each (ncells %d, %d cells)' % (model.ncells, len(seen)))


def oracle_faces(s, model, faces, cps, fails, where='faces()'):
    """faces: rows [n0,n1,n2,n3,owner,neighbour,name]."""
    tops = list(model.catalogue.top_nodes())
    # cells: number -> 8 corner keys (local (a,b,c) order) ; expected faces: frozenset of 4 keys -> incident cells
    corners = {}
    inc = {}
    for n in tops:
        pts = _node_points(n)
        cn = np.asarray(n.cell_numbers)
        if tuple(x + 1 for x in cn.shape) != pts.shape[:-1]:
            fails.append('%s: patch with %s cells has a %s net' % (where, cn.shape, pts.shape[:-1]))
            return
        for i, j, k in np.ndindex(*cn.shape):
            c = int(cn[i, j, k])
            loc = {(a, b, cc): pts[i + a, j + b, k + cc] for a, b, cc in itertools.product((0, 1), repeat=3)}
            corners[c] = loc
            for d in range(3):
                for side in (0, 1):
                    quad = [v for key, v in loc.items() if key[d] == side]
                    inc.setdefault(frozenset(_qkey(v) for v in quad), []).append(c)
    bnames = {}
    for node in model.catalogue.nodes(2):
        if len(node.higher_nodes.get(3, [])) == 1:
            bnames[frozenset(_qkey(x) for x in _node_points(node).reshape(-1, 3))] = node.name
    seen = {}
    percell = {}
    nbad = 0

    def bad(msg):
        nonlocal nbad
        nbad += 1
        if nbad <= 3:
            fails.append('%s: %s' % (where, msg))

    for r, f in enumerate(faces):
        nodes, owner, neigh, name = list(f[:4]), f[4], f[5], f[6]
        if any(not (0 <= n < len(cps)) for n in nodes):
            bad('face %d refers to a point number outside 0..ncps-1' % r)
            continue
        P = [cps[n] for n in nodes]
        key = frozenset(_qkey(p) for p in P)
        if key not in inc:
            bad('face %d %s is not a face of any cell' % (r, nodes))
            continue
        if key in seen:
            bad('the cell face %s is listed twice (rows %d and %d)' % (nodes, seen[key], r))
            continue
        seen[key] = r
        cells = sorted(inc[key])
        percell[owner] = percell.get(owner, 0) + 1
        if neigh != -1:
            percell[neigh] = percell.get(neigh, 0) + 1
        if len(cells) == 2:
            if [owner, neigh] != cells:
                bad('internal face %d has owner/neighbour %s/%s, incident cells are %s (owner must be the lower)' % (r, owner, neigh, cells))
                continue
            if name not in (None, 'None'):
                bad('internal face %d carries the boundary name %r' % (r, name))
        elif len(cells) == 1:
            if owner != cells[0] or neigh != -1:
                bad('boundary face %d has owner/neighbour %s/%s, the incident cell is %s' % (r, owner, neigh, cells[0]))
                continue
            want = [nm for k, nm in bnames.items() if key <= k]
            if len(want) != 1 or (want[0] if want[0] is not None else 'None') != name:
                bad('boundary face %d is named %r, the boundary it lies on is named %r' % (r, name, want))
        else:
            bad('face %d lies in %d cells' % (r, len(cells)))
            continue
        # vertex cycle and normal
        loc = corners[owner]
        where_ = []
        for p in P:
            m = [kk for kk, v in loc.items() if _qkey(v) == _qkey(p)]
            where_.append(m[0] if m else None)
        if None in where_:
            bad('face %d has a vertex that is no corner of its owner cell' % r)
            continue
        if any(sum(1 for t in range(3) if where_[i][t] != where_[(i + 1) % 4][t]) != 1 for i in range(4)):
            bad('the vertex order %s of face %d is not a cycle of the quad' % (nodes, r))
            continue
        S = 0.5 * np.cross(P[2] - P[0], P[3] - P[1])
        cf = sum(P) / 4.0
        co = sum(loc.values()) / 8.0
        if np.dot(S, cf - co) <= 0:
            bad('the normal of face %d (vertex order %s) points INTO its owner cell %d' % (r, nodes, owner))
        elif neigh != -1 and np.dot(S, sum(corners[neigh].values()) / 8.0 - cf) <= 0:
            bad('the normal of face %d does not point towards its neighbour cell %d' % (r, neigh))
    missing = [k for k in inc if k not in seen]
    if missing:
        nint = sum(1 for k in missing if len(inc[k]) == 2)
        bad('%d cell faces are missing from the list (%d internal, %d boundary)' % (len(missing), nint, len(missing) - nint))
    wrong = {c: percell.get(c, 0) for c in corners if percell.get(c, 0) != 6}
    if wrong:
        bad('cells not bounded by exactly six faces: %s' % dict(list(wrong.items())[:4]))
    if nbad > 3:
        fails.append('%s: … %d problems in total' % (where, nbad))


def oracle_ofoam(s, model, o, cps, fails):
    if isinstance(o, Err):
        fails.append('OpenFOAM.write: %r %s' % (o, o.msg))
        return
    rows, entries, declared, note = o['rows'], o['entries'], o['declared'], o['note']
    pts = np.asarray(o['points'], dtype=float).reshape(-1, 3) if o['points'] else np.zeros((0, 3))
    if cps is not None and (pts.shape != cps.shape or not np.allclose(pts, cps, rtol=1e-12, atol=1e-12)):
        fails.append('OpenFOAM points file differs from cps()')
    oracle_faces(s, model, rows, cps if cps is not None else pts, fails, where='OpenFOAM files')
    ninternal = sum(1 for r in rows if r[5] != -1)
    if any(r[5] == -1 for r in rows[:ninternal]) or any(r[5] != -1 for r in rows[ninternal:]):
        fails.append('OpenFOAM files: internal faces do not all come before the boundary faces')
    internal = [(r[4], r[5]) for r in rows[:ninternal]]
    if internal != sorted(internal):
        fails.append('OpenFOAM files: internal faces are not in owner-then-neighbour order')
    # boundary: contiguous groups, nFaces/startFace partition [ninternal, nfaces)
    pos = ninternal
    for nm, cnt, st in entries:
        if st != pos or cnt <= 0:
            fails.append('OpenFOAM boundary: patch %s has startFace %d nFaces %d, expected start %d' % (nm, st, cnt, pos))
            break
        own = [r[4] for r in rows[st:st + cnt]]
        if own != sorted(own):
            fails.append('OpenFOAM boundary: faces of patch %s are not in owner order' % nm)
        pos += cnt
    else:
        if pos != len(rows):
            fails.append('OpenFOAM boundary: the patches cover faces up to %d of %d' % (pos, len(rows)))
    if len({e[0] for e in entries}) != len(entries):
        fails.append('OpenFOAM boundary: a boundary name occurs in two separate groups')
    if declared != len(entries):
        fails.append('OpenFOAM boundary: the file declares %d patches and lists %d' % (declared, len(entries)))
    if note != [model.ncps, model.ncells, len(rows), ninternal]:
        fails.append('OpenFOAM note %s, actual nPoints/nCells/nFaces/nInternalFaces %s' % (note, [model.ncps, model.ncells, len(rows), ninternal]))


def _face_net(obj, sec):
    a = np.asarray(obj.controlpoints, dtype=float)
    if obj.rational:
        a = a[..., :-1] / a[..., -1:]
    return a[_sec_index(sec)]


def ifem_decode_fits(master_net, slave_net, orient, pardim_face):
    """IFEM convention: bit 2 swap, bit 1 reverse the first slave direction, bit 0 the second."""
    S = slave_net
    if pardim_face == 0:
        return orient == 0 and np.allclose(S, master_net, atol=1e-7)
    if pardim_face == 1:
        if orient not in (0, 1):
            return False
        if orient == 1:
            S = S[::-1]
    else:
        if not 0 <= orient <= 7:
            return False
        if orient & 2:
            S = S[::-1, :]
        if orient & 1:
            S = S[:, ::-1]
        if orient & 4:
            S = S.transpose(1, 0, 2)
    return S.shape == master_net.shape and np.allclose(S, master_net, rtol=0, atol=1e-7)


def oracle_ifem(sp, s, model, conns, fails):
    if isinstance(conns, Err):
        fails.append('IFEMWriter.connections raised %r' % conns)
        return
    sm = _sm(sp)
    nodes = sm.IFEMWriter(model).nodes
    P = s['pardim']
    secs = cx.sections(P, P - 1)
    # geometric interfaces: occurrences (patch, face) with the same point set
    occ = {}
    for a, n in enumerate(nodes):
        for i, sec in enumerate(secs):
            net = _face_net(n.obj, sec)
            occ.setdefault(frozenset(_qkey(x) for x in net.reshape(-1, net.shape[-1])), []).append((a, i))
    expected = set()
    for key, lst in occ.items():
        for (a, i), (b, j) in itertools.combinations(sorted(lst), 2):
            expected.add((a + 1, b + 1, i + 1, j + 1))
    got = {}
    for c in conns:
        master, slave, midx, sidx, orient = c
        k = (master, slave, midx, sidx)
        if k in got:
            fails.append('connection %s is listed twice' % (k,))
        got[k] = orient
        if k not in expected:
            if (slave, master, sidx, midx) in expected:
                fails.append('connection %s has master above slave' % (k,))
            else:
                fails.append('connection %s: the two faces are not geometrically coincident' % (k,))
            continue
        mnet = _face_net(nodes[master - 1].obj, secs[midx - 1])
        snet = _face_net(nodes[slave - 1].obj, secs[sidx - 1])
        if not ifem_decode_fits(mnet, snet, orient, P - 1):
            fails.append('connection %s: orient %d does not map the slave face net onto the master face net' % (k, orient))
    for k in sorted(expected - set(got)):
        fails.append('interface master %d face %d / slave %d face %d is not in the connection list' % (k[0], k[2], k[1], k[3]))
    del fails[12:]


def oracle(sp, s):
    R = build(sp, s)
    if not R.get('ran'):
        run_impl(sp, s)
    if R['err'] is not None:
        return ['conforming model rejected: %r %s' % (R['err'], R['err'].msg)]
    model = R['model']
    fails = []
    what = s['what']
    if 'ifem' in what:
        oracle_ifem(sp, s, model, R.get('ifem'), fails)
    if 'num' not in what:
        return fails
    if R.get('num_err') is not None:
        fails.append('generate_cp_numbers raised %r %s' % (R['num_err'], R['num_err'].msg))
        return fails
    coords = oracle_numbering(s, model, fails)
    cps = None
    if coords is not None and 'cps' in what:
        cps = oracle_cps(s, model, coords, fails)
    if any(n.cell_numbers is None for n in model.catalogue.top_nodes()):
        model.generate_cell_numbers()
    oracle_cells(s, model, fails)
    if 'faces' in what:
        if cps is None:
            # geometry of the numbers straight from the patches when cps() is unusable
            cps = np.zeros((model.ncps, 3))
            for n, x in (coords or {}).items():
                if 0 <= n < model.ncps:
                    cps[n] = x
        try:
            fs = model.faces()
            rows = [[int(x) for x in f['nodes']] + [int(f['owner']), int(f['neighbor']), 'None' if f['name'] is None else str(f['name'])] for f in fs]
        except BaseException as e:  # noqa: BLE001
            if isinstance(e, (KeyboardInterrupt, SystemExit)):
                raise
            fails.append('faces() raised %s' % exc_kind(e))
            rows = None
        if rows is not None:
            oracle_faces(s, model, rows, cps, fails)
            if 'ofoam' in what:
                oracle_ofoam(s, model, R.get('ofoam', Err('NotRun')), cps, fails)
    return fails


# ---------------------------------------------------------------------------------------------
# bookkeeping


def classify(s, res=None):
    """A known-finding label only when EVERY oracle message of the case is one the known defect explains
    (connections and cell numbers never depend on the control-point numbering)."""
    if res is None:
        return None
    msgs = res.get('oracle') or []
    if not msgs:
        return None
    independent = [m for m in msgs if m.startswith(('connection', 'interface master', 'IFEMWriter', 'cell numbers', 'cell arrays',
                                                    'conforming model rejected', 'generate_cp_numbers raised'))]
    if independent:
        return None
    hist = set(s.get('history', []))
    num_msgs = [m for m in msgs if 'several global numbers' in m]
    if 'contact' in hist and num_msgs:
        return 'numbering-ignores-edge-and-corner-contact'
    if 'self' in hist and (num_msgs or any('faces() raised' in m for m in msgs)):
        return 'numbering-self-connected-seam'
    if any(p['rational'] for p in s['patches']) and all('cps() raised ValueError' in m for m in msgs):
        return 'cps-rational-valueerror'
    if all('declares' in m for m in msgs):
        return 'openfoam-boundary-count-without-internal-faces'
    return None


def tags(s, res):
    out = ['pardim=%d' % s['pardim'], 'family:' + s['family'], 'patches=%d' % len(s['patches']), 'level=%d' % s['level']]
    out += list(s['flags'])
    out.append('history:' + ('unlinked' if 'contact' in s['history'] else 'linked'))
    out.append('cells:star-fails' if s['history'] else 'star-ok')
    if any(p['rational'] for p in s['patches']):
        out.append('rational')
    if s.get('orients') and any(o != [list(range(s['pardim'])), [0] * s['pardim']] for o in s['orients']):
        out.append('reoriented')
    if max(max(b['order'] for b in p['bases']) for p in s['patches']) > 2:
        out.append('order>2')
    if any(cell_shape(p) != [len(b['knots']) - 2 * b['order'] + 1 for b in p['bases']] for p in s['patches']):
        out.append('cells:repeated-interior-knots')
    iv = res['impl']
    if isinstance(iv, Err):
        out.append('raises:' + iv.kind)
        return out
    for w in s['what']:
        out.append(w)
    names = ['ntops', 'num', 'cps', 'cells', 'faces', 'ofoam', 'ifem', 'plans', 'fguard']
    for nm, part in zip(names, iv):
        if isinstance(part, Err):
            out.append('%s-raises:%s' % (nm, part.kind))
    if len(iv) > 8 and isinstance(iv[8], bool):
        out.append('faces-guard:ok' if iv[8] else 'faces-guard:fails')
    if isinstance(iv[6], list):
        out.append('ifem:nonempty' if iv[6] else 'ifem:empty')
        if any(c[4] != 0 for c in iv[6]):
            out.append('orient:nonzero')
        if any(c[0] == c[1] for c in iv[6]):
            out.append('ifem:self-connection')
    if isinstance(iv[4], list):
        if any(f[5] != -1 and f[6] == 'None' for f in iv[4]):
            out.append('internal-faces')
        if len({f[6] for f in iv[4] if f[6] != 'None'}) > 1:
            out.append('names>1')
    if isinstance(iv[4], list) and isinstance(iv[3], list) and len(iv[3][1]) > 1:
        # faces between two patches: owner and neighbour in different arrays
        bounds = []
        start = 0
        for sh, fl in iv[3][1]:
            bounds.append((start, start + len(fl)))
            start += len(fl)
        pid = lambda c: next(i for i, (a, b) in enumerate(bounds) if a <= c < b)  # noqa: E731
        if any(f[5] != -1 and pid(f[4]) != pid(f[5]) for f in iv[4]):
            out.append('interface-faces')
    if res.get('oracle'):
        out.append('oracle-fails')
    return out


def nontrivial(s, res):
    return len(s['patches']) > 1 or any(np.prod(cell_shape(p)) > 1 for p in s['patches'])
