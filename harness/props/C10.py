"""C10 — every reachable object is structurally well formed; the basis constructor rejects malformed input.

Correspondence (`c10_history`): random call histories over the public mutating / constructing API
(insert_knot, refine, raise_order, lower_order, reverse, swap, reparam, split, Curve.append,
make_periodic, lower_periodic, translate/scale/rotate/mirror/project/set_dimension/force_rational and
their operator forms, section, surface/volume_factory.extrude, clone, make_splines_identical) on a POOL of
objects (in-place calls replace the receiver, calls that create objects append them,
make_splines_identical changes two objects), executed on the real library and on
the Lean model `History.exec` (lean/Splipy/Model/History.lean — a dispatcher to the operation models
of C04–C09 and C15).  After EVERY call:
  * the full state of every object touched by the call (knot vectors to 1e-12 relative, orders,
    periodicity, control-point shape, control points numerically with a tolerance growing with the
    history length; looser after raise_order / lower_order whose linear solves are ill conditioned),
  * the verdict of the Lean `Obj.wfB` on the model state against the Python transcription `wf_real`
    of the same conjunction evaluated on the REAL object,
  * every object of the pool NOT touched by the call must be unchanged on the real side,
  * the exception class when the call raises (a raising call ends the history on both sides: the
    property speaks about operations that complete).
Parameter values (knots to insert, split points) are *symbolic* — "domain knot j", "fraction f of span
j", "fraction of the domain" — and are resolved by each side against its own current state, so that an
existing knot is an existing knot on both sides in spite of rounding.  Histories are generated
state-aware: the generator executes the real library to know orders, periodicity, sizes, and only keeps
a raising call when it was drawn on purpose.  A few hand-built histories (`_focus_cases`) hit the defect
classes found so far deterministically.  The model follows the CODE everywhere (the operation models of
C04-C09/C12/C15 mirror /repo as it is now); where the code leaves the family of well-formed objects the
model does too and `wfB` says so on both sides, except `Curve.raise_order` with a singular collocation
matrix, where the real code returns NaN control points and the exact model reports `LinAlgError`.

Malformed-constructor stream (`c10_ctor`): valid open / periodic vectors, decreasing, too few knots,
order <= 0, periodic end mismatch, each within and beyond `state.knot_tolerance`, and the "gap"
vectors the constructor accepts although they are not periodic knot vectors; accept/reject must agree
exactly with `Basis.mk?`, and the exact (Fraction) transcription of `Basis.Valid` with `Basis.validB`.

Oracle (model independent, real objects only): `wf_real` + accessors (`len`, `shape`, `order()`,
`knots()`, `start()/end()`, flat first-index-fastest `obj[i]`, multi-index `obj[i,j]`) + `clone()` +
re-construction `cls(*bases, controlpoints, rational, raw=True)` + evaluation on the whole domain
(corners, mid points, one point per knot span) on every object after every call; a failing history is
shrunk by dropping calls while it still fails.  Constructor: ValueError on every malformed class,
acceptance of every valid vector.
"""
from fractions import Fraction as F
import copy
import importlib
import json
import math
import os

import numpy as np

from vlib import gen
from vlib.val import line, Word, is_err, err_kind
from vlib.compare import Err, exc_kind
from props import C09 as _c09

ID = 'C10'
PYOBJECT_METHODS = ['pardim', '__len__', 'start', 'end', 'start_dir', 'end_dir', 'bounding_box', 'insert_knot', 'reverse', 'swap', 'reparam', 'reparam_dir', 'set_dimension', 'force_rational', 'translate', 'scale', 'project', 'lower_periodic', 'make_periodic', 'make_periodic_c', 'split', 'raise_order', 'raise_order_dir', 'raise_order_implicit', 'set_order', 'lower_order', 'scale_p', 'rotate', 'mirror', '__iadd__', '__isub__', '__imul__', '__itruediv__']   # splineobject.py methods re-translated and proved equal to the hand model each run
PYBASIS_METHODS = ['__init__', 'init_default']   # basis.py methods re-translated and proved equal to the hand model each run
RTOL = 1e-9
ATOL = 1e-11
KNOT_RTOL = 1e-12
TOL = gen.TOL
INCLUDE_DEFECT_CLASSES = True     # draw (rarely, as last call) the known defect classes of the called operations
RULE = ('pool histories of 1-12 calls (quick) / up to 60 (thorough) over insert_knot, refine, raise_order, lower_order, reverse, '
        'swap, reparam (both conventions), split, Curve.append, make_periodic, lower_periodic, the affine family incl. operator '
        'forms, section, extrude, clone, make_splines_identical; start objects: pardim 1-3, dim 1-3, rational (positive weights) or not, open and '
        'periodic directions of order 1-4; symbolic knot/split values resolved against the current state; constructor stream: '
        'valid open/periodic, decreasing, too few, order<=0, periodic mismatch, within/beyond tolerance, accepted-but-not-periodic, '
        'sorted vectors with positive spans of 1e-11..9e-11 (first/interior/last knots, clamped or not, runs, vectors scaled to a tiny domain as reparam does): accepted, stored knots = input exactly. '
        'distinct = distinct protocol lines; non-trivial = at least one call of the history completed (constructor cases: all). '
        'Comparison: counts, orders, periodicity, shapes, accessor structure and wf verdicts exactly; knots to 1e-12 of the knot '
        'magnitude - widened, only for objects whose LINEAGE passed through a knot magnitude whose double resolution exceeds that '
        '(start knots near 1e6 later shifted/rescaled to O(1) by append / reparam / make_splines_identical), and only by what is '
        'EXPLAINED call by call: the deviation measured exactly (impl double - model rational) on the objects the call read, '
        'rescaled with the domain, plus one rounding of 2 ulp of the largest knot magnitude the call touched '
        '(tag cmp=knot-tolerance-widened-to-float-resolution); control values of such objects to that amount / smallest knot gap; '
        'the oracle (well-formedness of the real objects) is not affected by any tolerance of the comparison.')
REQUIRED_TAGS = ['op=insert', 'op=refine', 'op=raise', 'op=lower', 'op=reverse', 'op=swap', 'op=reparam', 'op=reparamall',
                 'op=split', 'op=append', 'op=makeper', 'op=lowerper', 'op=affine', 'op=section', 'op=extrude', 'op=clone', 'op=identical',
                 'pardim=1', 'pardim=2', 'pardim=3', 'rational', 'periodic-dir', 'len>=8', 'pool>=3', 'err:ValueError',
                 'ctor=valid-open', 'ctor=valid-periodic', 'ctor=decreasing', 'ctor=too-few', 'ctor=order<=0',
                 'ctor=periodic-mismatch', 'ctor=within-tol', 'ctor=beyond-tol', 'ctor=gap', 'ctor=short-periodic', 'ctor=wide-periodic', 'ctor=tol-inversion', 'ctor=narrow-span', 'narrow-span:interior', 'narrow-span:unclamped-ends', 'narrow-span:reparam',
                 'ctor-eval=in-process', 'wf=true',
                 'stream=small-periodic', 'small-periodic:n<p+k', 'small-periodic:n+1<=p+k', 'small-periodic-op=insert',
                 'small-periodic-op=split', 'small-periodic-op=lowerper', 'small-periodic-op=reverse', 'flag=periodic-small-basis-geometry',
                 'insert=periodic', 'insert=open', 'split=periodic', 'split=open', 'raise=open', 'raise=periodic', 'raise:pardim=1',
                 'raise:pardim=2', 'lower=open', 'append=equal-orders', 'append=unequal-orders', 'identical=unequal-orders',
                 'acc=compared', 'acc=getitem-IndexError', 'acc=flat-index-F-order', 'acc=flat-index-curve',
                 'acc=evaluated-on-domain', 'acc=reconstructed']
ASSUMPTIONS = ['histories are generated with the real library in the loop (state-aware choice of arguments); the generated '
               'specs are concrete and replayable']

# labels shared with the properties that own the called operations (see /verif/known_findings.json)
CLASS_PER_SMALL = 'periodic-small-basis-geometry'            # C04: periodic insert_knot with n < p+k
CLASS_CURVE_1D = 'curve-dimension1-controlpoints-flattened'   # C05: Curve.raise_order on a 1-D curve
CLASS_RAISE_NAN = 'curve-raise-order-singular-nan'           # Curve.raise_order with a knot of multiplicity >= order: NaN
CLASS_REVERSE_PER = 'reverse-periodic-flip-only'             # C06 (model follows the property: flip + roll)
CLASS_EXTRUDE_MUT = 'extrude-mutates-operand'                # C11 (model follows the property: operand untouched)
CLASS_CTOR_GAP = 'constructor-accepts-non-periodic-knot-vector'   # C08
CLASS_LOWER_WEIGHTS = 'lower-order-nonpositive-weights'
CLASS_CTOR_INVERSION = 'constructor-accepts-tolerance-inversion-evaluate-segfault'
CLASS_MAKEPER_SHORT = 'make-periodic-short-direction-shape-mismatch'   # fewer than order+continuity functions
# BSplineBasis(p, knots, k) with 2p <= len(knots) < p+k+1 (only possible for k >= p-1): rejected with ValueError
# (`if n < p + k + 1` in front of the periodic comparison, `Basis.CtorShortPeriodic` in the model) since the repair of
# finding `constructor-indexerror-short-periodic`; the pinned code ran the comparison off the list (IndexError).
# periodic insert_knot into a basis with n < p+k functions: on the PINNED code the ghost-knot repair reads knots it has
# already overwritten; for the smallest bases this breaks the knot structure itself (ghost knots, weights 0), not only
# the geometry.  The Lean model mirrors that repair loop statement by statement, so this label is given ONLY when the
# model reproduces the broken state exactly (no correspondence difference): any other way of breaking the structure of
# a small periodic basis (e.g. re-syncing the wrong ghost side) shows up as a difference and stays unclassified.
CLASS_PER_SMALL_STRUCT = 'periodic-small-basis-structure'

_sp_cache = None


def _sp():
    global _sp_cache
    if _sp_cache is None:
        from vlib import impl
        _sp_cache = impl.load()[0]
    return _sp_cache


def _factory(sp, name):
    return importlib.import_module(sp.__name__ + '.' + name)


# ---------------------------------------------------------------------------------------------
# symbolic parameter values

def _resolve(obj, d, ref):
    """Value of a symbolic parameter against the current state of the REAL object."""
    kind = ref[0]
    if kind == 'a':
        return float(ref[1])
    b = obj.bases[d]
    if kind == 'd':
        a, e = float(b.start()), float(b.end())
        return a + (e - a) * float(ref[1])
    ks = [float(x) for x in b.knot_spans()]
    if kind == 'k':
        return ks[ref[1] % len(ks)]
    if kind == 'm':
        if len(ks) < 2:
            return float(b.start())
        j = ref[1] % (len(ks) - 1)
        return ks[j] + (ks[j + 1] - ks[j]) * float(ref[2])
    raise AssertionError(ref)


def _enc_ref(ref):
    return [Word(ref[0])] + [x for x in ref[1:]]


# ---------------------------------------------------------------------------------------------
# executing one instruction on a pool of real objects

INPLACE_AFFINE = ('translate', 'scale', 'rotate', 'mirror', 'project', 'set_dimension', 'force_rational', 'iadd', 'isub',
                  'imul', 'itruediv')


def _apply_instr(sp, pool, ins):
    """Mutates `pool`; returns the list of changed indices (receiver first, then the appended objects)."""
    k, i = ins['op'], ins['i']
    if not 0 <= i < len(pool):
        raise IndexError('pool index')
    o = pool[i]
    news = []
    with np.errstate(all='ignore'):
        if k == 'insert':
            vals = [_resolve(o, ins['dir'], r) for r in ins['refs']]
            o.insert_knot(vals[0] if ins.get('scalar') and len(vals) == 1 else vals, ins['dir'])
        elif k == 'refine':
            if ins['dir'] < 0:
                o.refine(*ins['ns'])
            else:
                o.refine(*ins['ns'], direction=ins['dir'])
        elif k == 'raise':
            if ins['dir'] is None:
                o.raise_order(*ins['amounts'])
            else:
                o.raise_order(*ins['amounts'], direction=ins['dir'])
        elif k == 'lower':
            news = [o.lower_order(*ins['lowers'])]
        elif k == 'reverse':
            o.reverse(ins['dir'])
        elif k == 'swap':
            o.swap(ins['d1'], ins['d2'])
        elif k == 'reparam':
            o.reparam((ins['s'], ins['e']), direction=ins['dir'])
        elif k == 'reparamall':
            o.reparam(*[tuple(a) for a in ins['args']])
        elif k == 'split':
            vals = [_resolve(o, ins['dir'], r) for r in ins['refs']]
            r = o.split(vals[0] if ins.get('scalar') and len(vals) == 1 else vals, ins['dir'])
            news = list(r) if isinstance(r, (list, tuple)) else [r]
        elif k == 'append':
            if not 0 <= ins['j'] < len(pool):
                raise IndexError('pool index')
            o.append(pool[ins['j']])
        elif k == 'makeper':
            news = [o.make_periodic(ins['c'], ins['dir'])]
        elif k == 'lowerper':
            o.lower_periodic(ins['t'], ins['dir'])
        elif k == 'affine':
            r = _c09._apply(o, ins['aop'])
            if ins['aop']['op'] not in INPLACE_AFFINE:
                news = [r]
        elif k == 'section':
            r = o.section(*ins['sel'])
            news = [r] if isinstance(r, sp.SplineObject) else []
        elif k == 'extrude':
            fac = _factory(sp, 'surface_factory' if o.pardim == 1 else 'volume_factory')
            news = [fac.extrude(o, list(ins['amount']))]
        elif k == 'clone':
            news = [o.clone()]
        elif k == 'identical':
            j = ins['j']
            if not 0 <= j < len(pool):
                raise IndexError('pool index')
            if ins['dir'] < 0:
                sp.SplineObject.make_splines_identical(o, pool[j])
            else:
                sp.SplineObject.make_splines_identical(o, pool[j], direction=ins['dir'])
            return [i, j]
        else:
            raise AssertionError(k)
    first = len(pool)
    pool.extend(news)
    return [i] + list(range(first, len(pool)))


def _enc_instr(ins):
    k, i = ins['op'], ins['i']
    w = Word(k)
    if k in ('insert', 'split'):
        return [w, i, ins['dir'], [_enc_ref(r) for r in ins['refs']]]
    if k == 'refine':
        return [w, i, list(ins['ns']), ins['dir']]
    if k == 'raise':
        return [w, i, list(ins['amounts']), Word('none') if ins['dir'] is None else ins['dir']]
    if k == 'lower':
        return [w, i, list(ins['lowers'])]
    if k == 'reverse':
        return [w, i, ins['dir']]
    if k == 'swap':
        return [w, i, ins['d1'], ins['d2']]
    if k == 'reparam':
        return [w, i, ins['dir'], ins['s'], ins['e']]
    if k == 'reparamall':
        return [w, i, [list(a) for a in ins['args']]]
    if k == 'append':
        return [w, i, ins['j']]
    if k == 'makeper':
        return [w, i, Word('none') if ins['c'] is None else ins['c'], ins['dir']]
    if k == 'lowerper':
        return [w, i, ins['t'], ins['dir']]
    if k == 'affine':
        e = _c09._enc_op(ins['aop'])
        return [w, i, [Word(e[0])] + e[1:]]
    if k == 'section':
        return [w, i, [Word('none') if s is None else s for s in ins['sel']]]
    if k == 'extrude':
        return [w, i, list(ins['amount'])]
    if k == 'clone':
        return [w, i]
    if k == 'identical':
        return [w, i, ins['j'], ins['dir']]
    raise AssertionError(k)


# ---------------------------------------------------------------------------------------------
# Python transcription of `Obj.WellFormed` on a REAL object (the conjunction of the property)

def _basis_failures(b, d):
    out = []
    p = b.order
    kn = np.asarray(b.knots, dtype=float)
    k = b.periodic
    tag = 'basis %d: ' % d
    if not (isinstance(p, (int, np.integer)) and p >= 1):
        return [tag + 'order %r < 1' % (p,)]
    if kn.ndim != 1 or len(kn) < 2 * p:
        return [tag + 'only %d knots for order %d' % (len(kn), p)]
    if not np.all(np.isfinite(kn)):
        return [tag + 'non-finite knots']
    scale = max(1.0, float(np.max(np.abs(kn))))
    eps = 1e-9 * scale
    if np.any(np.diff(kn) < -1e-12 * scale):
        out.append(tag + 'knots decrease')
    if not (k >= -1 and (k + 2 <= p or k == -1)):
        out.append(tag + 'periodicity %d out of range for order %d' % (k, p))
        return out
    a, e = kn[p - 1], kn[len(kn) - p]
    if not a < e:
        out.append(tag + 'start %r >= end %r' % (float(a), float(e)))
    n = len(kn) - p - (k + 1)
    if n != b.num_functions():
        out.append(tag + 'num_functions inconsistent')
    if k >= 0:
        T = e - a
        for i in range(len(kn) - n):
            if abs(kn[i + n] - (kn[i] + T)) > eps:
                out.append(tag + 'periodic ghost knot %d: %r != %r + %r' % (i + n, float(kn[i + n]), float(kn[i]), float(T)))
                break
    return out


def wf_real(obj):
    """Failures of the structural well-formedness conjunction on a real object ([] = well formed)."""
    out = []
    cps = obj.controlpoints
    if not isinstance(cps, np.ndarray):
        return ['controlpoints is not an array']
    if len(obj.bases) != cps.ndim - 1:
        out.append('%d bases for a control array of %d axes' % (len(obj.bases), cps.ndim))
        return out
    want = tuple(int(b.num_functions()) for b in obj.bases) + (int(obj.dimension) + (1 if obj.rational else 0),)
    if tuple(cps.shape) != want:
        out.append('control array shape %r, bases and dimension say %r' % (tuple(cps.shape), want))
    if not obj.dimension >= 1:
        out.append('physical dimension %r < 1' % (obj.dimension,))
    for d, b in enumerate(obj.bases):
        out += _basis_failures(b, d)
    if obj.rational and cps.size:
        w = np.asarray(cps[..., -1], dtype=float)
        if not np.all(w > 0):       # NaN fails too
            out.append('non-positive weight %r' % (float(np.nanmin(w)) if np.any(np.isfinite(w)) else float('nan'),))
    return out


def _observables(obj):
    cps = np.asarray(obj.controlpoints, dtype=float)
    return {'bases': [[int(b.order), [float(x) for x in b.knots], int(b.periodic)] for b in obj.bases],
            'shape': list(cps.shape), 'cps': cps.reshape(-1).tolist(), 'rational': bool(obj.rational)}


def _same_obs(a, b):
    if a['bases'] != b['bases'] or a['shape'] != b['shape'] or a['rational'] != b['rational']:
        return False
    return np.array_equal(np.array(a['cps']), np.array(b['cps']), equal_nan=True)


# ---------------------------------------------------------------------------------------------
# the model-independent extras: accessors, clone, re-construction, evaluation everywhere

def _extras(sp, obj):
    out = []
    cps = obj.controlpoints
    if not np.all(np.isfinite(np.asarray(cps, dtype=float))):
        out.append('control points are not finite (NaN/inf)')
    shape = tuple(cps.shape[:-1])
    total = int(np.prod(shape)) if shape else 1
    try:
        if len(obj) != total:
            out.append('len(obj) = %d, control array has %d points' % (len(obj), total))
        if tuple(obj.shape) != shape:
            out.append('shape %r vs %r' % (tuple(obj.shape), shape))
        if obj.pardim != len(obj.bases):
            out.append('pardim %d, %d bases' % (obj.pardim, len(obj.bases)))
        if tuple(obj.order()) != tuple(b.order for b in obj.bases):
            out.append('order() inconsistent')
        for d, b in enumerate(obj.bases):
            if obj.order(d) != b.order or not np.array_equal(obj.knots(d, True), b.knots):
                out.append('order(%d)/knots(%d, True) inconsistent' % (d, d))
            if not np.array_equal(obj.knots(d), b.knot_spans()):
                out.append('knots(%d) inconsistent' % d)
            if obj.start(d) != b.knots[b.order - 1] or obj.end(d) != b.knots[-b.order]:
                out.append('start/end(%d) inconsistent' % d)
        if tuple(obj.start()) != tuple(b.start() for b in obj.bases) or tuple(obj.end()) != tuple(b.end() for b in obj.bases):
            out.append('start()/end() inconsistent')
        if total:
            idxs = range(total) if total <= 40 else sorted(set([0, 1, total // 2, total - 2, total - 1] + [(7 * j) % total for j in range(12)]))
            for i in idxs:
                mi = np.unravel_index(i, shape, order='F')
                if not np.array_equal(obj[i], cps[mi], equal_nan=True) or not np.array_equal(obj[tuple(int(x) for x in mi)], cps[mi], equal_nan=True):
                    out.append('obj[%d] is not the first-index-fastest control point %r' % (i, tuple(int(x) for x in mi)))
                    break
            if not np.array_equal(obj[-1], cps[tuple(s - 1 for s in shape)], equal_nan=True):
                out.append('obj[-1] is not the last control point')
    except Exception as e:  # noqa: BLE001
        out.append('accessor raised %s: %s' % (exc_kind(e), str(e)[:120]))
    try:
        c = obj.clone()
        if type(c) is not type(obj) or not _same_obs(_observables(c), _observables(obj)):
            out.append('clone() differs from the object')
        elif c.controlpoints is obj.controlpoints or any(x is y for x, y in zip(c.bases, obj.bases)):
            out.append('clone() shares state with the object')
    except Exception as e:  # noqa: BLE001
        out.append('clone() raised %s: %s' % (exc_kind(e), str(e)[:120]))
    for d, b in enumerate(obj.bases):
        try:
            sp.BSplineBasis(b.order, np.array(b.knots, dtype=float), b.periodic)
        except Exception as e:  # noqa: BLE001
            out.append('basis %d cannot be re-constructed from its own order/knots/periodic: %s: %s' % (d, exc_kind(e), str(e)[:80]))
    try:
        r = type(obj)(*obj.bases, obj.controlpoints, obj.rational, raw=True)
        if not _same_obs(_observables(r), _observables(obj)) or r.dimension != obj.dimension:
            out.append('re-construction cls(*bases, controlpoints, rational, raw=True) differs from the object')
    except Exception as e:  # noqa: BLE001
        out.append('re-construction raised %s: %s' % (exc_kind(e), str(e)[:120]))
    try:
        params = []
        for b in obj.bases:
            a, e = float(b.start()), float(b.end())
            ks = [float(x) for x in b.knot_spans()]
            pts = [a, 0.5 * (a + e), e] + [0.5 * (x + y) for x, y in zip(ks[:-1], ks[1:])][:6]
            params.append(sorted(set(pts)))
        with np.errstate(all='ignore'):
            v = np.asarray(obj.evaluate(*params))
        want = tuple(len(p) for p in params) + (int(obj.dimension),)
        if tuple(np.reshape(v, want).shape) != want:
            out.append('evaluation shape')
        if np.all(np.isfinite(np.asarray(obj.controlpoints, dtype=float))) and not np.all(np.isfinite(v)):
            out.append('evaluation on the domain is not finite')
    except Exception as e:  # noqa: BLE001
        out.append('evaluation on the domain raised %s: %s' % (exc_kind(e), str(e)[:120]))
    return out


# ---------------------------------------------------------------------------------------------
# running a history on the real library (shared by generation, run_impl and the oracle)

def _probes(n):
    return [0, 1, n // 2, n - 1, -1, -n, n, -n - 1, n + 3]


def _try(f):
    try:
        return f()
    except Exception as e:  # noqa: BLE001 - the class is the observable
        return Err(exc_kind(e), str(e)[:120])


def _acc_real(sp, obj):
    """The accessor block of a REAL object, laid out like `encodeAcc` of lean/Splipy/Driver/C10.lean."""
    def arr(v):
        a = np.asarray(v, dtype=float)
        return [list(a.shape), a.reshape(-1).tolist()]

    n = _try(lambda: len(obj))
    if isinstance(n, Err):
        return {'len': n}
    shape = tuple(int(x) for x in obj.shape)
    acc = {'len': n, 'shape': list(shape),
           'order': _try(lambda: [int(x) for x in obj.order()]),
           'knots': _try(lambda: [[float(x) for x in k] for k in obj.knots(with_multiplicities=True)]),
           'spans': _try(lambda: [[float(x) for x in k] for k in obj.knots()]),
           'start': _try(lambda: [float(x) for x in obj.start()]),
           'end': _try(lambda: [float(x) for x in obj.end()])}
    acc['flat'] = [_try(lambda i=i: np.asarray(obj[i], dtype=float).reshape(-1).tolist()) for i in _probes(n)]
    multi = []
    for i in _probes(n):
        if 0 <= i < n:
            mi = _try(lambda i=i: tuple(int(x) for x in np.unravel_index(i, shape, order='F')))
        else:
            mi = tuple(m + i for m in shape)
        multi.append(mi if isinstance(mi, Err) else _try(lambda mi=mi: arr(obj[mi])))
    acc['multi'] = multi
    ncomp = obj.controlpoints.shape[-1]

    def set1():
        c = obj.clone()
        c[n // 2] = [float(k + 1) for k in range(ncomp)]
        return np.asarray(c.controlpoints, dtype=float).reshape(-1).tolist()

    def set2():
        c = obj.clone()
        c[tuple(int(x) for x in np.unravel_index(n // 2, shape, order='F'))] = 7.0
        return np.asarray(c.controlpoints, dtype=float).reshape(-1).tolist()

    def recon():
        r = type(obj)(*obj.bases, obj.controlpoints, obj.rational, raw=True)
        c = obj.clone()
        return _same_obs(_observables(r), _observables(obj)) and _same_obs(_observables(c), _observables(obj))

    def ev():
        params = [[float(b.start()), 0.5 * (float(b.start()) + float(b.end())), float(b.end())] for b in obj.bases]
        with np.errstate(all='ignore'):
            v = np.asarray(obj.evaluate(*params))
        return list(v.shape)

    acc['set1'], acc['set2'], acc['recon'], acc['eval'] = _try(set1), _try(set2), _try(recon), _try(ev)
    return acc


def _small_periodic(b):
    return b.periodic >= 0 and b.num_functions() < b.order + b.periodic


def _overfull(b):
    """A knot of multiplicity >= order inside the domain, or > order anywhere: the Greville interpolation
    matrices of raise_order / lower_order are singular."""
    kn = [float(x) for x in b.knots]
    p = b.order
    a, e = kn[p - 1], kn[len(kn) - p]
    scale = max(1.0, abs(a), abs(e))
    i = 0
    while i < len(kn):
        j = i
        while j + 1 < len(kn) and abs(kn[j + 1] - kn[i]) <= 1e-10 * scale:
            j += 1
        m = j - i + 1
        if m > p or (m >= p and a + 1e-10 * scale < kn[i] < e - 1e-10 * scale):
            return True
        i = j + 1
    return False


def _flags_before(sp, pool, ins):
    """Known defect classes the instruction is about to exercise (decided on the state BEFORE the call)."""
    k, i = ins['op'], ins['i']
    if not 0 <= i < len(pool):
        return []
    o = pool[i]
    fl = []
    d = ins.get('dir')
    if k in ('insert', 'split', 'lowerper') and isinstance(d, int) and 0 <= d < len(o.bases):
        if _small_periodic(o.bases[d]) and (k != 'insert' or ins['refs']):
            fl.append(CLASS_PER_SMALL)
    if k == 'refine':
        dirs = range(len(o.bases)) if ins['dir'] < 0 or len(ins['ns']) != 1 else [ins['dir']]
        if any(0 <= dd < len(o.bases) and _small_periodic(o.bases[dd]) for dd in dirs):
            fl.append(CLASS_PER_SMALL)
    if k == 'raise' and o.pardim == 1 and ins['amounts'] and ins['amounts'][0] > 0:
        if o.dimension + (1 if o.rational else 0) == 1:
            fl.append(CLASS_CURVE_1D)
        if _overfull(o.bases[0]):
            fl.append(CLASS_RAISE_NAN)
    if k == 'append' and 0 <= ins['j'] < len(pool):
        c = pool[ins['j']]
        if o.pardim == 1 and c.pardim == 1 and o.order(0) != c.order(0):
            if max(o.dimension, c.dimension) + (1 if (o.rational or c.rational) else 0) == 1:
                fl.append(CLASS_CURVE_1D)
            if _overfull((o if o.order(0) < c.order(0) else c).bases[0]):
                fl.append(CLASS_RAISE_NAN)
    if k == 'reverse' and isinstance(d, int) and 0 <= d < len(o.bases) and o.bases[d].periodic >= 0:
        fl.append(CLASS_REVERSE_PER)
    if k == 'extrude' and o.pardim == 2:
        fl.append(CLASS_EXTRUDE_MUT)
    if k == 'lower' and o.rational:
        fl.append(CLASS_LOWER_WEIGHTS)
    if k == 'makeper' and isinstance(d, int) and 0 <= d < len(o.bases):
        b = o.bases[d]
        c = b.order - 2 if ins['c'] is None else ins['c']
        if b.periodic < 0 and 0 <= c <= b.order - 2 and b.num_functions() < b.order + c:
            fl.append(CLASS_MAKEPER_SHORT)
    if k == 'identical' and 0 <= ins['j'] < len(pool):
        for x, y in ((o, pool[ins['j']]), (pool[ins['j']], o)):
            if x.pardim == 1 and y.pardim == 1 and x.order(0) < y.order(0) and _overfull(x.bases[0]):
                fl.append(CLASS_RAISE_NAN)
        if any(_small_periodic(b) for x in (o, pool[ins['j']]) for b in x.bases):
            fl.append(CLASS_PER_SMALL)
    return fl


def _pre_info(pool, ins):
    """Which variant of the operation the call is (decided on the state before it) - coverage tags only."""
    k, i = ins['op'], ins['i']
    if not 0 <= i < len(pool):
        return []
    o = pool[i]
    d = ins.get('dir')
    out = []
    try:
        if k in ('insert', 'split', 'reverse', 'reparam') and isinstance(d, int) and 0 <= d < len(o.bases):
            out.append('%s=%s' % (k, 'periodic' if o.bases[d].periodic >= 0 else 'open'))
        if k in ('raise', 'refine', 'lower'):
            out.append('%s=%s' % (k, 'periodic' if any(b.periodic >= 0 for b in o.bases) else 'open'))
            out.append('%s:pardim=%d' % (k, o.pardim))
        if k == 'append' and 0 <= ins['j'] < len(pool):
            out.append('append=%s-orders' % ('equal' if o.order(0) == pool[ins['j']].order(0) else 'unequal'))
        if k == 'identical' and 0 <= ins['j'] < len(pool):
            c = pool[ins['j']]
            out.append('identical:pardim=%d' % o.pardim)
            if any(a.order != b.order for a, b in zip(o.bases, c.bases)):
                out.append('identical=unequal-orders')
            if any(a.periodic != b.periodic for a, b in zip(o.bases, c.bases)):
                out.append('identical=unequal-periodicity')
    except Exception:  # noqa: BLE001
        pass
    return out


def _run(sp, s, with_extras=False, stop_at_failure=False):
    """Returns {'init': [...], 'steps': [...], 'flags': [...]}.
    step = {'err': kind} | {'changed': [[idx, observables, wf failures, extras failures]], 'alias': [idx…]}."""
    pool = [gen.mk_object(sp, o) for o in s['pool']]
    res = {'init': [[wf_real(o), _extras(sp, o) if with_extras else [], _acc_real(sp, o) if with_extras else None] for o in pool],
           'steps': [], 'flags': []}
    snaps = [_observables(o) for o in pool]
    res['pre'] = []
    for ins in s['ops']:
        fl = _flags_before(sp, pool, ins)
        res['flags'].append(fl)
        res['pre'].append(_pre_info(pool, ins))
        try:
            changed = _apply_instr(sp, pool, ins)
        except Exception as e:  # noqa: BLE001 - the class is the observable
            res['steps'].append({'err': exc_kind(e), 'msg': str(e)[:160]})
            break
        step = {'changed': [], 'alias': []}
        for j in changed:
            obs = _observables(pool[j])
            step['changed'].append([j, obs, wf_real(pool[j]), _extras(sp, pool[j]) if with_extras else [],
                                    _acc_real(sp, pool[j]) if with_extras else None])
            if j < len(snaps):
                snaps[j] = obs
            else:
                snaps.append(obs)
        for j, o in enumerate(pool):
            if j not in changed and not _same_obs(_observables(o), snaps[j]):
                step['alias'].append(j)
                snaps[j] = _observables(o)
        res['steps'].append(step)
        if stop_at_failure and (step['alias'] or any(c[2] or c[3] for c in step['changed'])):
            break
    return res


# ---------------------------------------------------------------------------------------------
# generation

def _dy(rng, lo=-4, hi=4, bits=2):
    return gen.dyadic(rng, lo, hi, bits)


def _gen_affine(rng, o):
    dim, rational = o.dimension, o.rational
    fam = rng.choice(['translate', 'translate', 'scale', 'scale', 'rotate', 'rotate', 'mirror', 'project', 'set_dimension',
                      'force_rational', 'iadd', 'isub', 'imul', 'itruediv', 'add', 'sub', 'mul'])
    how = rng.choice(['list', 'tuple', 'ndarray'])
    if fam in ('translate', 'iadd', 'isub', 'add', 'sub'):
        n = dim if rng.random() < 0.75 else min(dim + 1, 3) if dim < 3 else dim
        if fam in ('add', 'sub'):
            how = rng.choice(['list', 'tuple', 'ndarray'])
        return {'op': fam, 'x': [_dy(rng) for _ in range(n)], 'as': how}
    nzf = [0.5, 2.0, -1.0, 3.0, 0.25, 1.5, -2.0, 4.0, -0.5, 1.25]
    if fam == 'scale':
        r = rng.random()
        if r < 0.4:
            return {'op': 'scale', 'args': [rng.choice(nzf + [0.0])], 'as': how}
        if r < 0.7:
            return {'op': 'scale', 'args': [rng.choice(nzf) for _ in range(dim)], 'as': how}
        return {'op': 'scale', 'args': [[rng.choice(nzf) for _ in range(dim)]], 'as': how}
    if fam in ('imul', 'itruediv', 'mul'):
        if rng.random() < 0.6:
            return {'op': fam, 'a': rng.choice(nzf), 'as': 'float'}
        return {'op': fam, 'a': [rng.choice(nzf) for _ in range(dim)], 'as': 'ndarray' if fam == 'itruediv' else how}
    if fam == 'rotate':
        ch, sh = _c09._half_angle(rng)
        if dim == 2 or rng.random() < 0.3:
            normal, norm = (None, 1) if rng.random() < 0.5 else ([0, 0, 1], 1)
        else:
            normal, norm = _c09._direction(rng)
        if dim not in (2, 3) and (normal is None or (normal[0] == 0 and normal[1] == 0)):
            return {'op': 'set_dimension', 'n': rng.choice([2, 3])}
        return {'op': 'rotate', 'ch': ch, 'sh': sh, 'normal': normal, 'norm': norm}
    if fam == 'mirror':
        if dim != 3:
            return {'op': 'set_dimension', 'n': 3}
        normal, norm = _c09._direction(rng)
        return {'op': 'mirror', 'normal': normal, 'norm': norm, 'as': how}
    if fam == 'project':
        return {'op': 'project', 'plane': rng.choice(['xy', 'xz', 'yz', 'x', 'y', 'z', 'XY', 'xyz'])}
    if fam == 'set_dimension':
        return {'op': 'set_dimension', 'n': rng.choice([2, 3, 3, 2, 1, 4])}      # >= 1: a 0-dimensional object is not a geometry
    return {'op': 'force_rational'}


def _mult(b, x):
    kn = np.asarray(b.knots, dtype=float)
    return int(np.sum(np.abs(kn - x) <= 1e-10 * max(1.0, abs(x))))


def _min_span(b):
    ks = b.knot_spans()
    return float(np.min(np.diff(ks))) if len(ks) > 1 else 1.0


def _knot_refs(rng, b, count, allow_end=False, new_only=False):
    """`count` symbolic values inside the domain of basis `b`, sorted increasingly."""
    ks = b.knot_spans()
    nk = len(ks)
    fine = _min_span(b) > 2.0 ** -12 * max(1.0, abs(float(b.start())), abs(float(b.end())))
    refs = []
    for _ in range(count):
        if nk >= 2 and fine and (new_only or rng.random() < 0.6):
            refs.append(['m', rng.randrange(nk - 1), rng.choice([0.5, 0.25, 0.75, 0.125, 0.375, 0.625])])
        else:
            hi = nk if (allow_end or (b.periodic >= 0 and rng.random() < 0.3)) else max(nk - 1, 1)
            j = rng.randrange(hi)
            if _mult(b, float(ks[j])) + sum(1 for r in refs if r == ['k', j]) >= b.order - 1 and rng.random() < 0.9:
                # one more copy would make the knot C^-1 (or worse): legal, but it poisons raise/lower_order
                if nk >= 2 and fine:
                    refs.append(['m', rng.randrange(nk - 1), rng.choice([0.5, 0.25, 0.75])])
                continue
            refs.append(['k', j])
    if not refs:
        refs = [['m', 0, 0.5]] if nk >= 2 else [['k', 0]]
    refs.sort(key=lambda r: r[1] + (r[2] if r[0] == 'm' else 0.0))
    return refs


def _dedupe(refs):
    out = []
    for r in refs:
        if r not in out:
            out.append(r)
    return out


def _gen_instr(rng, sp, pool, max_pool, defect=False):
    """Draw one instruction suited to the current state of the real pool.  `defect`: draw one of the
    known defect classes / deliberate errors instead."""
    i = rng.randrange(len(pool))
    o = pool[i]
    pd = o.pardim
    ncp = len(o)
    roomy = len(pool) < max_pool
    orders = [b.order for b in o.bases]
    per = [b.periodic for b in o.bases]
    small = [_small_periodic(b) for b in o.bases]
    d = rng.randrange(pd)
    b = o.bases[d]
    if defect:
        c = rng.choice(['insert-outside', 'reparam-bad', 'bad-dir', 'insert-small', 'lower-periodic', 'raise-order1', 'raise-1d',
                        'makeper-periodic', 'lower-too-far', 'insert-end', 'raise-negative', 'makeper-short', 'makeper-short'])
        if c == 'makeper-short':
            # uniform knots pass the constructor's spacing test; fewer than order + continuity functions
            for dd in range(pd):
                bb = o.bases[dd]
                if bb.periodic < 0 and bb.order >= 3:
                    cs = [cc for cc in range(1, bb.order - 1) if bb.order + cc > bb.num_functions() >= cc + 1]
                    if cs:
                        return {'op': 'makeper', 'i': i, 'c': rng.choice(cs), 'dir': dd}
        if c == 'insert-outside':
            dd = next((x for x in range(pd) if per[x] < 0), None)
            if dd is not None:
                return {'op': 'insert', 'i': i, 'dir': dd, 'refs': [['d', rng.choice([-0.25, 1.5])]]}
        if c == 'reparam-bad':
            s0 = _dy(rng)
            return {'op': 'reparam', 'i': i, 'dir': d, 's': s0, 'e': s0 - rng.choice([0.0, 1.0])}
        if c == 'bad-dir':
            return {'op': rng.choice(['reverse', 'insert']), 'i': i, 'dir': pd, 'refs': [['a', 0.5]]}
        if c == 'insert-small':
            dd = next((x for x in range(pd) if small[x]), None)
            if dd is not None:
                return {'op': 'insert', 'i': i, 'dir': dd, 'refs': _knot_refs(rng, o.bases[dd], 1, new_only=True)}
        if c == 'lower-periodic':
            if any(p >= 0 for p in per) and all(x >= 3 for x in orders):
                return {'op': 'lower', 'i': i, 'lowers': [1]}
        if c == 'raise-order1':
            if 1 in orders and ncp <= 100:
                return {'op': 'raise', 'i': i, 'amounts': [1], 'dir': None}
        if c == 'raise-1d':
            if pd == 1 and 2 <= orders[0] <= 4 and ncp <= 60:
                if _overfull(o.bases[0]):
                    return {'op': 'raise', 'i': i, 'amounts': [rng.choice([1, 2])], 'dir': None}
                # make an interior knot C^-1 (or the start knot over-full) first; the raise follows in a later draw
                ks = o.bases[0].knot_spans()
                j = rng.randrange(len(ks) - 1) if len(ks) > 2 and rng.random() < 0.7 else 0
                need = orders[0] - (_mult(o.bases[0], float(ks[j])) if j else 0) + (1 if j == 0 else 0)
                if o.bases[0].periodic < 0 and 0 < need <= 4:
                    return {'op': 'insert', 'i': i, 'dir': 0, 'refs': [['k', j]] * need}
        if c == 'makeper-periodic':
            dd = next((x for x in range(pd) if per[x] >= 0), None)
            if dd is not None:
                return {'op': 'makeper', 'i': i, 'c': 0, 'dir': dd}
        if c == 'lower-too-far':
            return {'op': 'lower', 'i': i, 'lowers': [max(orders) - 1]}
        if c == 'insert-end':
            dd = next((x for x in range(pd) if per[x] < 0), None)
            if dd is not None:
                return {'op': 'insert', 'i': i, 'dir': dd, 'refs': [['d', 1]]}
        if c == 'raise-negative':
            return {'op': 'raise', 'i': i, 'amounts': [-1], 'dir': None}
        return None
    fam = rng.choice(['insert'] * 6 + ['refine'] * 3 + ['raise'] * 3 + ['lower'] * 2 + ['reverse'] * 2 + ['swap'] * 2
                     + ['reparam'] * 2 + ['reparamall'] + ['split'] * 3 + ['append'] * 2 + ['makeper'] * 3 + ['lowerper'] * 2
                     + ['affine'] * 6 + ['section'] * 2 + ['extrude'] + ['clone'] + ['identical'] * 2)
    ncomp = o.dimension + (1 if o.rational else 0)
    if fam == 'insert':
        if ncp > 300 or o.shape[d] > 48:
            return None
        cnt = rng.choice([1, 1, 1, 2, 3])
        refs = _knot_refs(rng, b, cnt, allow_end=False)
        ins = {'op': 'insert', 'i': i, 'dir': d, 'refs': refs}
        if cnt == 1 and rng.random() < 0.5:
            ins['scalar'] = True
        if rng.random() < 0.15 and per[d] >= 0:
            # a value outside the base period of a periodic direction is wrapped
            ins['refs'] = [['d', rng.choice([1.25, -0.5, 2.375, -1.75])]]
        return ins
    if fam == 'refine':
        if ncp * (2 ** pd) > 300 or max(o.shape) > 40 or any(_min_span(x) < 2.0 ** -10 for x in o.bases):
            return None
        if rng.random() < 0.5:
            return {'op': 'refine', 'i': i, 'ns': [rng.choice([1, 1, 2])], 'dir': d}
        if rng.random() < 0.5:
            return {'op': 'refine', 'i': i, 'ns': [1], 'dir': -1}
        return {'op': 'refine', 'i': i, 'ns': [rng.choice([0, 1, 2]) for _ in range(pd)], 'dir': -1}
    if fam == 'raise':
        if 1 in orders or ncp > 120 or max(o.shape) > 16 or max(orders) >= 6 or any(_overfull(x) for x in o.bases):
            return None          # (size limits: the model inverts the collocation matrices in exact arithmetic)
        if pd == 1:
            return {'op': 'raise', 'i': i, 'amounts': [rng.choice([1, 1, 2, 0])], 'dir': None}
        r = rng.random()
        if r < 0.4:
            return {'op': 'raise', 'i': i, 'amounts': [rng.choice([1, 1, 2])], 'dir': d}
        if r < 0.6:
            return {'op': 'raise', 'i': i, 'amounts': [1], 'dir': None}
        return {'op': 'raise', 'i': i, 'amounts': [rng.choice([0, 1, 1, 2]) for _ in range(pd)], 'dir': None}
    if fam == 'lower':
        if not roomy or any(p >= 0 for p in per) or ncp > 120 or max(o.shape) > 16 or any(_overfull(x) for x in o.bases):
            return None
        lowers = [1 if (x >= 3 and rng.random() < 0.7) else 0 for x in orders]
        if not any(lowers):
            return None
        return {'op': 'lower', 'i': i, 'lowers': lowers}
    if fam == 'reverse':
        return {'op': 'reverse', 'i': i, 'dir': d}
    if fam == 'swap':
        if pd == 1:
            return {'op': 'swap', 'i': i, 'd1': 0, 'd2': 1} if rng.random() < 0.3 else None
        return {'op': 'swap', 'i': i, 'd1': d, 'd2': rng.randrange(pd)}
    if fam in ('reparam', 'reparamall'):
        def interval():
            s0 = rng.choice([0.0, 0.0, -1.0, 2.5, 10.0, -7.25, 1.0])
            return [s0, s0 + rng.choice([1.0, 1.0, 2.0, 0.5, 4.0, 3.0, 0.25])]
        if fam == 'reparam':
            s0, e0 = interval()
            return {'op': 'reparam', 'i': i, 'dir': d, 's': s0, 'e': e0}
        return {'op': 'reparamall', 'i': i, 'args': [interval() for _ in range(rng.randint(0, pd))]}
    if fam == 'split':
        if not roomy or ncp > 300:
            return None
        cnt = rng.choice([1, 1, 2, 3])
        if per[d] >= 0 and not all(float(x * 2.0 ** 20).is_integer() for x in b.knots):
            # several split points on a periodic direction: after the roll (knots - t1, rounded) the code looks the next
            # points up with exact bisect_left; with non-dyadic knots (thirds from refine(2), ...) a rolled knot can differ
            # from its copy by one ulp and the cut lands one index off (C07's business, invisible to the exact model)
            cnt = 1
        refs = _dedupe(_knot_refs(rng, b, cnt, allow_end=False))
        if per[d] < 0:
            # the start of a non-periodic direction is skipped by the code; keep it sometimes
            if refs[0] == ['k', 0] and rng.random() < 0.7:
                refs = refs[1:] or [['m', 0, 0.5]]
        ins = {'op': 'split', 'i': i, 'dir': d, 'refs': refs}
        if len(refs) == 1 and rng.random() < 0.5:
            ins['scalar'] = True
        return ins
    if fam == 'append':
        cands = [j for j, c in enumerate(pool) if c.pardim == 1 and c.bases[0].periodic < 0]
        if pd != 1 or per[0] >= 0 or not cands or ncp > 150:
            return None
        j = rng.choice(cands)
        c = pool[j]
        if orders[0] != c.order(0) and (1 in (orders[0], c.order(0)) or _overfull(o.bases[0]) or _overfull(c.bases[0])
                                        or max(len(o), len(c)) > 16):
            return None
        if orders[0] == 1:
            return None          # C07 known finding append-order-1-pieces (geometry); structure is exercised by the others
        return {'op': 'append', 'i': i, 'j': j}
    if fam == 'makeper':
        if not roomy or per[d] >= 0 or orders[d] < 2:
            return None
        c = rng.choice([None, 0, 0, rng.randint(0, orders[d] - 2)])
        return {'op': 'makeper', 'i': i, 'c': c, 'dir': d}
    if fam == 'lowerper':
        dd = next((x for x in range(pd) if per[x] >= 0), None)
        if dd is None:
            return None
        return {'op': 'lowerper', 'i': i, 't': rng.randint(-1, per[dd] - 1) if per[dd] > 0 or rng.random() < 0.8 else per[dd], 'dir': dd}
    if fam == 'affine':
        aop = _gen_affine(rng, o)
        if aop['op'] in ('add', 'sub', 'mul') and not roomy:
            return None
        return {'op': 'affine', 'i': i, 'aop': aop}
    if fam == 'section':
        if pd < 2 or not roomy:
            return None
        while True:
            sel = [None if rng.random() < 0.5 else rng.choice([0, -1, rng.randrange(o.shape[x]), -rng.randint(1, o.shape[x])]) for x in range(pd)]
            if any(x is None for x in sel) and any(x is not None for x in sel):
                break
        if rng.random() < 0.3:
            while sel and sel[-1] is None:
                sel = sel[:-1]          # trailing free directions may be omitted
        return {'op': 'section', 'i': i, 'sel': sel}
    if fam == 'extrude':
        if pd > 2 or not roomy or ncp > 150 or o.dimension > 3:
            return None
        return {'op': 'extrude', 'i': i, 'amount': [_dy(rng), _dy(rng), rng.choice([1.0, 2.0, 0.5, -1.0])]}
    if fam == 'clone':
        return {'op': 'clone', 'i': i} if roomy else None
    if fam == 'identical':
        def quiet(x):
            return (all(bb.order >= 2 and not _overfull(bb) for bb in x.bases)
                    and max(x.shape) <= 10 and len(x) <= 60)
        cands = [j for j, c in enumerate(pool) if j != i and c.pardim == pd and quiet(c)]
        if not cands or not quiet(o):
            return None
        return {'op': 'identical', 'i': i, 'j': rng.choice(cands), 'dir': rng.choice([-1, -1, d])}
    raise AssertionError(fam)


def _start_object(rng, small_ok=False):
    for _ in range(30):
        pd = rng.choice([1, 1, 1, 2, 2, 3])
        dim = rng.choice([2, 3, 3] if pd < 3 else [3])
        if pd == 1 and rng.random() < 0.08:
            dim = 1
        o = gen.rand_object(rng, pardim=pd, dim=dim, pmax=4 if pd < 3 else 3, periodic_prob=0.3, max_interior=3 if pd < 3 else 2,
                            pmin=1 if rng.random() < 0.12 else 2, wide=rng.random() < 0.05)
        if not small_ok and any(gen.basis_info(b)['k'] >= 0 and gen.basis_info(b)['n'] < b['order'] + b['periodic'] for b in o['bases']):
            continue
        return o
    return o


def _gen_history(rng, sp, nops, max_pool=7):
    pool_specs = [_start_object(rng, small_ok=rng.random() < 0.35)]
    if rng.random() < 0.45:
        extra = _start_object(rng)
        if pool_specs[0]['bases'].__len__() == 1 and rng.random() < 0.7:
            extra = gen.rand_object(rng, pardim=1, dim=rng.choice([2, 3]), pmax=4, periodic_prob=0.0, max_interior=2, pmin=2)
        pool_specs.append(extra)
    pool = [gen.mk_object(sp, o) for o in pool_specs]
    ops = []
    want_defect = INCLUDE_DEFECT_CLASSES and rng.random() < 0.12
    tries = 0
    while len(ops) < nops and tries < 12 * nops:
        tries += 1
        last = len(ops) == nops - 1
        ins = None
        defect = want_defect and (last or rng.random() < 0.1)
        try:
            ins = _gen_instr(rng, sp, pool, max_pool, defect=defect)
        except Exception:  # noqa: BLE001 - a broken state (after a defect) may break the generator's look-ups
            ins = None
        if ins is None:
            continue
        trial = [x.clone() for x in pool]
        try:
            _apply_instr(sp, trial, ins)
            raised = False
        except Exception:  # noqa: BLE001
            raised = True
        if raised and not defect:
            # an unplanned exception would just cut the history short; besides, the ones met in practice are
            # rounding effects the exact model cannot have (reparam() ending at 0.9999999999999998 makes
            # make_splines_identical raise "out of range"; clamped end knots that differ by one ulp after
            # append/roll make raise_order raise) - exceptions, not malformed objects
            continue
        ops.append(ins)
        if raised:
            break
        pool = trial
        if any(wf_real(x) for x in pool):
            break               # a broken object: the oracle has its failing input; later look-ups may crash
    return {'kind': 'hist', 'pool': pool_specs, 'ops': ops}


# ---- constructor stream

def _ctor_cases(rng, n):
    out = []

    def add(cls, p, knots, k, expect):
        out.append({'kind': 'ctor', 'cls': cls, 'order': int(p), 'knots': [float(x) for x in knots], 'periodic': int(k), 'expect': expect})

    for _ in range(n):
        r = rng.random()
        p = rng.randint(1, 5)
        if r < 0.12:
            b = gen.open_basis(rng, p, clamped=rng.random() < 0.7, wide=rng.random() < 0.1)
            add('valid-open', p, b['knots'], rng.choice([-1, -1, -2, -5]), 'accept')
        elif r < 0.26:
            p = max(p, 2)
            k = rng.randint(0, p - 2)
            b = gen.periodic_basis(rng, p, k, wide=rng.random() < 0.1)
            add('valid-periodic', p, b['knots'], k, 'accept')
        elif r < 0.38:
            b = gen.open_basis(rng, p, n_interior=rng.randint(1, 4))
            kn = list(b['knots'])
            j = rng.randrange(len(kn) - 1)
            js = [x for x in range(len(kn) - 1) if kn[x] < kn[x + 1]]
            j = rng.choice(js)
            kn[j], kn[j + 1] = kn[j + 1], kn[j]
            add('decreasing', p, kn, -1, 'reject')
        elif r < 0.46:
            m = rng.randint(0, 2 * p - 1)
            add('too-few', p, gen.increasing(rng, m) if m else [], rng.choice([-1, -1, 0]) if p >= 2 else -1, 'reject')
        elif r < 0.54:
            b = gen.open_basis(rng, max(p, 1))
            add('order<=0', rng.choice([0, 0, -1, -3]), b['knots'], -1, 'reject')
        elif r < 0.72:
            # sortedness within / beyond the tolerance
            b = gen.open_basis(rng, p, n_interior=rng.randint(1, 3), max_mult=1)
            kn = list(b['knots'])
            js = [x for x in range(1, len(kn))]
            j = rng.choice(js)
            beyond = rng.random() < 0.5
            delta = (4.0 if beyond else 0.25) * TOL
            kn[j] = kn[j - 1] - delta
            # later knots must not be below kn[j] either
            ok = all(kn[x + 1] - kn[x] >= -0.25 * TOL for x in range(len(kn) - 1) if x + 1 != j)
            if not ok:
                continue
            add('beyond-tol' if beyond else 'within-tol', p, kn, -1, 'reject' if beyond else 'accept')
        elif r < 0.88:
            p = max(p, 2)
            k = rng.randint(0, p - 2)
            b = gen.periodic_basis(rng, p, k, n_interior=rng.randint(1, 4))
            kn = list(b['knots'])
            if p + k - 1 <= 0:
                continue
            # perturb a knot that takes part in the compared spacings (an interior copy keeps the vector sorted)
            i0 = rng.randrange(p + k - 1)
            beyond = rng.random() < 0.6
            delta = (8.0 if beyond else 0.25) * TOL * rng.choice([1, -1])
            j = i0 + 1
            if j == p + k - 1 + 0 and False:
                pass
            kn2 = list(kn)
            kn2[j] += delta
            if any(kn2[x + 1] - kn2[x] < -0.25 * TOL for x in range(len(kn2) - 1)):
                kn2 = list(kn)
                kn2[j] += abs(delta)
                if any(kn2[x + 1] - kn2[x] < -0.25 * TOL for x in range(len(kn2) - 1)):
                    continue
            # the same knot may enter two compared spacings, or both sides of one comparison: judge by the definition
            add('periodic-mismatch' if beyond else 'within-tol', p, kn2, k, 'by-definition')
        elif r < 0.93:
            b = gen.open_basis(rng, p, clamped=False)
            add('valid-open', p, b['knots'], -1, 'accept')
        else:
            # accepted although not periodic: (a) uniform vector with k < p-2, (b) last ghost knot moved
            if rng.random() < 0.5:
                p = rng.randint(3, 5)
                k = rng.randint(0, p - 3)
                m = rng.randint(2 * p, 2 * p + 4)
                h = rng.choice([1.0, 0.5, 2.0])
                add('gap', p, [-1.0 + h * x for x in range(m)], k, 'by-definition')
            else:
                p = max(p, 2)
                k = rng.randint(0, p - 2)
                b = gen.periodic_basis(rng, p, k, n_interior=rng.randint(1, 3))
                kn = list(b['knots'])
                kn[-1] += rng.choice([0.5, 1.0, 0.25])
                add('gap', p, kn, k, 'by-definition')
    # periodicity k >= p-1 (outside the admissible range k <= p-2): vectors shorter than p+k+1 (the periodic test runs
    # off the array: IndexError in the pinned code) and long enough ones (uniform: accepted although k > p-2; else rejected)
    for p, k, m in [(2, 5, 4), (2, 1, 4), (3, 2, 6), (3, 4, 7), (2, 2, 5), (4, 3, 8), (1, 0, 2), (1, 1, 2), (2, 3, 5)]:
        add('short-periodic', p, [float(x) for x in range(m)] if rng.random() < 0.5 else sorted(gen.increasing(rng, m)), k,
            'reject' if m < p + k + 1 else 'by-definition')
    add('short-periodic', 2, [0, 0, 1, 1], 5, 'reject')
    # decreases INSIDE the tolerance are accepted by the constructor (finding
    # constructor-accepts-tolerance-inversion-evaluate-segfault: the compiled evaluator bisects the stored vector, an
    # unsorted one made it read outside its scratch array); since the repair the constructor stores the running
    # maximum.  Inversions of 1e-17 .. 0.9*tol at several positions, incl. inside the first / last p knots, each
    # followed by evaluate() at the affected knots, at the ends and in between.
    add('tol-inversion', 3, [0, 5.551115123125783e-17, 0, 0.5, 1, 1, 1], -1, 'accept')
    out[-1]['eval'] = [0.0, 5.551115123125783e-17, 0.25, 0.5, 1.0]
    for rep in range(10 if n <= 300 else 40):
        p = rng.randint(1, 4)
        if rng.random() < 0.3 and p >= 2:
            k = rng.randint(0, p - 2)
            b = gen.periodic_basis(rng, p, k, n_interior=rng.randint(1, 3))
        else:
            k = -1
            b = gen.open_basis(rng, p, n_interior=rng.randint(0, 3), clamped=rng.random() < 0.8)
        kn = [float(x) for x in b['knots']]
        m = len(kn)
        where = rng.choice(['first', 'last', 'interior', 'any'])
        lo, hi = {'first': (1, max(1, p - 1)), 'last': (max(1, m - p), m - 1), 'interior': (min(p, m - 1), max(min(p, m - 1), m - p - 1)),
                  'any': (1, m - 1)}[where]
        j = rng.randint(lo, max(lo, hi))
        delta = rng.choice([1e-17, 1e-14, 1e-12, 0.5 * TOL, 0.9 * TOL])
        kn2 = list(kn)
        kn2[j] = kn2[j - 1] - delta          # knots[j] < knots[j-1] by delta
        if kn2[j] == kn2[j - 1] or any(kn2[x + 1] - kn2[x] < -0.95 * TOL for x in range(m - 1)):
            continue
        if k >= 0 and any(abs((kn2[i + 1] - kn2[i]) - (kn2[-p - k + i] - kn2[-p - k - 1 + i])) > 0.5 * TOL for i in range(p + k - 1)):
            continue     # keep the periodic comparison away from its own threshold
        if k >= 0 and abs(kn2[j] - kn[j]) > 0.95 * TOL:
            continue     # on a periodic vector only a round-off sized move keeps the ghost knots periodic (else: class gap)
        cm = list(np.maximum.accumulate(np.array(kn2)))
        if not cm[p - 1] < cm[m - p]:
            continue     # the stored running maximum would have an empty domain (start >= end is never tested by the
                         # constructor: that is the gap class, not a tolerance inversion)
        add('tol-inversion', p, kn2, k, 'accept')
        a, e = kn[p - 1], kn[m - p]
        ts = sorted({kn2[j - 1], kn2[j], kn[min(j + 1, m - 1)], a, e, 0.5 * (a + e), 0.5 * (kn2[j - 1] + kn[min(j + 1, m - 1)])})
        out[-1]['eval'] = [t for t in ts if a <= t <= e] or [0.5 * (a + e)]
        out[-1]['where'] = where
    # POSITIVE spans narrower than the tolerance (1e-11 .. 9e-11): a sorted vector is accepted and stored AS IS - the
    # clean-up of the constructor removes decreases only, it must not merge distinct knots (seeded change C19_8).
    # Positions: inside the first p knots (unclamped), interior, inside the last p knots; clamped and unclamped; several
    # narrow spans in a row; and whole vectors scaled to a tiny domain the way reparam() does it (normalise, scale, shift).
    def narrow(p, kn, how):
        kn = [float(x) for x in kn]
        m = len(kn)
        if m < 2 * p or any(kn[x + 1] < kn[x] for x in range(m - 1)) or not kn[p - 1] < kn[m - p]:
            return
        if not any(0 < kn[x + 1] - kn[x] < TOL for x in range(m - 1)):
            return
        add('narrow-span', p, kn, -1, 'accept')
        out[-1]['how'] = how
    narrow(3, [0, 0, 0, 0.5, 0.5 + 3e-11, 1, 1, 1], 'interior')
    narrow(2, [0, 5e-11, 1, 1 + 5e-11], 'unclamped-ends')
    narrow(3, [0, 1e-11, 2e-11, 1, 2, 2 + 9e-11, 2 + 1.8e-10], 'unclamped-ends')
    narrow(3, ((np.array([0, 0, 0, 1, 2, 3, 4, 4, 4], dtype=float) - 0.0) / 4.0 * 1e-10 + 0.0).tolist(), 'reparam')   # reparam(0, 1e-10)
    for rep in range(12 if n <= 300 else 40):
        p = rng.randint(1, 4)
        clamped = rng.random() < 0.5
        b = gen.open_basis(rng, p, n_interior=rng.randint(1, 4), clamped=clamped)
        kn = [float(x) for x in b['knots']]
        m = len(kn)
        how = rng.choice(['interior', 'first', 'last', 'run', 'reparam'])
        if how == 'reparam':
            # reparam(start, end) of the basis: knots -= knots[0]... normalise to the domain, scale, shift (in place,
            # no constructor call); the vector then goes through the constructor (re-construction, file readers)
            a, e = kn[p - 1], kn[m - p]
            s0 = rng.choice([0.0, 1.0, -2.0])
            width = rng.choice([1e-10, 3e-10, 1e-9, 5e-11])
            arr = (np.array(kn) - a) / (e - a)
            arr = arr * ((s0 + width) - s0) + s0
            narrow(p, arr.tolist(), 'reparam')
            continue
        d = rng.choice([1e-11, 2e-11, 5e-11, 9e-11])
        if how == 'interior':
            j = rng.randint(p, m - p)
        elif how == 'first':
            j = rng.randint(1, max(1, p - 1))
        elif how == 'last':
            j = rng.randint(max(1, m - p), m - 1)
        else:
            j = rng.randint(1, m - 1)
        cnt = rng.randint(2, 3) if how == 'run' else 1
        kn2 = list(kn)
        for q in range(cnt):
            if j + q < m:
                # a new distinct value d above the predecessor; everything behind is pushed up if necessary
                kn2[j + q] = kn2[j + q - 1] + d
        for x in range(j + cnt, m):
            kn2[x] = max(kn2[x], kn2[x - 1])
        narrow(p, kn2, how)
    for p, k in [(2, 1), (3, 2), (2, 3), (3, 4), (1, 0), (4, 3)]:
        m = p + k + 1 + rng.randint(0, 3)
        m = max(m, 2 * p)
        add('wide-periodic', p, [float(x) for x in range(m)], k, 'by-definition')
        add('wide-periodic', p, gen.increasing(rng, m, uniform=False), k, 'by-definition')
    # the documented example of DESIGN.md / known_findings
    add('gap', 3, [-1, 0, 1, 2, 3, 4, 5], 0, 'by-definition')
    add('valid-periodic', 3, [-1, 0, 0, 1, 2, 3, 3, 4], 0, 'accept')
    add('valid-open', 2, [0, 0, 1, 1], -1, 'accept')
    return out


def _focus_cases(rng):
    """Short hand-built histories that hit, deterministically, the defect classes random search meets rarely."""
    def curve(p, knots, k=-1, dim=2, rational=False):
        b = {'order': p, 'knots': [float(x) for x in knots], 'periodic': k}
        n = len(knots) - p - (k + 1)
        return {'bases': [b], 'cps': gen.rand_cps(rng, [n], dim + (1 if rational else 0), rational), 'rational': rational}
    out = []
    if INCLUDE_DEFECT_CLASSES:
        # make_periodic on a direction with fewer than order + continuity functions (uniform knots pass the constructor)
        for p, nint, c in [(4, 1, 2), (5, 2, 3), (3, 0, 1), (4, 2, 2), (5, 2, 2)]:
            kn = [0.0] * p + [float(x) for x in range(1, nint + 1)] + [float(nint + 1)] * p
            out.append({'kind': 'hist', 'pool': [curve(p, kn, rational=rng.random() < 0.5)],
                        'ops': [{'op': 'makeper', 'i': 0, 'c': c, 'dir': 0}]})
        # Curve.raise_order with an interior knot of multiplicity = order / an end knot of multiplicity order + 1
        out.append({'kind': 'hist', 'pool': [curve(2, [0, 0, 1, 1, 2, 2])], 'ops': [{'op': 'raise', 'i': 0, 'amounts': [1], 'dir': None}]})
        out.append({'kind': 'hist', 'pool': [curve(3, [0, 0, 0, 1, 2, 2, 2], rational=True)],
                    'ops': [{'op': 'insert', 'i': 0, 'dir': 0, 'refs': [['k', 0]]}, {'op': 'raise', 'i': 0, 'amounts': [1], 'dir': None}]})
        # lower_order interpolates the homogeneous control points: the new weights need not be positive
        out.append({'kind': 'hist', 'pool': [{'bases': [{'order': 4, 'knots': [0.0] * 4 + [8.0] * 4, 'periodic': -1}],
                                              'cps': [[0.0, 0.0, 3.0], [0.5, 0.5, 0.5], [2.0, 0.0, 1.0], [6.0, 2.0, 2.0]], 'rational': True}],
                    'ops': [{'op': 'lower', 'i': 0, 'lowers': [1]}]})
        # periodic insertion into a basis with n < p + k functions
        out.append({'kind': 'hist', 'pool': [curve(2, [-3, 0, 3, 6], 0)], 'ops': [{'op': 'insert', 'i': 0, 'dir': 0, 'refs': [['m', 0, 0.5]]}]})
        out.append({'kind': 'hist', 'pool': [curve(3, [-2, -1, 0, 1, 2, 3, 4], 1)], 'ops': [{'op': 'split', 'i': 0, 'dir': 0, 'refs': [['m', 0, 0.5]]}]})
    # clean references: append / make_splines_identical of curves with different orders (Curve.raise_order inside)
    out.append({'kind': 'hist', 'pool': [curve(2, [0, 0, 1, 2, 2]), curve(3, [0, 0, 0, 1, 3, 3, 3], dim=3, rational=True)],
                'ops': [{'op': 'append', 'i': 0, 'j': 1}, {'op': 'clone', 'i': 1}, {'op': 'identical', 'i': 0, 'j': 1, 'dir': -1}]})
    out.append({'kind': 'hist', 'pool': [curve(4, [0, 0, 0, 0, 2, 4, 4, 4, 4]), curve(2, [1, 1, 1.5, 3, 3])],
                'ops': [{'op': 'identical', 'i': 0, 'j': 1, 'dir': 0}, {'op': 'append', 'i': 1, 'j': 0}]})
    out.append({'kind': 'hist', 'pool': [curve(4, [0, 0, 0, 0, 1, 2, 3, 4, 5, 5, 5, 5], rational=True)],
                'ops': [{'op': 'makeper', 'i': 0, 'c': 2, 'dir': 0}, {'op': 'lowerper', 'i': 1, 't': 0, 'dir': 0},
                        {'op': 'reverse', 'i': 1, 'dir': 0}, {'op': 'split', 'i': 1, 'dir': 0, 'refs': [['m', 1, 0.5]]}]})
    return out


def _periodic_spec(rng, p, k, n_interior, uniform):
    """Periodic basis of order p, continuity k, simple interior knots: n = p-1-k + n_interior functions."""
    mu0 = p - 1 - k
    uniq = [float(x) for x in range(n_interior + 2)] if uniform else gen.increasing(rng, n_interior + 2, uniform=False)
    a, T = uniq[0], uniq[-1] - uniq[0]
    pattern = [a] * mu0 + uniq[1:-1]
    L = len(pattern)
    knots = [pattern[j % L] + T * (j // L) for j in range(-(k + 1), L + mu0 + k + 1)]
    return {'order': p, 'knots': knots, 'periodic': k}


def _small_periodic_cases(rng, tier):
    """insert_knot at EVERY span (and every interior knot) of small periodic directions: every (p, k), the number
    of functions from the minimum up to p+k+1 (below p+k the two ghost regions of the knot vector overlap).
    Only STRUCTURE is judged here (knots, shapes, ghost periodicity, re-construction, evaluation does not raise);
    the geometry defect of these bases is C04's known finding."""
    out = []
    for p in range(2, 6):
        for k in range(0, p - 1):
            mu0 = p - 1 - k
            for n in range(max(mu0, 1), p + k + 2):
                n_int = n - mu0
                for uniform in ([True] if tier == 'quick' and n_int > 3 else [True, False]):
                    b = _periodic_spec(rng, p, k, n_int, uniform)
                    if len(b['knots']) < 2 * p:
                        continue
                    refs = [['m', j, f] for j in range(n_int + 1) for f in ([0.5] if tier == 'quick' else [0.5, 0.25])]
                    refs += [['k', j] for j in range(0, n_int + 1)]
                    for ref in refs:
                        rational = rng.random() < 0.3
                        if rng.random() < 0.2:
                            b2 = gen.open_basis(rng, rng.choice([2, 3]), n_interior=rng.choice([0, 1]))
                            bases = [b, b2] if rng.random() < 0.5 else [b2, b]
                            d = bases.index(b)
                            shape = [gen.basis_info(x)['n'] for x in bases]
                            o = {'bases': bases, 'cps': gen.rand_cps(rng, shape, 3 + rational, rational), 'rational': rational}
                        else:
                            d = 0
                            o = {'bases': [b], 'cps': gen.rand_cps(rng, [n], 2 + rational, rational), 'rational': rational}
                        r = rng.random()
                        if r < 0.55:
                            ops = [{'op': 'insert', 'i': 0, 'dir': d, 'refs': [ref]}]
                            if rng.random() < 0.3:
                                ops.append({'op': 'insert', 'i': 0, 'dir': d, 'refs': [['m', rng.randrange(n_int + 2), 0.5]]})
                        elif r < 0.75:
                            refs = [ref] if rng.random() < 0.6 or ref[0] == 'k' else \
                                [ref, ['m', ref[1], 0.75]]
                            ops = [{'op': 'split', 'i': 0, 'dir': d, 'refs': refs}]
                            if rng.random() < 0.4:
                                ops.append({'op': 'insert', 'i': 1, 'dir': d, 'refs': [['m', 0, 0.5]]})
                        elif r < 0.9:
                            ops = [{'op': 'lowerper', 'i': 0, 't': rng.randint(-1, k), 'dir': d}]
                            if rng.random() < 0.5:
                                ops.append({'op': 'insert', 'i': 0, 'dir': d, 'refs': [ref]})
                        else:
                            ops = [{'op': 'reverse', 'i': 0, 'dir': d}, {'op': 'insert', 'i': 0, 'dir': d, 'refs': [ref]},
                                   {'op': 'refine', 'i': 0, 'ns': [1], 'dir': d}]
                        out.append({'kind': 'hist', 'pool': [o], 'ops': ops, 'stream': 'small-periodic'})
    return out


def generate(rng, tier):
    sp = _sp()
    specs = _focus_cases(rng) + _small_periodic_cases(rng, tier)
    nh = 150 if tier == 'quick' else 700
    for c in range(nh):
        if tier == 'quick':
            nops = rng.randint(1, 12)
        else:
            nops = rng.randint(1, 12) if rng.random() < 0.5 else rng.randint(13, 60)
        specs.append(_gen_history(rng, sp, nops, max_pool=7 if nops <= 12 else 10))
    specs += _ctor_cases(rng, 260 if tier == 'quick' else 1500)
    return specs


def model_line(s):
    if s['kind'] == 'ctor':
        if s.get('eval'):
            return line('c10_ctor_eval', s['order'], list(s['knots']), s['periodic'], TOL, list(s['eval']))
        return line('c10_ctor', s['order'], list(s['knots']), s['periodic'], TOL)
    return line('c10_history', [gen.enc_object(o) for o in s['pool']], TOL, [_enc_instr(i) for i in s['ops']])


# ---------------------------------------------------------------------------------------------
# implementation side

_run_cache = {}


def _key(s):
    return json.dumps(s, sort_keys=True)


def _cached_run(sp, s):
    k = _key(s)
    if k not in _run_cache:
        if len(_run_cache) > 4:
            _run_cache.clear()
        _run_cache[k] = _run(sp, s, with_extras=True)
    return _run_cache[k]


class InterpreterCrash(Exception):
    """The guarded child process that ran the call died from a signal (memory-safety defect of the tree under test)."""


_SORTS = {}


def _ctor_sorts(sp):
    """Does the constructor of the tree under test store an exactly non-decreasing vector for an input with a decrease
    inside the tolerance (repair of constructor-accepts-tolerance-inversion-evaluate-segfault)?  Decided by calling the
    constructor only (safe); cached per loaded package."""
    key = getattr(sp, '__file__', None)
    if key not in _SORTS:
        b = sp.BSplineBasis(3, [0, 5.551115123125783e-17, 0, 0.5, 1, 1, 1])
        _SORTS[key] = bool(np.all(np.diff(np.asarray(b.knots, dtype=float)) >= 0))
    return _SORTS[key]


_CHILD = r'''
import sys, json
sys.path.insert(0, sys.argv[1])
import numpy as np
import splipy
from splipy import state
q = json.loads(sys.argv[2])
b = splipy.BSplineBasis(q['order'], q['knots'], q['periodic'])
rows = [np.asarray(b.evaluate(t), dtype=float).reshape(-1).tolist() for t in q['eval']]
print(json.dumps({'knots': [float(x) for x in b.knots], 'rows': rows}))
'''


def _ctor_eval(sp, s):
    """BSplineBasis(order, knots, periodic) and evaluate() at s['eval'].  In-process when the constructor of the tree
    under test sorts its knots; otherwise (unrepaired tree: the compiled evaluator may read outside its arrays) in a
    child process, whose death by a signal is reported as InterpreterCrash instead of taking the harness down."""
    if _ctor_sorts(sp):
        b = sp.BSplineBasis(s['order'], list(s['knots']), s['periodic'])
        rows = [np.asarray(b.evaluate(t), dtype=float).reshape(-1).tolist() for t in s['eval']]
        return {'knots': [float(x) for x in b.knots], 'rows': rows, 'how': 'in-process'}
    import subprocess
    import sys
    root = os.path.dirname(os.path.dirname(os.path.abspath(sp.__file__)))
    q = json.dumps({'order': s['order'], 'knots': list(s['knots']), 'periodic': s['periodic'], 'eval': list(s['eval'])})
    r = subprocess.run([sys.executable, '-c', _CHILD, root, q], stdout=subprocess.PIPE, stderr=subprocess.PIPE, text=True, timeout=120)
    if r.returncode < 0 or r.returncode in (139, 134, 136, 138):
        raise InterpreterCrash('BSplineBasis(%r, %r, %r).evaluate(%r): the interpreter died (return code %d)' % (
            s['order'], list(s['knots']), s['periodic'], list(s['eval']), r.returncode))
    if r.returncode != 0:
        last = (r.stderr.strip().splitlines() or ['?'])[-1]
        kind = last.split(':')[0].strip()
        raise {'ValueError': ValueError, 'IndexError': IndexError, 'ZeroDivisionError': ZeroDivisionError}.get(kind, RuntimeError)(last)
    d = json.loads(r.stdout.strip().splitlines()[-1])
    d['how'] = 'subprocess'
    return d


def run_impl(sp, s):
    if s['kind'] == 'ctor':
        if s.get('eval'):
            return _ctor_eval(sp, s)
        b = sp.BSplineBasis(s['order'], list(s['knots']), s['periodic'])
        return {'knots': [float(x) for x in b.knots]}
    return _cached_run(sp, s)


def _valid_exact(p, knots, k):
    """Exact (Fraction) transcription of `Basis.Valid` for a vector the constructor accepted."""
    kn = [F(x) for x in knots]
    k = max(k, -1)
    if p < 1 or len(kn) < 2 * p:
        return False
    if any(kn[i] > kn[i + 1] for i in range(len(kn) - 1)):
        return False
    if not (k + 2 <= p or k == -1):
        return False
    a, e = kn[p - 1], kn[len(kn) - p]
    if not a < e:
        return False
    n = len(kn) - p - (k + 1)
    if k >= 0:
        for i in range(len(kn) - n):
            if kn[i + n] != kn[i] + (e - a):
                return False
    return True


def _num_close(a, b, rtol, scale=None):
    """a: python numbers (nested lists), b: model value (Fractions, nested lists)."""
    if isinstance(b, list):
        if not isinstance(a, (list, tuple)) or len(a) != len(b):
            return False
        sc = scale if scale is not None else max([1.0] + [abs(x) for x in _flatten(b)])
        return all(_num_close(x, y, rtol, sc) for x, y in zip(a, b))
    try:
        x, y = float(a), float(b)
    except (TypeError, ValueError):
        return False
    sc = scale if scale is not None else max(1.0, abs(y))
    return abs(x - y) <= rtol * sc


def _flatten(v):
    if isinstance(v, list):
        return [y for x in v for y in _flatten(x)]
    try:
        return [float(v)]
    except (TypeError, ValueError):
        return []


def to_float(v):
    return [to_float(x) for x in v] if isinstance(v, list) else float(v)


def _cmp_val(name, iv, mv, rtol, exact=False):
    """One accessor value: implementation (python value or Err) against the model's (value or `err:Class`)."""
    if isinstance(iv, Err) or is_err(mv):
        if isinstance(iv, Err) and is_err(mv) and iv.kind == err_kind(mv):
            return None
        return '%s: impl %r vs model %s' % (name, iv, str(mv)[:60])
    if exact:
        ok = to_float(mv) == to_float(iv) if not isinstance(iv, bool) else (str(mv) == ('true' if iv else 'false'))
    else:
        ok = _num_close(iv, mv, rtol)
    return None if ok else '%s: impl %s vs model %s' % (name, str(iv)[:80], str(to_float(mv) if not isinstance(mv, str) else mv)[:80])


def _cmp_acc(acc, macc, cp_rtol, path, knot_rtol=KNOT_RTOL):
    """The accessor block (`_acc_real`) against `encodeAcc` of the model."""
    if acc is None:
        return None
    if not (isinstance(macc, list) and len(macc) == 13):
        return '%s: model accessor block %r' % (path, str(macc)[:80])
    mlen, msh, mord, mkn, msp, mst, men, mflat, mmulti, mset1, mset2, mrecon, mev = macc
    if isinstance(acc['len'], Err):
        return '%s: len(obj) raised %r' % (path, acc['len'])
    checks = [('len', acc['len'], mlen, True), ('shape', acc['shape'], msh, True), ('order()', acc['order'], mord, True),
              ('knots(with_multiplicities)', acc['knots'], mkn, False), ('knots()', acc['spans'], msp, False),
              ('start()', acc['start'], mst, False), ('end()', acc['end'], men, False)]
    for name, iv, mv, exact in checks:
        d = _cmp_val(name, iv, mv, knot_rtol if not exact else 0.0, exact)
        if d:
            return '%s accessor %s' % (path, d)
    n = acc['len']
    if len(acc['flat']) != len(mflat) or len(acc['multi']) != len(mmulti):
        return '%s: probe count' % path
    for i, iv, mv in zip(_probes(n), acc['flat'], mflat):
        d = _cmp_val('obj[%d]' % i, iv, mv, cp_rtol)
        if d:
            return '%s accessor %s' % (path, d)
    for i, iv, mv in zip(_probes(n), acc['multi'], mmulti):
        if not isinstance(iv, Err) and not is_err(mv):
            if [int(x) for x in mv[0]] != list(iv[0]):
                return '%s accessor obj[multi-index of %d]: shape impl %r vs model %r' % (path, i, iv[0], mv[0])
            iv, mv = iv[1], mv[1]
        d = _cmp_val('obj[multi-index of %d]' % i, iv, mv, cp_rtol)
        if d:
            return '%s accessor %s' % (path, d)
    for name, iv, mv in (('obj[n//2] = cp', acc['set1'], mset1), ('obj[multi] = scalar', acc['set2'], mset2)):
        d = _cmp_val(name, iv, mv, cp_rtol)
        if d:
            return '%s accessor %s' % (path, d)
    d = _cmp_val('clone/re-construction equal', acc['recon'], mrecon, 0.0, True)
    if d:
        return '%s accessor %s' % (path, d)
    d = _cmp_val('evaluate(start, mid, end) shape', acc['eval'], mev, 0.0, True)
    if d:
        return '%s accessor %s' % (path, d)
    return None


def _cmp_obj(obs, mobj, cp_rtol, path, widen=None):
    mb, msh, mflat, mrat = mobj
    if len(mb) != len(obs['bases']):
        return '%s: %d bases vs model %d' % (path, len(obs['bases']), len(mb))
    for d, (ib, jb) in enumerate(zip(obs['bases'], mb)):
        if ib[0] != jb[0] or ib[2] != jb[2]:
            return '%s basis %d: order/periodic impl %r/%r vs model %s/%s' % (path, d, ib[0], ib[2], jb[0], jb[2])
        if len(ib[1]) != len(jb[1]):
            return '%s basis %d: %d knots vs model %d' % (path, d, len(ib[1]), len(jb[1]))
        mk = [float(x) for x in jb[1]]
        scale = max([1.0] + [abs(x) for x in mk])
        for q, (x, y) in enumerate(zip(ib[1], mk)):
            if not abs(x - y) <= KNOT_RTOL * scale + (widen[d] if widen else 0.0):
                return '%s basis %d knot %d: impl %.17g vs model %.17g%s' % (
                    path, d, q, x, y, ' (float-resolution bound of the lineage %.3g)' % widen[d] if widen and widen[d] else '')
    if list(obs['shape']) != [int(x) for x in msh]:
        return '%s: control array shape impl %r vs model %r' % (path, obs['shape'], [int(x) for x in msh])
    if bool(obs['rational']) != (str(mrat) == 'true'):
        return '%s: rational impl %r vs model %s' % (path, obs['rational'], mrat)
    mf = np.array([float(x) for x in mflat])
    iv = np.array(obs['cps'], dtype=float)
    scale = max(1.0, float(np.max(np.abs(mf))) if mf.size else 1.0)
    bad = ~(np.abs(iv - mf) <= cp_rtol * scale)
    if np.any(bad):
        q = int(np.argmax(bad))
        return '%s control value %d: impl %.17g vs model %.17g (tol %.2g, scale %.3g)' % (path, q, iv[q], mf[q], cp_rtol, scale)
    return None


# ---------------------------------------------------------------------------------------------
# Float resolution of the knots along the LINEAGE of an object.
#
# The model computes in exact rationals; the implementation stores every knot rounded to a double.  A rounding is
# invisible while the knots stay at the magnitude where it happened (it is <= ulp/2 there: the comparison sees the
# nearest double of the exact value) and becomes visible when a later call translates / rescales the knots to a
# smaller magnitude: knots computed at 1e6 (resolution 1.2e-10) and then shifted to [1, 4] by `append` differ from
# the exact values by 5e-11 although every call rounded correctly (replay C10-c8915291468f).  This is double
# arithmetic, not the library and not the model.  The comparison therefore checks every call INDUCTIVELY: the
# deviation of the knots after a call may exceed the ordinary `KNOT_RTOL * scale` only by what is explained by
#   the deviation MEASURED (exactly, impl double minus model rational) on the objects the call read, before the
#   call - rescaled with the domain for reparam / make_splines_identical, added up for the two objects of append /
#   make_splines_identical - plus one fresh rounding of 2 ulp of the largest knot magnitude the call touched.
# Nothing is widened unless that amount exceeds `KNOT_RTOL * scale`, i.e. only for objects whose lineage passed
# through a knot magnitude that cannot resolve `KNOT_RTOL` of the current one; all other comparisons are unchanged.
# Counts, orders, periodicity, shapes and wf verdicts are always compared exactly; closeness of every knot within
# the bound implies equal multiplicity structure up to that bound.

_U = 2.0 ** -52
RESCALING_OPS = ('reparam', 'reparamall', 'identical')


def _kn_mag(b):
    return max(abs(b[1][0]), abs(b[1][-1])) if b[1] else 0.0


def _kn_span(b):
    return (b[1][-1] - b[1][0]) if b[1] else 0.0


def _min_gap(b):
    g = [y - x for x, y in zip(b[1], b[1][1:]) if y > x]
    return min(g) if g else 1.0


def _measured(bases, mbases):
    """Exact deviation impl double - model rational, per direction (None where the structure differs)."""
    out = []
    for ib, jb in zip(bases, mbases):
        if len(ib[1]) != len(jb[1]):
            out.append(None)
            continue
        try:
            out.append(float(max([F(0)] + [abs(F(x) - F(y)) for x, y in zip(ib[1], jb[1])])))
        except (TypeError, ValueError, OverflowError):
            out.append(None)
    return out


def _hidden_err(s, iv, mv):
    """Per completed call: {pool index: [explained deviation per direction]} for the objects the call changed /
    created (see above).  `mv`: the model's answer; calls without a comparable model state explain nothing."""
    out = []
    if not (isinstance(mv, list) and len(mv) == 2 and isinstance(mv[1], list)):
        return [{} for _ in iv['steps']]
    prev, E = {}, {}
    for j, o in enumerate(s['pool']):
        prev[j] = [[b['order'], [float(x) for x in b['knots']], b['periodic']] for b in o['bases']]
        E[j] = [0.0] * len(prev[j])        # start knots are doubles, the model receives them exactly
    for ins, st, ms in zip(s['ops'], iv['steps'], mv[1]):
        if 'err' in st or is_err(ms) or not isinstance(ms, list) or len(ms) != len(st['changed']):
            out.append({})
            continue
        op = ins['op']
        parents = [q for q in (ins.get('i'), ins.get('j') if op in ('append', 'identical') else None)
                   if q is not None and q in prev]
        mag_par = max([0.0] + [_kn_mag(b) for q in parents for b in prev[q]])
        allowed, meas = {}, {}
        for c, mc in zip(st['changed'], ms):
            j, nb = c[0], c[1]['bases']
            own = j if j in prev else (parents[0] if parents else None)
            srcs = [own] if own is not None else []
            if op in ('append', 'identical'):
                srcs = list(dict.fromkeys(srcs + parents))
            e = [0.0] * len(nb)
            for q in srcs:
                ob, oe = prev[q], E[q]
                if len(ob) == len(nb) and op not in ('swap', 'section', 'extrude'):
                    for d in range(len(nb)):
                        f = 1.0
                        if op in RESCALING_OPS and _kn_span(ob[d]) > 0:
                            f = _kn_span(nb[d]) / _kn_span(ob[d])
                            if q != own:
                                f = max(1.0, f)
                        e[d] += oe[d] * f
                else:
                    m = max(oe) if oe else 0.0
                    e = [x + m for x in e]
            mag = max([mag_par] + [_kn_mag(b) for b in nb])
            allowed[j] = [x + 2 * _U * mag for x in e]
            try:
                mb = mc[1][0]
                meas[j] = _measured(nb, mb) if len(mb) == len(nb) else [None] * len(nb)
            except (TypeError, IndexError):
                meas[j] = [None] * len(nb)
        for c in st['changed']:
            j = c[0]
            prev[j] = c[1]['bases']
            # carry the MEASURED deviation forward (never more than what was explained: an unexplained deviation
            # is reported by the comparison at this call and must not explain later ones)
            E[j] = [min(a, m) if m is not None else a for a, m in zip(allowed[j], meas[j])]
        out.append(allowed)
    return out


def _widening(bases, e):
    """Per direction: the part of the explained deviation that the ordinary knot tolerance does not cover (else 0)."""
    w = []
    for b, x in zip(bases, e):
        w.append(x if x > KNOT_RTOL * max(1.0, _kn_mag(b)) else 0.0)
    return w


LOOSE_OPS = ('raise', 'lower', 'append')


def compare(s, iv, mv):
    if s['kind'] == 'ctor':
        if isinstance(iv, Err) or is_err(mv):
            if isinstance(iv, Err) and is_err(mv):
                return None if iv.kind == err_kind(mv) else 'impl raised %s, model %s' % (iv.kind, err_kind(mv))
            return 'impl %r vs model %r' % (iv, mv)
        if not (isinstance(mv, list) and len(mv) in (3, 4) and str(mv[0]) == 'ok'):
            return 'model answered %r' % (mv,)
        # the stored knots: the running maximum of the input, exactly (max is exact in floating point)
        stored = [to_float(x) for x in mv[2]]
        if not isinstance(iv, dict) or [float(x) for x in iv['knots']] != stored:
            return 'stored knots: impl %r vs model %r' % (iv.get('knots') if isinstance(iv, dict) else iv, stored)
        ve = _valid_exact(s['order'], stored, s['periodic'])
        if (str(mv[1]) == 'true') != ve:
            return 'validB %s vs exact transcription of Valid %r (stored knots)' % (mv[1], ve)
        if s.get('eval'):
            if len(mv) != 4 or len(mv[3]) != len(iv['rows']):
                return 'model rows %r' % (str(mv)[:80],)
            for t, ri, rm in zip(s['eval'], iv['rows'], mv[3]):
                rm = [to_float(x) for x in rm]
                if len(ri) != len(rm) or any(abs(a - b) > 1e-9 * max(1.0, abs(b)) for a, b in zip(ri, rm)):
                    return 'evaluate(%r): impl %r vs model %r' % (t, ri, rm)
        return None
    if isinstance(iv, Err):
        return 'harness could not build the start objects: %r' % iv
    if is_err(mv) or not (isinstance(mv, list) and len(mv) == 2):
        return 'model answered %r' % (str(mv)[:200],)
    minit, msteps = mv
    for j, (w, m) in enumerate(zip(iv['init'], minit)):
        if (not w[0]) != (str(m[0]) == 'true'):
            return 'start object %d: wf_real %r vs wfB %s' % (j, w[0], m[0])
        d = _cmp_acc(w[2], m[1], 1e-9, 'start object %d' % j)
        if d:
            return d
    if len(iv['steps']) != len(msteps):
        return 'history ends after %d calls on the implementation, %d in the model (last: impl %s, model %s)' % (
            len(iv['steps']), len(msteps), _short_step(iv['steps'][-1]) if iv['steps'] else '-',
            str(msteps[-1])[:60] if msteps else '-')
    loose = 0
    hidden = _hidden_err(s, iv, mv)
    cpx = {}       # pool index -> extra relative tolerance of the control values (persists along the lineage)
    for n, (st, ms, ins) in enumerate(zip(iv['steps'], msteps, s['ops'])):
        if ins['op'] in LOOSE_OPS:
            loose += 1
        if 'err' in st or is_err(ms):
            if 'err' in st and is_err(ms):
                if st['err'] != err_kind(ms):
                    return 'call %d (%s): impl raised %s, model %s' % (n, ins['op'], st['err'], err_kind(ms))
                continue
            return 'call %d (%s): impl %s vs model %s' % (n, ins['op'], _short_step(st), str(ms)[:60])
        if st['alias']:
            return 'call %d (%s): pool objects %r changed although the call did not involve them' % (n, ins['op'], st['alias'])
        if len(st['changed']) != len(ms):
            return 'call %d (%s): %d objects touched/created vs model %d' % (n, ins['op'], len(st['changed']), len(ms))
        cp_rtol = (1e-9 * (1 + n)) * (1e3 ** min(loose, 2))
        for (j, obs, wf, _ex, acc), (mj, mobj, mwf, macc) in zip(st['changed'], ms):
            if j != int(mj):
                return 'call %d (%s): pool index %d vs model %s' % (n, ins['op'], j, mj)
            widen = _widening(obs['bases'], hidden[n].get(j, [0.0] * len(obs['bases'])))
            kn_tol = KNOT_RTOL
            par = [q for q in (j, ins.get('i'), ins.get('j') if ins['op'] in ('append', 'identical') else None) if q in cpx]
            extra = max([0.0] + [cpx[q] for q in par])
            if any(widen):
                # knots off by up to `widen` move the blending coefficients by widen / (knot gap)
                extra += 10 * max(w / _min_gap(b) for w, b in zip(widen, obs['bases']))
                kn_tol = KNOT_RTOL + max(widen)
            if extra:
                cpx[j] = extra
            cp_tol = cp_rtol + extra
            d = _cmp_obj(obs, mobj, cp_tol, 'call %d (%s) object %d' % (n, ins['op'], j), widen)
            if d:
                return d
            if (not wf) != (str(mwf) == 'true'):
                return 'call %d (%s) object %d: wf_real says %r, model wfB says %s' % (n, ins['op'], j, wf or 'well formed', mwf)
            d = _cmp_acc(acc, macc, cp_tol, 'call %d (%s) object %d' % (n, ins['op'], j), kn_tol)
            if d:
                return d
    return None


def _short_step(st):
    return 'raised %s' % st['err'] if 'err' in st else 'ok'


# ---------------------------------------------------------------------------------------------
# oracle

def _ctor_oracle(sp, s):
    p, kn, k = s['order'], s['knots'], max(s['periodic'], -1)
    pre = []
    try:
        b0 = sp.BSplineBasis(p, list(kn), s['periodic'])
        accepted = True
        # every constructed basis has a non-decreasing knot vector (decreases inside the tolerance are accepted: they
        # must not survive in the stored vector -- the compiled evaluator bisects it)
        st = [float(x) for x in b0.knots]
        bad = [i for i in range(len(st) - 1) if st[i + 1] < st[i]]
        if bad:
            pre.append('constructor accepted order %d, knots %r, periodic %d and stores a knot vector that is not non-decreasing '
                       '(knots[%d] = %r > knots[%d] = %r)' % (p, kn, k, bad[0], st[bad[0]], bad[0] + 1, st[bad[0] + 1]))
        cm = [float(x) for x in np.maximum.accumulate(np.array([float(x) for x in kn]))] if len(kn) else []
        if not bad and st != cm:
            q = next((i for i in range(min(len(st), len(cm))) if st[i] != cm[i]), min(len(st), len(cm)))
            pre.append('constructor accepted order %d, knots %r, periodic %d but stores a DIFFERENT vector: knots[%d] = %r, '
                       'running maximum of the input (the input itself where it is sorted) has %r%s' % (
                           p, kn, k, q, st[q] if q < len(st) else None, cm[q] if q < len(cm) else None,
                           ' - distinct knots %.3g apart were merged' % (cm[q] - cm[q - 1]) if 0 < q < len(cm) and st[q] == st[q - 1] else ''))
        if s.get('eval'):
            try:
                ev = _ctor_eval(sp, s)
            except InterpreterCrash as e:
                return pre + [str(e)]
            except Exception as e:  # noqa: BLE001
                return pre + ['evaluate on the accepted basis raised %s' % exc_kind(e)]
            a, e_ = st[p - 1], st[len(st) - p]
            for t, row in zip(s['eval'], ev['rows']):
                if a < e_ and a <= t <= e_ and (abs(sum(row) - 1.0) > 1e-9 or min(row) < -1e-12):
                    pre.append('evaluate(%r) on the accepted basis (knots %r): row %r is not a partition of unity' % (t, st, row))
                    break
    except ValueError:
        accepted = False
    except Exception as e:  # noqa: BLE001
        return ['constructor raised %s instead of ValueError / accepting' % exc_kind(e)]
    if pre:
        return pre
    knf = [F(x) for x in kn]
    tol = F(TOL)
    # malformed by the definitions of the property, with the tolerance on either side of every comparison
    sure_bad = p < 1 or len(knf) < 2 * p or any(knf[i + 1] - knf[i] < -2 * tol for i in range(len(knf) - 1))
    sure_good = p >= 1 and len(knf) >= 2 * p and all(knf[i + 1] - knf[i] >= -tol / 2 for i in range(len(knf) - 1))
    if not sure_bad and p >= 1 and len(knf) >= 2 * p and k >= 0:
        n = len(knf) - p - (k + 1)
        a, e = knf[p - 1], knf[len(knf) - p]
        devs = [abs(knf[i + n] - knf[i] - (e - a)) for i in range(len(knf) - n)] if 0 < n else [F(1)]
        if not (k + 2 <= p):
            devs.append(F(1))
        if max(devs) > 4 * tol:
            sure_bad = True
        if max(devs) > tol / 2:
            sure_good = False
    out = []
    if sure_bad and accepted:
        out.append('constructor accepted a malformed vector (class %s): order %d, knots %r, periodic %d' % (s['cls'], p, kn, k))
    if sure_good and not accepted:
        out.append('constructor rejected a valid vector (class %s): order %d, knots %r, periodic %d' % (s['cls'], p, kn, k))
    return out


def _failures_of(res, ops):
    """[(step index or -1, message)] of a `_run(with_extras=True)` result."""
    out = []
    for j, (wf, ex, _acc) in enumerate(res['init']):
        for m in wf + ex:
            out.append((-1, 'start object %d: %s' % (j, m)))
    for n, st in enumerate(res['steps']):
        if 'err' in st:
            continue
        for j in st['alias']:
            out.append((n, 'pool object %d changed although call %d (%s) did not involve it' % (j, n, ops[n]['op'])))
        for j, _obs, wf, ex, _acc in st['changed']:
            for m in wf + ex:
                out.append((n, 'object %d after call %d (%s): %s' % (j, n, ops[n]['op'], m)))
    return out


def _shrink(sp, s, first_msg_key):
    """Drop calls while the history still produces a failure of the same kind."""
    ops = list(s['ops'])
    changed = True
    budget = 60
    while changed and budget > 0:
        changed = False
        for q in range(len(ops) - 1, -1, -1):
            budget -= 1
            if budget <= 0:
                break
            cand = ops[:q] + ops[q + 1:]
            try:
                r = _run(sp, {'kind': 'hist', 'pool': s['pool'], 'ops': cand}, with_extras=True, stop_at_failure=True)
            except Exception:  # noqa: BLE001
                continue
            fs = _failures_of(r, cand)
            if fs and _msg_key(fs[0][1]) == first_msg_key:
                ops = cand[:fs[0][0] + 1] if fs[0][0] >= 0 else []
                changed = True
                break
    return ops


def _msg_key(m):
    m = m.split(': ', 1)[1] if ': ' in m else m
    return m.split(' ')[0] + ' ' + (m.split(' ')[1] if ' ' in m else '')


def oracle(sp, s):
    if s['kind'] == 'ctor':
        return _ctor_oracle(sp, s)
    res = _cached_run(sp, s)
    fs = _failures_of(res, s['ops'])
    if not fs:
        return []
    out = ['step %d: %s' % (n, m) for n, m in fs[:6]]
    try:
        small = _shrink(sp, s, _msg_key(fs[0][1]))
        out.append('shrunk history (%d of %d calls): %s' % (len(small), len(s['ops']), json.dumps(small)[:1500]))
    except Exception as e:  # noqa: BLE001
        out.append('shrinking failed: %s' % e)
    return out


# ---------------------------------------------------------------------------------------------
# bookkeeping

def classify(s, res=None):
    if s['kind'] == 'ctor':
        p, k, m = s['order'], max(s['periodic'], -1), len(s['knots'])
        if p >= 1 and k >= 0 and 2 * p <= m < p + k + 1:
            return None      # too short for the periodic comparison: a plain reject (ValueError), no known class
        orc = ' '.join((res or {}).get('oracle') or [])
        if 'is not non-decreasing' in orc or 'the interpreter died' in orc:
            # only effective while known_findings.json lists it (a tree without the running-maximum repair)
            return CLASS_CTOR_INVERSION
        return CLASS_CTOR_GAP if s['cls'] == 'gap' or (s['expect'] == 'by-definition' and s['periodic'] >= 0) else None
    try:
        r = _cached_run(_sp(), s)
    except Exception:  # noqa: BLE001
        return None
    fs = _failures_of(r, s['ops'])
    upto = fs[0][0] if fs else len(s['ops']) - 1
    first = fs[0][1] if fs else ''
    # (`periodic-small-basis-structure` is fixed with periodic insert_knot: a structural failure on a small
    #  periodic basis is an unexplained violation again)
    if fs and upto >= 0 and ('not finite' in first or 'weight nan' in first) and s['ops'][upto]['op'] in ('raise', 'append', 'identical'):
        st = r['steps'][upto]
        if 'changed' in st and any(len(c[1]['bases']) == 1 for c in st['changed']):
            # Curve.raise_order (also inside append / make_splines_identical) solved a singular collocation system:
            # a knot of multiplicity >= order, or end knots that differ by rounding (after roll / append / reparam)
            return CLASS_RAISE_NAN
    # labels that explain an ORACLE failure, in the order of the calls up to the first failing one
    for n, fl in enumerate(r['flags']):
        if n > upto:
            break
        for f in fl:
            if f == CLASS_LOWER_WEIGHTS:
                if fs and n == upto and 'non-positive weight' in first:
                    return f
            elif f in (CLASS_REVERSE_PER, CLASS_EXTRUDE_MUT, CLASS_PER_SMALL, CLASS_CURVE_1D):
                # coverage flags only: the first two and the last are fixed in /repo; the known defect of small
                # periodic bases is GEOMETRIC (C04/C07/C08) - a structural failure there must not be masked
                continue
            elif f == CLASS_MAKEPER_SHORT:
                if fs and n == upto:
                    return f
            elif f == CLASS_RAISE_NAN:
                if not fs or 'finite' in first or 'weight' in first:
                    return f
            else:
                return f
    return None


def tags(s, res):
    if s['kind'] == 'ctor':
        t = ['ctor=' + s['cls']]
        iv = res['impl']
        t.append('ctor-rejected' if isinstance(iv, Err) else 'ctor-accepted')
        if isinstance(iv, dict) and iv.get('how'):
            t.append('ctor-eval=' + iv['how'])
        if s.get('where'):
            t.append('tol-inversion:' + s['where'])
        if s.get('how') and s['cls'] == 'narrow-span':
            t.append('narrow-span:' + s['how'])
        return t
    t = set()
    iv = res['impl']
    for o in s['pool']:
        t.add('pardim=%d' % len(o['bases']))
        if o['rational']:
            t.add('rational')
        if any(b['periodic'] >= 0 for b in o['bases']):
            t.add('periodic-dir')
        if any(b['order'] == 1 for b in o['bases']):
            t.add('order-1-dir')
    n = len(s['ops'])
    t.add('len>=8' if n >= 8 else 'len<8')
    if s.get('stream'):
        t.add('stream=' + s['stream'])
        b = next(x for o in s['pool'] for x in o['bases'] if x['periodic'] >= 0)
        info = gen.basis_info(b)
        t.add('small-periodic:n%sp+k' % ('<' if info['n'] < info['p'] + info['k'] else '>='))
        t.add('small-periodic:n+1%sp+k' % ('<=' if info['n'] + 1 <= info['p'] + info['k'] else '>'))
        if info['n'] < info['p'] + info['k'] and isinstance(iv, dict) and iv['steps'] and 'err' not in iv['steps'][0]:
            t.add('small-periodic-op=' + s['ops'][0]['op'])
    if n >= 30:
        t.add('len>=30')
    if isinstance(iv, dict):
        done = 0
        pool = len(s['pool'])
        for n_, (ins, st) in enumerate(zip(s['ops'], iv['steps'])):
            if 'err' not in st and n_ < len(iv.get('pre', [])):
                t.update(iv['pre'][n_])
            if 'err' in st:
                t.add('err:' + st['err'])
                t.add('raises=' + ins['op'])
                continue
            done += 1
            t.add('op=' + ins['op'])
            if ins['op'] == 'affine':
                t.add('affine=' + ins['aop']['op'])
            pool = max([pool] + [c[0] + 1 for c in st['changed']])
            for c in st['changed']:
                t.add('wf=true' if not c[2] else 'wf=false')
                if len(c) > 4 and isinstance(c[4], dict) and 'flat' in c[4]:
                    t.add('acc=compared')
                    if any(isinstance(x, Err) and x.kind == 'IndexError' for x in c[4]['flat']):
                        t.add('acc=getitem-IndexError')
                    if c[4]['len'] >= 2:
                        t.add('acc=flat-index-F-order' if len(c[1]['bases']) >= 2 else 'acc=flat-index-curve')
                    if not isinstance(c[4]['eval'], Err):
                        t.add('acc=evaluated-on-domain')
                    if c[4]['recon'] is True:
                        t.add('acc=reconstructed')
                if any(b[2] >= 0 for b in c[1]['bases']):
                    t.add('state-periodic')
                if c[1]['rational']:
                    t.add('state-rational')
        if pool >= 3:
            t.add('pool>=3')
        if pool >= 6:
            t.add('pool>=6')
        for fl in iv['flags']:
            for f in fl:
                t.add('flag=' + f)
        for st, h in zip(iv['steps'], _hidden_err(s, iv, res.get('model'))):
            if 'err' not in st and any(any(_widening(c[1]['bases'], h.get(c[0], [0.0] * len(c[1]['bases'])))) for c in st['changed']):
                t.add('cmp=knot-tolerance-widened-to-float-resolution')
                break
        if done == 0:
            t.add('nothing-completed')
    return sorted(t)


def nontrivial(s, res):
    if s['kind'] == 'ctor':
        return True
    iv = res['impl']
    return isinstance(iv, dict) and any('err' not in st for st in iv['steps'])
