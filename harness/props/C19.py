"""C19 — file output is a faithful image of the objects and reads back to the same shape.

Case kinds (spec['kind']):
  g2w   real `G2.write` of a list of objects; the file is tokenised and compared token by token
        with the Lean model `g2Write` (numbers after '%.16g' rounding).  Periodic objects are
        opened with the real `split` first (what the writer does; its geometry is C07's business).
  g2r   a G2 file with spline records produced by the independent writer below (any spelling of
        the numbers, junk in the unused fields, blank lines), read by the real `G2.read` and by the
        model `g2ReadAll`; also a few malformed files (error class).
  spl   the same for the SPL layout (`SPL.read` vs `splRead`).
  stl   real STL writer (ASCII/binary, several resolutions) parsed by the reader below, compared
        with the model's sampling parameters / facet order / counter.
  svg   real SVG write -> read, compared with the model's layout, written coordinates and
        read-back control points.
  prim  G2 analytic primitive records with random placement (finite and unbounded variants), read by the real
        `G2.read` and by the model `g2ReadPrim` (record layout -> factory call of the C13 models -> reparam/reverse/
        swap); knots and control nets compared to 1e-9 (trigonometric data enter the model as floats).

  g2mix whole G2 files mixing spline records and primitive records, read by `G2.read` and by the model
        `g2ReadMixed` (one loop over both kinds of record).
Corpus (corpus/C19/divergences.json, built by `python -m props.C19` from `corpus_specs`): `G2.write([])`
(IndexError), flag lines spelled `00`/`+0`/`-0`/`007`/` 0 ` in primitive records (string comparison with '0'),
a non-planar curve handed to `SVG.write` (RuntimeError).

Oracle (model independent): see `oracle`.

No finding class is listed for this property any more.
Repaired earlier (plain violations if they return): 2-D surfaces in STL (`ndarray.resize`), reversed circle/ellipse
records (`reverse()` of a periodic curve), the seam split of periodic objects with few functions (periodic insert_knot).  Bases are clamped (open) or periodic throughout, the families the library's
constructors, factories and readers produce.  Circle records with bounds of a partial arc are only checked against the
implicit equation (CHECK_ARC_BOUNDS = False: the semantics of the bounds is not established by the repository).
"""
import itertools
import math
import os
import re
import shutil
import struct
import tempfile
from fractions import Fraction as F
import xml.etree.ElementTree as etree

import numpy as np

from vlib import gen, exact
from vlib.val import line, Word, is_err, err_kind
from vlib.compare import Err, diff, to_plain

ID = 'C19'
RTOL = 1e-12
ATOL = 1e-300
RULE = ('g2w: lists of 1-4 objects, pardim 1-3, dim 2-3, rational/non-rational, periodic/non-periodic (clamped or periodic bases), dyadic, full-mantissa, mixed-magnitude (entries of one net spanning 26 decades) '
        'and extreme-magnitude (1e-12..1e12) streams; g2r/spl: files from an independent writer with 5 number spellings, junk in '
        'unused fields, blank lines, plus malformed files; stl: surfaces and volumes, n=None/int/pair, ASCII and binary; svg: '
        'drawings of 1-3 planar non-rational curves of order 2-4 incl. periodic; prim: line/circle/ellipse/cylinder/disc/plane/'
        'torus/sphere/extrusion records with random rigid placement.  distinct = distinct protocol lines; non-trivial = all but '
        'malformed files.')
REQUIRED_TAGS = ['g2w', 'g2r', 'spl', 'stl-binary', 'stl-ascii', 'svg', 'prim', 'periodic', 'rational', 'extreme',
                 'full-mantissa', 'pardim=3', 'malformed', 'stl-volume', 'stl-n=None', 'mixed-magnitude', 'stl-dim2', 'prim-reversed-periodic', 'prim-unbounded', 'mixed-file', 'g2w-empty-list',
                 'svg-not-planar', 'prim-flag-spelling=00', 'g2w-volume-noncubic', 'g2r-volume-noncubic',
                 'spl-volume-noncubic', 'g2w-rational-volume-nonunit-weights', 'g2r-rational-volume-nonunit-weights']
ASSUMPTIONS = ["'%.16g'/float(), '.4f', float32 packing and '%f' are trusted (the model carries exact numbers, the harness rounds)",
               'the seam split of periodic objects, bezier_representation and grid evaluation are performed by the real code on '
               'the harness side before the model is consulted (properties C07, C04/C05, C02)']
TOL = gen.TOL
# GoTools semantics of the circle record: the two parameter bounds delimit an ARC of the circle
# (point(t) = c + r(cos t * x + sin t * y), t in [t0, t1]).  The pinned reader builds the full circle and
# relabels its domain.  Set to False to restrict the oracle to the implicit equation for such records.
CHECK_ARC_BOUNDS = False


def _sp():
    from vlib import impl
    return impl.load()[0]


def _io(sp, sub=None):
    import importlib
    return importlib.import_module(sp.__name__ + '.io' + ('.' + sub if sub else ''))


def r16(x):
    return float('%.16g' % x)


# =============================================================================================
# text <-> tokens

_INT = re.compile(r'[+-]?\d+$')
_SAFE = re.compile(r'[^A-Za-z0-9_:.+/-]')


def _tok(w):
    if _INT.match(w):
        # canonical decimal spelling -> [i,n]; '00', '+1', '-0', '007' -> [j,n] (same number, different string:
        # the primitive readers compare flag lines with the string '0')
        return [Word('i' if str(int(w)) == w else 'j'), int(w)]
    try:
        f = float(w)
        if math.isfinite(f) and '_' not in w:
            return F(f)
    except ValueError:
        pass
    return [Word('w'), Word(_SAFE.sub('_', w) or '_')]


def _lines(text):
    ls = text.split('\n')
    if ls and ls[-1] == '':
        ls.pop()
    return ls


def tokenise(text, spl=False):
    toks = []
    for ln in _lines(text):
        if spl:
            ln = ln.split('#', 1)[0]
        toks.extend(_tok(w) for w in ln.split())
        toks.append(Word('nl'))
    return toks


def raw_tokens(text):
    out = []
    for ln in _lines(text):
        out.extend(ln.split())
        out.append('\n')
    return out


# =============================================================================================
# independent writers (spline records)

def _fmt(x, style):
    x = float(x)
    if style == 'repr':
        return repr(x)
    if style == 'g17':
        return '%.17g' % x
    if style == 'e':
        return '%.16e' % x
    if style == 'intish':
        return '%d' % x if x == int(x) and abs(x) < 1e15 else repr(x)
    if style == 'plus':
        return ('+' if x >= 0 else '') + repr(x)
    raise ValueError(style)


STYLES = ['repr', 'g17', 'e', 'intish', 'plus']


def _f_order(shape):
    """Multi-indices with the FIRST index running fastest."""
    for rev in itertools.product(*[range(n) for n in reversed(shape)]):
        yield rev[::-1]


def foreign_g2_record(rng, o, style):
    cps = np.array(o['cps'], dtype=float)
    shape = cps.shape[:-1]
    pardim = len(shape)
    out = []
    if rng.random() < 0.3:
        out.append('')
    out.append('%s%d 1 0 0' % (' ' * rng.randint(0, 2), {1: 100, 2: 200, 3: 700}[pardim]))
    if rng.random() < 0.2:
        out.append('   ')
    dimfield = rng.choice([str(cps.shape[-1] - int(o['rational'])), '7', '0'])
    ratfield = ('1' if rng.random() < 0.7 else '3') if o['rational'] else '0'
    out.append('%s  %s' % (dimfield, ratfield))
    for b in o['bases']:
        ncps = len(b['knots']) - b['order']
        out.append('%d %d' % (rng.choice([ncps, ncps, 0, 99]), b['order']))
        out.append((' ' if rng.random() < 0.5 else '  ').join(_fmt(k, style) for k in b['knots']))
    for idx in _f_order(shape):
        out.append(' '.join(_fmt(x, style) for x in cps[idx]) + (' ' if rng.random() < 0.1 else ''))
    return out


def foreign_spl(rng, o, style):
    cps = np.array(o['cps'], dtype=float)
    shape = cps.shape[:-1]
    physdim = cps.shape[-1]
    out = ['C %d %d 0%s' % (len(shape), physdim, '  # header' if rng.random() < 0.5 else '')]
    out += ['%d' % b['order'] for b in o['bases']]
    out += ['%d%s' % (n, ' # count' if rng.random() < 0.2 else '') for n in shape]
    out.append('1e-08')
    for b in o['bases']:
        out += [_fmt(k, style) for k in b['knots']]
    for c in range(physdim):
        for idx in _f_order(shape):
            out.append(('  ' if rng.random() < 0.1 else '') + _fmt(cps[idx + (c,)], style))
    return out


# =============================================================================================
# generators

def _nonperiodic(o):
    return all(b['periodic'] < 0 for b in o['bases'])


def _scaled(o, cscale, kscale=1.0, kshift=0.0):
    o2 = {'bases': [{'order': b['order'], 'knots': [kscale * k + kshift for k in b['knots']], 'periodic': b['periodic']}
                    for b in o['bases']],
          'cps': (np.array(o['cps'], dtype=float) * cscale).tolist(), 'rational': o['rational']}
    return o2


def _full_mantissa(rng, o):
    cps = np.array(o['cps'], dtype=float)
    flat = cps.reshape(-1, cps.shape[-1])
    for row in flat:
        for c in range(len(row)):
            row[c] = rng.uniform(-5, 5)
        if o['rational']:
            row[-1] = rng.uniform(0.5, 2.0)
    o2 = {'bases': o['bases'], 'cps': cps.tolist(), 'rational': o['rational']}
    if _nonperiodic(o):
        a, b = rng.uniform(0.3, 3.0), rng.uniform(-2, 2)
        o2 = _scaled(o2, 1.0, a, b)
    return o2


def _continuous(b):
    """No interior knot of multiplicity >= order (the curve is at least C0)."""
    info = gen.basis_info(b)
    inner = [x for x in b['knots'] if info['start'] < x < info['end']]
    return all(inner.count(x) < b['order'] for x in inner)


def _small_periodic(b):
    """Periodic basis with fewer than p+k functions (the family on which the library's seam split is defective)."""
    return b['periodic'] >= 0 and gen.basis_info(b)['n'] < b['order'] + b['periodic']


def _fatten(rng, o, keep=0.12):
    """Most small periodic directions are replaced by periodic bases of the same order/continuity with enough
    functions (new random control net), so that the cases exercise the file round trip rather than C04/C07."""
    if not any(_small_periodic(b) for b in o['bases']) or rng.random() < keep:
        return o
    bases = []
    for b in o['bases']:
        if _small_periodic(b):
            p, k = b['order'], b['periodic']
            b = gen.periodic_basis(rng, p, k, n_interior=rng.randint(p + k, p + k + 2), max_mult=1)
        bases.append(b)
    cps = np.array(o['cps'], dtype=float)
    shape = [gen.basis_info(b)['n'] for b in bases]
    return {'bases': bases, 'cps': gen.rand_cps(rng, shape, cps.shape[-1], o['rational']), 'rational': o['rational']}


def _mixed(rng, o):
    """Entries of ONE control net spanning ~26 decades (each entry its own power of ten, full mantissa):
    only a per-entry significant-digit comparison sees a writer that treats small entries as noise."""
    cps = np.array(o['cps'], dtype=float)
    flat = cps.reshape(-1)
    for i in range(len(flat)):
        m = rng.uniform(1.0, 9.999) * rng.choice([-1, 1])
        flat[i] = m * 10.0 ** rng.randint(-20, 6)
    if o['rational']:
        w = cps.reshape(-1, cps.shape[-1])
        for row in w:
            row[-1] = rng.uniform(1.0, 9.999) * 10.0 ** rng.choice([-14, -12, -6, 0, 0, 3])
    return {'bases': o['bases'], 'cps': cps.tolist(), 'rational': o['rational']}


def _noncubic_volume(rng, rational):
    """A volume whose three directions have pairwise different numbers of functions (2, 4, 3 in a random
    assignment) and, when rational, no unit weight: a consistent change of the point ORDER or of the weight
    convention in writer and reader cannot cancel against the independent writer / the token diff."""
    spec = [(2, 0), (3, 1), (2, 1)]
    rng.shuffle(spec)
    bases = [gen.open_basis(rng, p, n_interior=ni, max_mult=1) for p, ni in spec]
    shape = [gen.basis_info(b)['n'] for b in bases]
    assert len(set(shape)) == 3
    cps = np.array(gen.rand_cps(rng, shape, 4 if rational else 3, rational), dtype=float)
    if rational:
        w = cps[..., -1]
        w[w == 1.0] = rng.choice([0.5, 1.5, 2.5])
    return {'bases': bases, 'cps': cps.tolist(), 'rational': bool(rational)}


def _rand_obj(rng, stream, **kw):
    kw.setdefault('max_interior', 2)
    o = _fatten(rng, gen.rand_object(rng, **kw))
    if stream == 'extreme':
        e = rng.choice([-12, -9, -6, 6, 9, 12])
        ks = 1.0
        if _nonperiodic(o):
            ks = 10.0 ** rng.choice([-6, -3, 0, 3, 6])
        o = _scaled(o, 10.0 ** e, ks)
    elif stream == 'full':
        o = _full_mantissa(rng, o)
    elif stream == 'mixed':
        o = _mixed(rng, o)
    return o


def _mutate(rng, text):
    """A malformed variant of a G2 file (error paths of the reader)."""
    ls = _lines(text)
    how = rng.choice(['truncate', 'version', 'badtoken', 'type', 'ragged', 'decreasing', 'order0', 'short-header'])
    if how == 'truncate':
        ls = ls[:max(3, len(ls) - rng.randint(1, 2))]
    elif how == 'version':
        i = [k for k, l in enumerate(ls) if l.strip().endswith('1 0 0')][0]
        ls[i] = ls[i].replace('1 0 0', '2 0 0')
    elif how == 'badtoken':
        ls[-1] = ls[-1].split()[0] + ' abc ' + ' '.join(ls[-1].split()[1:])
    elif how == 'type':
        i = [k for k, l in enumerate(ls) if l.strip().endswith('1 0 0')][0]
        ls[i] = '555 1 0 0'
    elif how == 'ragged':
        ls[-1] = ls[-1] + ' 1.5'
    elif how == 'decreasing':
        i = [k for k, l in enumerate(ls) if l.strip().endswith('1 0 0')][0]
        kl = ls[i + 3].split()
        kl[0], kl[-1] = kl[-1], kl[0]
        ls[i + 3] = ' '.join(kl)
    elif how == 'order0':
        i = [k for k, l in enumerate(ls) if l.strip().endswith('1 0 0')][0]
        ls[i + 2] = ls[i + 2].split()[0] + ' 0'
    elif how == 'short-header':
        i = [k for k, l in enumerate(ls) if l.strip().endswith('1 0 0')][0]
        ls[i] = ls[i].strip()[:-2]
    return '\n'.join(ls) + '\n', how


# ---- primitives -----------------------------------------------------------------------------

def _rotation(rng):
    q = np.array([rng.gauss(0, 1) for _ in range(4)])
    q /= np.linalg.norm(q)
    a, b, c, d = q
    return np.array([[a * a + b * b - c * c - d * d, 2 * (b * c - a * d), 2 * (b * d + a * c)],
                     [2 * (b * c + a * d), a * a - b * b + c * c - d * d, 2 * (c * d - a * b)],
                     [2 * (b * d - a * c), 2 * (c * d + a * b), a * a - b * b - c * c + d * d]])


def _vec(v):
    return ' '.join(repr(float(x)) for x in v)


def _prim(rng, kind, swap=None, finite=None):
    """Record text + the parameters the oracle needs."""
    if rng.random() < 0.15:
        R = np.eye(3)
    else:
        R = _rotation(rng)
    ex, ey, ez = R[:, 0], R[:, 1], R[:, 2]
    c = np.array([gen.dyadic(rng, -4, 4) for _ in range(3)]) if rng.random() < 0.85 else np.zeros(3)
    r = rng.choice([0.5, 1.0, 1.5, 2.0, 3.25])
    twopi = 2 * math.pi
    p = {'type': kind, 'c': c.tolist(), 'ex': ex.tolist(), 'ey': ey.tolist(), 'ez': ez.tolist(), 'r': r}
    swap = int(rng.random() < 0.4) if swap is None else swap
    p['swap'] = swap
    L = []
    if kind == 'line':
        d = ex * rng.choice([1.0, 1.0, 2.0])
        t0 = gen.dyadic(rng, -3, 1)
        t1 = t0 + rng.choice([0.5, 1.0, 2.0, 4.0])
        fin = int(rng.random() < 0.8) if finite is None else finite
        L = ['120 1 0 0', '3', _vec(c), _vec(d), str(fin), '%r %r' % (t0, t1), str(swap)]
        if not fin:
            t0, t1 = -UNLIMITED, UNLIMITED
        p.update(d=d.tolist(), t0=t0, t1=t1, finite=fin)
    elif kind == 'circle':
        L = ['130 1 0 0', '3', repr(r), _vec(c), _vec(ez), _vec(ex), '0 %r' % twopi, str(swap)]
    elif kind == 'arc':
        t0 = rng.choice([0.0, 0.5, 1.0])
        t1 = t0 + rng.choice([1.0, 2.0, 3.0])
        p.update(t0=t0, t1=t1)
        L = ['130 1 0 0', '3', repr(r), _vec(c), _vec(ez), _vec(ex), '%r %r' % (t0, t1), '0']
    elif kind == 'ellipse':
        r2 = rng.choice([0.25, 0.75, 1.0, 2.5])
        p['r2'] = r2
        L = ['140 1 0 0', '3', repr(r), repr(r2), _vec(c), _vec(ez), _vec(ex), '0 %r' % twopi, str(swap)]
    elif kind == 'cylinder':
        v0 = gen.dyadic(rng, -2, 1)
        v1 = v0 + rng.choice([0.5, 1.0, 3.0])
        fin = int(rng.random() < 0.8) if finite is None else finite
        L = ['260 1 0 0', '3', repr(r), _vec(c), _vec(ez), _vec(ex), str(fin), '0 %r' % twopi] + \
            (['%r %r' % (v0, v1)] if fin else []) + [str(swap)]
        if not fin:
            v0, v1 = -UNLIMITED, UNLIMITED
        p.update(v0=v0, v1=v1, finite=fin)
    elif kind == 'disc':
        degen = int(rng.random() < 0.5)
        p['degen'] = degen
        ang = [math.pi / 4 + i * math.pi / 2 for i in range(4)]
        L = ['292 1 0 0', '3', _vec(c), repr(r), _vec(ez), _vec(ex), str(degen)] + [repr(a) for a in ang]
        L += (['0 %r' % r, '0 %r' % twopi] if degen else ['0 1', '0 1']) + [str(swap)]
    elif kind == 'plane':
        u0, v0 = gen.dyadic(rng, -2, 1), gen.dyadic(rng, -2, 1)
        u1, v1 = u0 + rng.choice([0.5, 1.0, 2.0]), v0 + rng.choice([0.5, 1.0, 2.0])
        fin = int(rng.random() < 0.8) if finite is None else finite
        L = ['250 1 0 0', '3', _vec(c), _vec(ez), _vec(ex), str(fin)] + \
            (['%r %r' % (u0, u1), '%r %r' % (v0, v1)] if fin else []) + [str(swap)]
        if not fin:
            u0 = v0 = -UNLIMITED
            u1 = v1 = UNLIMITED
        p.update(u0=u0, u1=u1, v0=v0, v1=v1, finite=fin)
    elif kind == 'torus':
        r1 = rng.choice([0.25, 0.5, 1.0])
        R2 = r1 + rng.choice([0.5, 1.0, 2.0])
        p.update(minor=r1, major=R2)
        L = ['290 1 0 0', '3', repr(R2), repr(r1), _vec(c), _vec(ez), _vec(ex), '1', '0 %r' % twopi, '0 %r' % twopi, str(swap)]
    elif kind == 'sphere':
        L = ['270 1 0 0', '3', repr(r), _vec(c), _vec(ez), _vec(ex), '0 %r' % twopi, '%r %r' % (-math.pi / 2, math.pi / 2),
             str(swap)]
    elif kind == 'extrusion':
        o = gen.rand_object(rng, pardim=1, dim=3, rational=rng.random() < 0.3, periodic_prob=0.0, pmin=2)
        v0 = gen.dyadic(rng, -1, 1)
        v1 = v0 + rng.choice([0.5, 1.0, 2.0])
        nrm = ez * rng.choice([1.0, 2.0])
        info = gen.basis_info(o['bases'][0])
        fin = int(rng.random() < 0.8) if finite is None else finite
        body = foreign_g2_record(rng, o, 'repr')
        body = [l for l in body if l.strip()][1:]          # drop blank lines and the 100-header
        L = ['261 1 0 0', '3'] + body + ['', _vec(nrm), str(fin), '%r %r' % (info['start'], info['end'])] + \
            (['%r %r' % (v0, v1)] if fin else []) + [str(swap)]
        if not fin:
            v0, v1 = -UNLIMITED, UNLIMITED
        p.update(curve=o, v0=v0, v1=v1, n=nrm.tolist(), finite=fin)
    else:
        raise ValueError(kind)
    return '\n'.join(L) + '\n', p


UNLIMITED = 1e4    # splipy.state.unlimited

PRIMS = ['line', 'circle', 'ellipse', 'cylinder', 'disc', 'plane', 'torus', 'sphere', 'extrusion', 'arc']


PI_F, W_F, S2_F = F(math.pi), F(1.0 / math.sqrt(2)), F(math.sqrt(2))


def _prim_aux(p):
    """What the factory models cannot compute in a field (as for C13): pi, 1/sqrt2, sqrt2; (cos, sin) of
    theta = atan2(n_y, n_x) and phi = atan2(hypot(n_x, n_y), n_z); the norm of the back-rotated x-axis; |z_axis|."""
    n, x = p['ez'], p['ex']
    th = math.atan2(n[1], n[0])
    ph = math.atan2(math.hypot(n[0], n[1]), n[2])
    ct, st, cp, sp_ = math.cos(th), math.sin(th), math.cos(ph), math.sin(ph)
    vx, vy = x[0] * ct + x[1] * st, -x[0] * st + x[1] * ct
    vx = vx * cp - x[2] * sp_
    lam = math.hypot(vx, vy) or 1.0
    return [[PI_F, W_F, S2_F], [ct, st, cp, sp_], lam, math.sqrt(sum(t * t for t in n))]


def corpus_specs():
    """The cases of corpus/C19/divergences.json (written once by `python -m props.C19`): behaviours where an earlier
    version of the model differed from the code without a generated case noticing."""
    import random
    rng = random.Random(1919)
    out = [{'kind': 'g2w', 'objs': [], 'stream': 'dyadic'}]                       # G2.write([]) -> IndexError
    # flag lines are compared with the STRING '0': '00', '+0', '-0' are true, '0' (also ' 0 ') is false
    for kind, spell in (('circle', '00'), ('line', '+0'), ('ellipse', '-0'), ('torus', '00'), ('sphere', '007'),
                        ('circle', '0'), ('cylinder', '00')):
        text, p = _prim(rng, kind, swap=0)
        ls = text.rstrip('\n').split('\n')
        assert ls[-1] == '0'
        ls[-1] = spell if spell != '0' else ' 0 '
        p['swap'] = int(spell != '0')
        out.append({'kind': 'prim', 'text': '\n'.join(ls) + '\n', 'prim': p, 'flag_spelling': spell})
    # SVG.write refuses non-planar objects
    o = gen.rand_object(rng, pardim=1, dim=3, rational=False, pmin=2, pmax=4, periodic_prob=0.0)
    out.append({'kind': 'svg', 'curves': [o], 'W': 1000, 'H': 1000, 'm': 0.05})
    return out


def generate(rng, tier):
    quick = tier == 'quick'
    specs = []
    # ---- (a) real writer vs model writer
    for i in range(70 if quick else 500):
        stream = ['dyadic', 'mixed', 'full', 'extreme', 'dyadic', 'mixed'][i % 6]
        nobj = rng.choice([1, 1, 2, 3]) if quick else rng.choice([1, 2, 3, 4])
        objs = [_rand_obj(rng, stream, pmax=4 if quick else 5) for _ in range(nobj)]
        if i % 10 == 0:
            objs[0] = _noncubic_volume(rng, rational=(i % 20 == 0))
            stream = 'dyadic'
        specs.append({'kind': 'g2w', 'objs': objs, 'stream': stream})
    # ---- (b) independent writer vs real reader vs model reader
    for i in range(50 if quick else 400):
        stream = ['dyadic', 'full', 'extreme', 'mixed'][i % 4]
        style = STYLES[i % len(STYLES)]
        objs = [_rand_obj(rng, stream, periodic_prob=0.0, pmax=4 if quick else 5) for _ in range(rng.choice([1, 1, 2, 3]))]
        if i % 7 == 0:
            objs[-1] = _noncubic_volume(rng, rational=(i % 14 == 0))
        ls = []
        for o in objs:
            ls += foreign_g2_record(rng, o, style)
        text = '\n'.join(ls) + ('\n' if rng.random() < 0.8 else '')
        specs.append({'kind': 'g2r', 'text': text, 'expect': objs, 'stream': stream, 'style': style})
        if i % 4 == 0:
            bad, how = _mutate(rng, text)
            specs.append({'kind': 'g2r', 'text': bad, 'expect': None, 'malformed': how, 'stream': stream, 'style': style})
    for i in range(30 if quick else 250):
        stream = ['dyadic', 'full', 'extreme'][i % 3]
        style = STYLES[i % len(STYLES)]
        o = _rand_obj(rng, stream, periodic_prob=0.0, rational=False, pmax=4 if quick else 5)
        if i % 6 == 0:
            o = _noncubic_volume(rng, rational=False)
        text = '\n'.join(foreign_spl(rng, o, style)) + '\n'
        specs.append({'kind': 'spl', 'text': text, 'expect': [o], 'stream': stream, 'style': style})
    # ---- (c) STL
    for i in range(36 if quick else 250):
        binary = i % 2 == 0
        vol = i % 6 == 5
        nmode = ['none', 'int', 'pair'][i % 3] if not vol else ['int', 'pair', 'none'][(i // 6) % 3]
        if nmode == 'none':
            n = None
        elif nmode == 'int':
            n = rng.choice([1, 2, 3, 5, 8])
        else:
            n = [rng.choice([2, 3, 4, 7]), rng.choice([2, 3, 5, 9])]
        dim = 3 if (vol or i % 9 != 4) else 2
        stream = 'extreme' if i % 12 == 7 else 'dyadic'
        k = 1 if vol else rng.choice([1, 1, 2])
        objs = [_rand_obj(rng, stream, pardim=3 if vol else 2, dim=dim, pmin=2, pmax=4 if not vol else 3,
                          max_interior=1 if vol else 2) for _ in range(k)]
        specs.append({'kind': 'stl', 'objs': objs, 'n': n, 'binary': binary, 'stream': stream})
    # ---- (d) SVG
    i = 0
    while i < (30 if quick else 250):
        k = rng.choice([1, 2, 3])
        scale = 10.0 ** rng.choice([-6, -3, 0, 0, 0, 3, 6]) if i % 5 == 4 else 1.0
        curves = []
        for _ in range(k):
            while True:
                o = _fatten(rng, gen.rand_object(rng, pardim=1, dim=2, rational=False, pmin=2, pmax=4, max_interior=3))
                # at least C0, and not a single repeated point (a periodic curve with one control point)
                # ... nor with all control points equal (a zero-length curve: `SVG.read` cannot handle the empty path piece)
                if _continuous(o['bases'][0]) and gen.basis_info(o['bases'][0])['n'] >= 2 \
                        and float(np.ptp(np.array(o['cps'], dtype=float), axis=0).max()) > 0:
                    break
            curves.append(_scaled(o, scale))
        pts = np.concatenate([np.array(c['cps'], dtype=float).reshape(-1, 2) for c in curves])
        if pts[:, 0].max() - pts[:, 0].min() <= 0:
            continue
        i += 1
        specs.append({'kind': 'svg', 'curves': curves, 'W': rng.choice([1000, 1000, 800, 640.5]),
                      'H': rng.choice([1000, 1000, 600, 333.25]), 'm': rng.choice([0.05, 0.05, 0.0, 0.1, 0.2])})
    # ---- primitives (oracle only)
    for i in range(50 if quick else 400):
        kind = PRIMS[i % len(PRIMS)]
        text, p = _prim(rng, kind, swap=(i // len(PRIMS)) % 2 if kind in ('circle', 'ellipse') else None,
                        finite=0 if (i // len(PRIMS)) % 3 == 1 else None)
        specs.append({'kind': 'prim', 'text': text, 'prim': p})
    # ---- whole files mixing spline records and primitive records (what G2.read handles in one loop)
    for i in range(16 if quick else 120):
        parts, texts = [], []
        for j in range(rng.choice([2, 3, 4])):
            if (i + j) % 2 == 0:
                o = _rand_obj(rng, 'dyadic', periodic_prob=0.0, pmax=3)
                t = '\n'.join(foreign_g2_record(rng, o, STYLES[(i + j) % len(STYLES)])) + '\n'
                parts.append({'kind': 'g2r', 'text': t, 'expect': [o], 'stream': 'dyadic', 'style': STYLES[(i + j) % len(STYLES)]})
            else:
                t, p = _prim(rng, PRIMS[(i * 3 + j) % (len(PRIMS) - 1)])      # every kind but 'arc'
                parts.append({'kind': 'prim', 'text': t, 'prim': p})
            texts.append(parts[-1]['text'])
        specs.append({'kind': 'g2mix', 'text': ('\n' if i % 3 == 0 else '').join(texts), 'parts': parts})
    return specs


# =============================================================================================
# shared real-code helpers

def _open_periodic(sp, o):
    """What G2.write does before writing: split every periodic direction at its start."""
    obj = gen.mk_object(sp, o)
    for i in range(obj.pardim):
        if obj.periodic(i):
            obj = obj.split(obj.start(i), i)
    return obj


def _tmp():
    return tempfile.mkdtemp(prefix='c19-')


def _stl_surfaces(sp, spec):
    """The surfaces the STL writer tessellates, in order (real objects)."""
    out = []
    for o in spec['objs']:
        obj = gen.mk_object(sp, o)
        if len(o['bases']) == 3:
            out += [f for f in obj.faces() if f is not None]
        else:
            out.append(obj)
    return out


def _stl_dirs(spec):
    """Per tessellated surface: [[order, distinct knots in the domain, n] x 2] computed from the spec."""
    n = spec['n']
    nn = [-1, -1] if n is None else ([n, n] if not isinstance(n, list) else n)

    def d(b, k):
        info = gen.basis_info(b)
        ks = [x for x in gen.distinct_knots(b) if info['start'] <= x <= info['end']]
        return [b['order'], ks, nn[k]]
    out = []
    for o in spec['objs']:
        bs = o['bases']
        if len(bs) == 3:
            for fixed in range(3):
                if bs[fixed]['periodic'] >= 0:
                    continue
                rest = [b for i, b in enumerate(bs) if i != fixed]
                for _ in (0, 1):
                    out.append([d(rest[0], 0), d(rest[1], 1)])
        else:
            out.append([d(bs[0], 0), d(bs[1], 1)])
    return out


def parse_stl(path, binary):
    """Independent STL reader -> [declared count (-1 for ASCII), facets present, facets]."""
    if binary:
        data = open(path, 'rb').read()
        declared = struct.unpack('<I', data[80:84])[0] if struct.calcsize('80sI') == 84 else None
        body = data[84:]
        present = len(body) // 50
        if len(body) % 50:
            present = -1
        facets = []
        for k in range(max(present, 0)):
            v = struct.unpack('12fH', body[50 * k:50 * k + 50])
            facets.append([list(v[3:6]), list(v[6:9]), list(v[9:12])])
        return [declared, present, facets]
    ls = [l.strip() for l in open(path).read().split('\n')]
    facets, cur, nfacet, nend = [], [], 0, 0
    for l in ls:
        if l.startswith('facet normal'):
            nfacet += 1
            cur = []
        elif l.startswith('vertex'):
            cur.append([float(x) for x in l.split()[1:]])
        elif l.startswith('endfacet'):
            nend += 1
            facets.append(cur)
    return [-1, nfacet if nfacet == nend else -1, facets]


def _write_stl(sp, spec):
    d = _tmp()
    try:
        fn = os.path.join(d, 'a.stl')
        with _io(sp).STL(fn, binary=spec['binary']) as f:
            for o in spec['objs']:
                f.write(gen.mk_object(sp, o), spec['n'])
        return parse_stl(fn, spec['binary'])
    finally:
        shutil.rmtree(d, ignore_errors=True)


_NUM = re.compile(r'-?\d+\.?\d*(?:[eE][-+]?\d+)?')


def _svg_roundtrip(sp, spec):
    """[width, height, written points per path, read-back control points per curve, read-back curves]."""
    d = _tmp()
    try:
        fn = os.path.join(d, 'a.svg')
        curves = [gen.mk_object(sp, c) for c in spec['curves']]
        import contextlib
        import io as _pyio
        with contextlib.redirect_stdout(_pyio.StringIO()):      # SVG.__exit__ prints the exception it re-raises
            with _io(sp).SVG(fn, spec['W'], spec['H'], spec['m']) as f:
                f.write(curves)
        root = etree.parse(fn).getroot()
        width, height = float(root.attrib['width']), float(root.attrib['height'])
        paths = []
        for pth in root.iter('{http://www.w3.org/2000/svg}path'):
            nums = [float(x) for x in _NUM.findall(pth.attrib['d'])]
            paths.append([[nums[2 * i], nums[2 * i + 1]] for i in range(len(nums) // 2)])
        back = _io(sp).SVG(fn).read()
        return width, height, paths, back, curves
    finally:
        shutil.rmtree(d, ignore_errors=True)


# =============================================================================================
# model side

def model_line(s):
    k = s['kind']
    if k == 'g2w':
        # the model opens periodic directions itself (C07 model of `split`) before printing
        return line('g2_write_obj', TOL, [gen.enc_object(o) for o in s['objs']])
    if k == 'g2r':
        return line('g2_read_mixed', [], TOL, tokenise(s['text']))
    if k == 'prim':
        return line('g2_read_mixed', [_prim_aux(s['prim'])], TOL, tokenise(s['text']))
    if k == 'g2mix':
        return line('g2_read_mixed', [_prim_aux(q['prim']) for q in s['parts'] if q['kind'] == 'prim'], TOL,
                    tokenise(s['text']))
    if k == 'spl':
        return line('spl_read', TOL, tokenise(s['text'], spl=True))
    if k == 'stl':
        # the writer model evaluates the surfaces itself (exact Obj.evaluate at the model's sampling parameters)
        n = s['n']
        return line('stl_file2', TOL, [gen.enc_object(o) for o in s['objs']], -1 if n is None else n)
    if k == 'svg':
        # the model computes bezier_representation itself (C05 raise_order, C07 split, C04 insert_knot models)
        return line('svg_roundtrip2', s['W'], s['H'], s['m'], TOL, [gen.enc_object(c) for c in s['curves']])
    raise ValueError(k)


# =============================================================================================
# implementation side

def run_impl(sp, s):
    k = s['kind']
    if k == 'g2w':
        d = _tmp()
        try:
            fn = os.path.join(d, 'a.g2')
            with _io(sp).G2(fn) as f:
                f.write([gen.mk_object(sp, o) for o in s['objs']])
            return raw_tokens(open(fn).read())
        finally:
            shutil.rmtree(d, ignore_errors=True)
    if k in ('g2r', 'prim', 'spl', 'g2mix'):
        d = _tmp()
        try:
            fn = os.path.join(d, 'a.' + ('spl' if k == 'spl' else 'g2'))
            with open(fn, 'w') as f:
                f.write(s['text'])
            with (_io(sp).SPL(fn) if k == 'spl' else _io(sp).G2(fn)) as f:
                objs = f.read()
            return [gen.obj_observables(o) for o in objs]
        finally:
            shutil.rmtree(d, ignore_errors=True)
    if k == 'stl':
        return _write_stl(sp, s)
    if k == 'svg':
        width, height, paths, back, _ = _svg_roundtrip(sp, s)
        return [width, height, paths, [c.controlpoints.reshape(-1, c.controlpoints.shape[-1]).tolist() for c in back]]
    raise ValueError(k)


_EXC = {'StopIteration': 'Exception', 'OSError': 'Exception', 'IOError': 'Exception', 'AssertionError': 'Exception'}


def _err_diff(iv, mv):
    if isinstance(iv, Err) and is_err(mv):
        ik = _EXC.get(iv.kind, iv.kind)
        return None if ik == err_kind(mv) else 'impl raised %s (%s), model %s' % (iv.kind, iv.msg[:80], err_kind(mv))
    if isinstance(iv, Err):
        return 'impl raised %s (%s), model returned a value' % (iv.kind, iv.msg[:120])
    return 'model raised %s, impl returned a value' % err_kind(mv)


def _cmp_tokens(iv, mv, periodic=()):
    """File tokens vs model tokens.  Records of non-periodic objects: every number must be the '%.16g' rounding of
    the model's exact number.  Records of objects with a periodic direction (`periodic[j]` true): the numbers went
    through the library's float `split`, the model's through the exact one, so they are compared with a
    rounding-level tolerance relative to the largest number of the record."""
    if len(iv) != len(mv):
        return 'token count: file %d, model %d' % (len(iv), len(mv))
    # record boundaries on the model side: lines `[i,code] [i,1] [i,0] [i,0]`
    rec, recs, line_start = -1, [], True
    for pos, b in enumerate(mv):
        if line_start and isinstance(b, list) and pos + 4 < len(mv) and all(isinstance(x, list) for x in mv[pos:pos + 4]) \
                and mv[pos + 4] == 'nl' and [int(x[1]) for x in mv[pos + 1:pos + 4]] == [1, 0, 0]:
            rec += 1
        recs.append(rec)
        line_start = (b == 'nl')
    scale = {}
    for r, b in zip(recs, mv):
        if not isinstance(b, (str, list)):
            scale[r] = max(scale.get(r, 0.0), abs(float(b)))
    for pos, (a, b) in enumerate(zip(iv, mv)):
        if isinstance(b, str):
            if not (b == 'nl' and a == '\n'):
                return 'token %d: file %r, model %r' % (pos, a, b)
        elif isinstance(b, list):           # [i, n]
            if not (_INT.match(a) and int(a) == b[1]):
                return 'token %d: file %r, model int %s' % (pos, a, b[1])
        else:
            if a == '\n':
                return 'token %d: file has a line end, model %s' % (pos, b)
            r = recs[pos]
            if 0 <= r < len(periodic) and periodic[r]:
                if abs(float(a) - float(b)) > 1e-12 * max(scale.get(r, 0.0), 1e-300):
                    return 'token %d: file %r, model %.17g (periodic object, tolerance 1e-12 of %g)' % (pos, a, float(b), scale[r])
                continue
            want = r16(float(b))
            if float(a) != want:
                return 'token %d: file %r, model %.17g (=%r after %%.16g)' % (pos, a, float(b), want)
    return None


def _cmp_stl(s, iv, mv):
    """Parsed file vs the writer model `stlFile`: header count, number of records, and every vertex of every
    record in file order (the model's vertices are exact evaluations; the file holds their float32 / '.4f'
    roundings)."""
    declared, present, facets = iv
    mdecl, mrecs = mv
    if s['binary'] and declared != int(mdecl):
        return 'declared count %s, model header count %s' % (declared, mdecl)
    if present != len(mrecs) or len(facets) != len(mrecs):
        return 'facets present %s (%d parsed), model %d records' % (present, len(facets), len(mrecs))
    for k, (fa, wa) in enumerate(zip(facets, mrecs)):
        if len(fa) != 3 or len(wa) != 3:
            return 'facet %d: %d vertices in the file, %d in the model' % (k, len(fa), len(wa))
        for a, w in zip(fa, wa):
            w = [float(x) for x in w]
            big = max(1e-300, max(abs(x) for x in w))
            for c in range(3):
                tol = (6.2e-8 * abs(w[c]) + 1e-30) if s['binary'] else 0.5001e-4
                tol += 1e-9 * big
                if abs(a[c] - w[c]) > tol:
                    return 'facet %d: file vertex %r, model vertex %r' % (k, a, w)
    return None


def _cmp_svg(s, iv, mv):
    width, height, paths, back = iv
    mw, mh, mscale, written, mback, sim = mv
    for name, a, b in (('width', width, mw), ('height', height, mh)):
        if abs(a - float(b)) > 1e-9 * max(1.0, abs(float(b))):
            return '%s: file %r, model %r' % (name, a, float(b))
    if len(paths) != len(written) or len(back) != len(mback):
        return 'curve count: file %d paths / %d read, model %d' % (len(paths), len(back), len(written))
    for k, (pa, pm) in enumerate(zip(paths, written)):
        if len(pa) != len(pm):
            return 'path %d: %d points in the file, model %d' % (k, len(pa), len(pm))
        for a, b in zip(pa, pm):
            if max(abs(a[0] - float(b[0])), abs(a[1] - float(b[1]))) > 0.5e-6 + 1e-9:
                return 'path %d: file point %r, model %r' % (k, a, [float(b[0]), float(b[1])])
    for k, (ca, cm) in enumerate(zip(back, mback)):
        if len(ca) != len(cm):
            return 'read curve %d: %d control points, model %d' % (k, len(ca), len(cm))
        for a, b in zip(ca, cm):
            if len(a) != 2 or max(abs(a[0] - float(b[0])), abs(a[1] - float(b[1]))) > 0.5e-6 + 2e-9:
                return 'read curve %d: control point %r, model %r' % (k, a, [float(b[0]), float(b[1])])
    return None


def compare(s, iv, mv):
    k = s['kind']
    if isinstance(iv, Err) or is_err(mv):
        return _err_diff(iv, mv)
    if k == 'g2w':
        return _cmp_tokens(iv, mv, [not _nonperiodic(o) for o in s['objs']])
    if k == 'g2r':
        return diff(iv, mv, rtol=1e-15, atol=0.0)
    if k == 'spl':
        return diff(iv, [mv], rtol=1e-15, atol=0.0)      # SPL.read returns a one-element list
    if k in ('prim', 'g2mix'):
        # parsed objects (knots, control nets, flags) vs the model's factory calls + post-processing; the
        # trigonometric data reach the model as floats, hence a rounding-level tolerance
        return diff(iv, mv, rtol=1e-9, atol=1e-9)
    if k == 'stl':
        return _cmp_stl(s, iv, mv)
    if k == 'svg':
        return _cmp_svg(s, iv, mv)
    return 'unknown kind'


# =============================================================================================
# oracle (model independent)

def _span_params(knots, per_span):
    ts = []
    for a, b in zip(knots[:-1], knots[1:]):
        for j in range(per_span + 1):
            ts.append(a + (b - a) * j / per_span)
    return ts


def _dknots(obj, d):
    """Distinct knots of the parametric domain (own computation; `knots()` is empty for order 1)."""
    b = obj.bases[d]
    kn = [float(x) for x in b.knots[b.order - 1:len(b.knots) - b.order + 1]]
    out = []
    for x in kn:
        if not out or x - out[-1] > TOL:
            out.append(x)
    return out


def _eval(obj, params):
    x = np.asarray(obj(*params))
    return x.reshape(tuple(len(p) for p in params) + (-1,))


def _close(a, b, rel=1e-9):
    a, b = np.asarray(a, dtype=float), np.asarray(b, dtype=float)
    if a.shape != b.shape:
        return False
    scale = max(float(np.abs(b).max()) if b.size else 0.0, 1e-300)
    return bool(np.all(np.abs(a - b) <= rel * scale))


def _same_object(got, want_spec, fails, tag, rounded):
    """`got` (real object read from a file) against the spec of the object that was written."""
    rnd = (lambda x: r16(x)) if rounded else (lambda x: float(x))
    w = want_spec
    pardim = len(w['bases'])
    cls = {1: 'Curve', 2: 'Surface', 3: 'Volume'}[pardim]
    if type(got).__name__ != cls:
        fails.append('%s: read a %s, wrote a %s' % (tag, type(got).__name__, cls))
        return
    wc = np.array(w['cps'], dtype=float)
    if bool(got.rational) != bool(w['rational']):
        fails.append('%s: rational %s, wrote %s' % (tag, got.rational, w['rational']))
    if got.dimension != wc.shape[-1] - int(w['rational']):
        fails.append('%s: dimension %d, wrote %d' % (tag, got.dimension, wc.shape[-1] - int(w['rational'])))
    for d, (gb, wb) in enumerate(zip(got.bases, w['bases'])):
        if gb.order != wb['order']:
            fails.append('%s: order[%d] %d, wrote %d' % (tag, d, gb.order, wb['order']))
        if gb.periodic != -1:
            fails.append('%s: basis %d read as periodic' % (tag, d))
        if [float(x) for x in gb.knots] != [rnd(x) for x in wb['knots']]:
            fails.append('%s: knots[%d] %s differ from the 16 digits written %s' % (tag, d, list(gb.knots)[:6], wb['knots'][:6]))
    gc = np.asarray(got.controlpoints, dtype=float)
    if gc.shape != wc.shape:
        fails.append('%s: control net shape %s, wrote %s' % (tag, gc.shape, wc.shape))
    elif not np.array_equal(gc, np.vectorize(rnd)(wc)):
        bad = np.argwhere(gc != np.vectorize(rnd)(wc))[0]
        fails.append('%s: control point %s is %r, wrote %r' % (tag, tuple(bad), gc[tuple(bad)], wc[tuple(bad)]))


def _oracle_g2w(sp, s):
    fails = []
    if not s['objs']:
        return []      # `G2.write([])` raises IndexError (`obj[0]`); nothing is written, nothing to read back
    objs = [gen.mk_object(sp, o) for o in s['objs']]
    d = _tmp()
    try:
        fn = os.path.join(d, 'a.g2')
        try:
            with _io(sp).G2(fn) as f:
                f.write([o.clone() for o in objs])
        except Exception as e:  # noqa: BLE001
            # which object cannot be written?
            for o, os_ in zip(objs, s['objs']):
                if not _nonperiodic(os_):
                    try:
                        _open_periodic(sp, os_)
                    except Exception as e2:  # noqa: BLE001
                        return ['split raised: G2.write cannot open a periodic object at its seam (%s: %s)' % (type(e2).__name__, e2)]
            return ['G2.write raised %s: %s' % (type(e).__name__, e)]
        with _io(sp).G2(fn) as f:
            back = f.read()
    finally:
        shutil.rmtree(d, ignore_errors=True)
    if len(back) != len(objs):
        return ['wrote %d objects, read %d' % (len(objs), len(back))]
    for k, (b, o, os_) in enumerate(zip(back, objs, s['objs'])):
        tag = 'object %d' % k
        if _nonperiodic(os_):
            _same_object(b, os_, fails, tag, rounded=True)
            continue
        # periodic: same kind/rationality/dimension/orders, opened, identical geometry
        if type(b) is not type(o) or b.rational != o.rational or b.dimension != o.dimension:
            fails.append('%s: kind/rationality/dimension changed' % tag)
            continue
        if [x.order for x in b.bases] != [x.order for x in o.bases]:
            fails.append('%s: orders changed' % tag)
        if any(x.periodic != -1 for x in b.bases):
            fails.append('%s: read back periodic' % tag)
        for dd in range(o.pardim):
            if abs(b.start(dd) - o.start(dd)) > 1e-9 * max(1, abs(o.start(dd))) or abs(b.end(dd) - o.end(dd)) > 1e-9 * max(1, abs(o.end(dd))):
                fails.append('%s: parameter domain changed in direction %d' % (tag, dd))
        if fails:
            continue
        # original by the defining NURBS sum (exact), read-back object by the library
        params = [_span_params(_dknots(o, dd), o.order(dd)) for dd in range(o.pardim)]
        tuples = list(itertools.product(*params))
        tuples = tuples[::max(1, len(tuples) // 24)]
        want = np.array([[float(x) for x in exact.nurbs_point(os_, t)] for t in tuples])
        with np.errstate(all='ignore'):
            got = np.array([np.asarray(b(*t), dtype=float).reshape(-1) for t in tuples])
        if not _close(got, want):
            fails.append('%s: periodic object does not come back with identical geometry' % tag)
    return fails


def _oracle_foreign(sp, s):
    if s.get('expect') is None:
        return []
    d = _tmp()
    try:
        fn = os.path.join(d, 'a.' + ('spl' if s['kind'] == 'spl' else 'g2'))
        with open(fn, 'w') as f:
            f.write(s['text'])
        try:
            with (_io(sp).SPL(fn) if s['kind'] == 'spl' else _io(sp).G2(fn)) as f:
                back = f.read()
        except Exception as e:  # noqa: BLE001
            return ['reader raised %s on a valid file: %s' % (type(e).__name__, e)]
    finally:
        shutil.rmtree(d, ignore_errors=True)
    fails = []
    if len(back) != len(s['expect']):
        return ['file holds %d records, read %d objects' % (len(s['expect']), len(back))]
    for k, (b, w) in enumerate(zip(back, s['expect'])):
        _same_object(b, w, fails, 'record %d' % k, rounded=False)
    return fails


def _oracle_stl(sp, s):
    fails = []
    try:
        declared, present, facets = _write_stl(sp, s)
    except Exception as e:  # noqa: BLE001
        return ['STL.write raised %s: %s' % (type(e).__name__, e)]
    if present < 0:
        return ['file is not a whole number of facets']
    if s['binary'] and declared != present:
        fails.append('declared facet count %d, facets present %d' % (declared, present))
    # the tessellation grid by the documented sampling rule, evaluated by the library
    n = s['n']
    nn = None if n is None else ([n, n] if not isinstance(n, list) else n)
    expected = 0
    grid_pts = []
    for srf in _stl_surfaces(sp, s):
        uv = []
        for dd in range(2):
            kn = list(srf.knots(dd))
            p = srf.order(dd)
            if nn is not None:
                uv.append(list(np.linspace(srf.start(dd), srf.end(dd), nn[dd])))
            elif p == 2:
                uv.append(kn)
            else:
                pts = list(kn)
                for a, b in zip(kn[:-1], kn[1:]):
                    pts += [a + (b - a) * j / (2 * p - 3) for j in range(1, 2 * p - 3)]
                uv.append(sorted(pts))
        expected += 2 * (len(uv[0]) - 1) * (len(uv[1]) - 1)
        x = _eval(srf, uv).reshape(-1, srf.dimension)
        if x.shape[1] == 2:
            x = np.concatenate([x, np.zeros((len(x), 1))], axis=1)
        grid_pts.append(x)
    # with an explicit resolution the grid size is the caller's: 2(nu-1)(nv-1) facets per surface.
    # (n=None: the library's own sample list repeats every knot but the last for order >= 3, which
    #  adds zero-area facets; the property does not fix that number, only declared = present.)
    if nn is not None and present != expected:
        fails.append('%d facets present, an %s tessellation has %d' % (present, nn, expected))
    if any(len(f) != 3 or any(len(v) != 3 for v in f) for f in facets):
        fails.append('facet without three 3D vertices')
        return fails
    G = np.concatenate(grid_pts) if grid_pts else np.zeros((0, 3))
    V = np.array([v for f in facets for v in f], dtype=float).reshape(-1, 3)
    if len(V):
        scale = max(float(np.abs(G).max()), 1e-300)
        Gr = G.astype(np.float32).astype(float) if s['binary'] else G
        tol = (1.3e-7 * scale) if s['binary'] else (0.5001e-4 + 1e-9 * scale)
        # nearest grid point per vertex (chunked)
        for a in range(0, len(V), 512):
            dist = np.abs(V[a:a + 512, None, :] - Gr[None, :, :]).max(axis=2).min(axis=1)
            if np.any(dist > tol):
                k = int(np.argmax(dist > tol)) + a
                fails.append('vertex %s of facet %d is not a point of the tessellation grid (distance %.3g)' % (V[k].tolist(), k // 3, dist[k - a]))
                break
    return fails


def _oracle_svg(sp, s):
    if any(np.array(c['cps']).shape[-1] != 2 for c in s['curves']):
        return []      # not planar: `SVG.write` refuses it (RuntimeError), outside the property's quantifier
    try:
        width, height, paths, back, curves = _svg_roundtrip(sp, s)
    except Exception as e:  # noqa: BLE001
        for c in s['curves']:
            if not _nonperiodic(c):
                try:
                    _open_periodic(sp, c)
                except Exception as e2:  # noqa: BLE001
                    return ['split raised: SVG cannot open a periodic curve at its seam (%s: %s)' % (type(e2).__name__, e2)]
        return ['SVG write/read raised %s: %s' % (type(e).__name__, e)]
    if len(back) != len(curves):
        return ['wrote %d curves, read %d' % (len(curves), len(back))]
    P, Q = [], []
    for k, (c, b) in enumerate(zip(curves, back)):
        kc, kb = list(c.knots(0)), list(b.knots(0))
        if len(kc) != len(kb):
            return ['curve %d: %d spans written, %d read' % (k, len(kc) - 1, len(kb) - 1)]
        if b.dimension != 2 or b.rational:
            return ['curve %d read as dimension %d rational %s' % (k, b.dimension, b.rational)]
        P.append(_eval(c, [_span_params(kc, 4)]).reshape(-1, 2))
        Q.append(_eval(b, [_span_params(kb, 4)]).reshape(-1, 2))
    # ONE similarity for the whole drawing, estimated from the first curve
    p0, q0 = P[0], Q[0]
    pc, qc = p0.mean(axis=0), q0.mean(axis=0)
    den = float(((p0 - pc) ** 2).sum())
    if den == 0:
        return []
    sc = float(((p0 - pc) * (q0 - qc)).sum()) / den
    b = qc - sc * pc
    fails = []
    if not sc > 0:
        fails.append('scale %r of the similarity is not positive (axis flip not undone)' % sc)
    for k, (p, q) in enumerate(zip(P, Q)):
        err = float(np.abs(q - (sc * p + b)).max())
        if err > 5e-6:
            fails.append('curve %d deviates %.3g pixels from the common similarity x -> %.6g x + %s' % (k, err, sc, b.tolist()))
    return fails


def _oracle_prim(sp, s):
    p = s['prim']
    d = _tmp()
    try:
        fn = os.path.join(d, 'a.g2')
        with open(fn, 'w') as f:
            f.write(s['text'])
        try:
            with _io(sp).G2(fn) as f:
                back = f.read()
        except Exception as e:  # noqa: BLE001
            return ['reader raised %s on a %s record: %s' % (type(e).__name__, p['type'], e)]
    finally:
        shutil.rmtree(d, ignore_errors=True)
    if len(back) != 1:
        return ['one record, %d objects' % len(back)]
    obj = back[0]
    c, ex, ey, ez = (np.array(p[k]) for k in ('c', 'ex', 'ey', 'ez'))
    r = p['r']
    params = [_span_params(_dknots(obj, dd), 4) for dd in range(obj.pardim)]
    X = _eval(obj, params)
    X3 = X.reshape(-1, X.shape[-1])
    if X3.shape[1] == 2:        # planar result left in the plane z=0 ("don't touch it if not needed")
        X = np.concatenate([X, np.zeros(X.shape[:-1] + (1,))], axis=-1)
        X3 = X.reshape(-1, 3)
    if X3.shape[1] != 3:
        return ['%s read with dimension %d' % (p['type'], X3.shape[1])]
    Y = X3 - c
    lx, ly, lz = Y @ ex, Y @ ey, Y @ ez
    t = p['type']
    scale = max(1.0, float(np.abs(X3).max()))
    tol = 1e-9 * scale
    fails = []

    def chk(name, resid):
        m = float(np.abs(resid).max())
        if m > tol:
            fails.append('%s: %s violated by %.3g' % (t, name, m))

    want_pardim = 1 if t in ('line', 'circle', 'arc', 'ellipse') else 2
    if obj.pardim != want_pardim:
        return ['%s read as an object of parametric dimension %d' % (t, obj.pardim)]
    if t == 'line':
        dvec = np.array(p['d'])
        chk('points on the line', np.cross(Y, dvec / np.linalg.norm(dvec)))
        a, b = c + dvec * p['t0'], c + dvec * p['t1']
        ends = [X3[0], X3[-1]]
        if p['swap']:
            a, b = b, a
        chk('end points', np.array(ends) - np.array([a, b]))
    elif t in ('circle', 'arc'):
        chk('|x-c| = r', np.sqrt(lx ** 2 + ly ** 2 + lz ** 2) - r)
        chk('in the plane', lz)
        if t == 'arc' and CHECK_ARC_BOUNDS:
            t0, t1 = p['t0'], p['t1']
            a = c + r * (math.cos(t0) * ex + math.sin(t0) * ey)
            b = c + r * (math.cos(t1) * ex + math.sin(t1) * ey)
            chk('arc end points (parameter bounds of the record)', np.array([X3[0], X3[-1]]) - np.array([a, b]))
    elif t == 'ellipse':
        chk('(x/r1)^2+(y/r2)^2 = 1', ((lx / r) ** 2 + (ly / p['r2']) ** 2 - 1) * min(r, p['r2']))
        chk('in the plane', lz)
    elif t == 'cylinder':
        chk('distance from the axis = r', np.sqrt(lx ** 2 + ly ** 2) - r)
        chk('axial extent', np.array([lz.min() - p['v0'], lz.max() - p['v1']]))
    elif t == 'disc':
        chk('in the plane', lz)
        rad = np.sqrt(lx ** 2 + ly ** 2)
        chk('inside the radius, reaching it', np.array([max(rad.max() - r, 0.0), rad.max() - r]))
    elif t == 'plane':
        chk('in the plane', lz)
        U, V = np.meshgrid(params[0], params[1], indexing='ij')
        if p['swap']:
            U, V = np.meshgrid(params[1], params[0], indexing='ij')
            U, V = U.T, V.T
        chk('x(u,v) = c + u*ex + v*ey', np.stack([lx - U.reshape(-1), ly - V.reshape(-1)]))
    elif t == 'torus':
        chk('(rho-R)^2 + z^2 = r^2', np.sqrt((np.sqrt(lx ** 2 + ly ** 2) - p['major']) ** 2 + lz ** 2) - p['minor'])
    elif t == 'sphere':
        chk('|x-c| = r', np.sqrt(lx ** 2 + ly ** 2 + lz ** 2) - r)
    elif t == 'extrusion':
        crv = gen.mk_object(sp, p['curve'])
        nrm = np.array(p['n'])
        pu, pv = (params[1], params[0]) if p['swap'] else (params[0], params[1])
        C = _eval(crv, [pu]).reshape(-1, 3)
        W = C[:, None, :] + np.array(pv)[None, :, None] * nrm[None, None, :]
        if p['swap']:
            W = W.transpose(1, 0, 2)
        chk('x(u,v) = curve(u) + v*direction', X - W)
    return fails


def oracle(sp, s):
    k = s['kind']
    if k == 'g2w':
        return _oracle_g2w(sp, s)
    if k in ('g2r', 'spl'):
        return _oracle_foreign(sp, s)
    if k == 'stl':
        return _oracle_stl(sp, s)
    if k == 'svg':
        return _oracle_svg(sp, s)
    if k == 'prim':
        return _oracle_prim(sp, s)
    if k == 'g2mix':
        return _oracle_mixed(sp, s)
    return []


def _oracle_mixed(sp, s):
    """Every record of a mixed file must read, inside the file, to what it reads to on its own (and that is checked
    against its description by the per-record oracles); the file yields one object per record, in order."""
    fails = []
    d = _tmp()
    try:
        fn = os.path.join(d, 'a.g2')
        with open(fn, 'w') as f:
            f.write(s['text'])
        try:
            with _io(sp).G2(fn) as f:
                back = f.read()
        except Exception as e:  # noqa: BLE001
            return ['reader raised %s on a file of %d valid records: %s' % (type(e).__name__, len(s['parts']), e)]
        if len(back) != len(s['parts']):
            return ['file holds %d records, read %d objects' % (len(s['parts']), len(back))]
        for k, (b, q) in enumerate(zip(back, s['parts'])):
            fn2 = os.path.join(d, 'p%d.g2' % k)
            with open(fn2, 'w') as f:
                f.write(q['text'])
            with _io(sp).G2(fn2) as f:
                alone = f.read()
            if len(alone) != 1 or gen.obj_observables(alone[0]) != gen.obj_observables(b):
                fails.append('record %d reads differently inside the file than on its own' % k)
    finally:
        shutil.rmtree(d, ignore_errors=True)
    for k, q in enumerate(s['parts']):
        fails += ['record %d: %s' % (k, m) for m in (_oracle_foreign(sp, q) if q['kind'] == 'g2r' else _oracle_prim(sp, q))]
    return fails


# =============================================================================================
# bookkeeping

def _split_broken(sp, o, raise_to=None):
    """Root-cause probe for failures on periodic objects: does the library's own `split(start)` (after
    `raise_order` to `raise_to` when given, as `bezier_representation` does) fail, return a non-open knot
    vector, move the parameter domain or change the geometry (exact NURBS sum of the original)?"""
    try:
        obj = gen.mk_object(sp, o)
        if raise_to is not None:
            obj.raise_order(raise_to - obj.order(0))
        orig = gen.mk_object(sp, o)
        for i in range(obj.pardim):
            if obj.periodic(i):
                obj = obj.split(obj.start(i), i)
        for i in range(obj.pardim):
            if o['bases'][i]['periodic'] < 0:
                continue
            b = obj.bases[i]
            kn = [float(x) for x in b.knots]
            if kn[:b.order] != [kn[0]] * b.order or kn[-b.order:] != [kn[-1]] * b.order:
                return True
            if abs(obj.start(i) - orig.start(i)) > 1e-9 or abs(obj.end(i) - orig.end(i)) > 1e-9:
                return True
        params = [_span_params(_dknots(orig, dd), orig.order(dd)) for dd in range(orig.pardim)]
        tuples = list(itertools.product(*params))
        tuples = tuples[::max(1, len(tuples) // 16)]
        want = np.array([[float(x) for x in exact.nurbs_point(o, t)] for t in tuples])
        with np.errstate(all='ignore'):
            got = np.array([np.asarray(obj(*t), dtype=float).reshape(-1) for t in tuples])
        return not _close(got, want)
    except Exception:  # noqa: BLE001
        return True


def classify(s, res=None):
    """No finding class is listed for C19 any more (`periodic-seam-split` was repaired with periodic insert_knot):
    every oracle failure is an unexplained violation."""
    return None


def _all_objs(s):
    if s['kind'] in ('g2w', 'stl'):
        return s['objs']
    if s['kind'] in ('g2r', 'spl'):
        return s['expect'] or []
    if s['kind'] == 'g2mix':
        return [o for q in s['parts'] if q['kind'] == 'g2r' for o in q['expect']]
    if s['kind'] == 'svg':
        return s['curves']
    return []


def tags(s, res):
    k = s['kind']
    out = [k]
    objs = _all_objs(s)
    for o in objs:
        out.append('pardim=%d' % len(o['bases']))
        out.append('rational' if o['rational'] else 'non-rational')
        out.append('periodic' if not _nonperiodic(o) else 'non-periodic')
        out.append('dim=%d' % (np.array(o['cps']).shape[-1] - int(o['rational'])))
    for o in objs:
        if len(o['bases']) == 3:
            shp = [gen.basis_info(b)['n'] for b in o['bases']]
            if len(set(shp)) == 3:
                out.append(k + '-volume-noncubic')
                if o['rational'] and not np.any(np.array(o['cps'])[..., -1] == 1.0):
                    out.append(k + '-rational-volume-nonunit-weights')
    if any(_small_periodic(b) for o in objs for b in o['bases']):
        out.append('small-periodic')
    if s.get('stream') == 'mixed':
        out.append('mixed-magnitude')
    if s.get('stream') == 'extreme':
        out.append('extreme')
    if s.get('stream') == 'full':
        out.append('full-mantissa')
    if k in ('g2r', 'spl'):
        out.append('style=' + s['style'])
        if s.get('malformed'):
            out += ['malformed', 'malformed=' + s['malformed']]
    if k == 'g2w':
        out.append('nobj=%d' % len(objs))
    if k == 'stl':
        out.append('stl-binary' if s['binary'] else 'stl-ascii')
        out.append('stl-n=' + ('None' if s['n'] is None else 'pair' if isinstance(s['n'], list) else 'int'))
        if any(len(o['bases']) == 3 for o in objs):
            out.append('stl-volume')
    if k == 'svg':
        out.append('svg-curves=%d' % len(objs))
        out += ['svg-order=%d' % o['bases'][0]['order'] for o in objs]
    if k == 'g2mix':
        out.append('mixed-file')
        out += ['mixed-has-' + q['kind'] for q in s['parts']]
    if k == 'g2w' and not objs:
        out.append('g2w-empty-list')
    if k == 'svg' and any(np.array(c['cps']).shape[-1] != 2 for c in s['curves']):
        out.append('svg-not-planar')
    if k == 'prim' and s.get('flag_spelling'):
        out.append('prim-flag-spelling=' + s['flag_spelling'])
    if k == 'prim':
        out.append('prim=' + s['prim']['type'])
        if s['prim']['type'] in ('circle', 'ellipse') and s['prim']['swap']:
            out.append('prim-reversed-periodic')
        if s['prim'].get('finite') == 0:
            out.append('prim-unbounded')
    if k == 'stl' and any(np.array(o['cps']).shape[-1] - int(o['rational']) == 2 for o in objs):
        out.append('stl-dim2')
    return sorted(set(out))


def nontrivial(s, res):
    return not s.get('malformed')


if __name__ == '__main__':
    import json
    import sys
    dst = os.path.join(os.path.dirname(os.path.dirname(os.path.dirname(os.path.abspath(__file__)))), 'corpus', 'C19')
    os.makedirs(dst, exist_ok=True)
    with open(os.path.join(dst, 'divergences.json'), 'w') as f:
        json.dump(corpus_specs(), f, indent=1, sort_keys=True)
    sys.stdout.write('wrote %s\n' % os.path.join(dst, 'divergences.json'))
